"""Spec functions for the emitted endpoint methods (E obligations).  Written from the statements of C04 / C06."""
from pyvc.spec import uf, implies, call_count, call_arg, call_kwargs, call_result, dict_merge
from pyopenapi_gen.core.exceptions import ClientError, HTTPError, ServerError

U = "self._transport.request"


def ser(x):
    """the bundled serialiser, as an uninterpreted function of its argument (its own laws are C16)"""
    return uf("call.DataclassSerializer.serialize", x)


def same_map(actual, expected):
    """a query / header map as sent: an absent or None keyword is the empty map"""
    return actual == expected or (actual is None and expected == {})


def sent(key):
    return call_kwargs("self._transport.request", 0).get(key)


def status_is_int(result):
    """httpx.Response.status_code is an int in 100..599"""
    return isinstance(result.status_code, int) and not isinstance(result.status_code, bool) and 100 <= result.status_code and result.status_code < 600


def error_is_classed(exc, resp):
    """C06: the raised object is an HTTPError carrying status and response; 4xx -> ClientError, 5xx -> ServerError"""
    sc = resp.status_code
    if 200 <= sc and sc < 300:
        return True
    if not isinstance(exc, HTTPError):
        return False
    return (exc.status_code == sc and exc.response is resp
            and implies(400 <= sc and sc < 500, isinstance(exc, ClientError))
            and implies(500 <= sc and sc < 600, isinstance(exc, ServerError)))
