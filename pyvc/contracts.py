"""Sidecar contract API.  Contracts are plain Python: every clause is a function whose body is in the
verified subset, so the SAME text is (a) symbolically executed by pyvc to build the obligation and
(b) called natively by the replay step and by the bounded run-time monitor."""
from __future__ import annotations

import ast
import inspect
import textwrap

REGISTRY: dict[str, "Contract"] = {}


class Clause:
    def __init__(self, name, fn, kind, aux=False, when=None, note="", props=None):
        self.name = name
        self.fn = fn
        self.kind = kind  # requires | ensures | raises | invariant
        self.aux = aux
        self.note = note
        self.props = props  # None = the contract's properties
        self._ast = None
        self.module = getattr(fn, "__module__", None)

    @property
    def ast(self) -> ast.FunctionDef:
        if self._ast is None:
            src = textwrap.dedent(inspect.getsource(self.fn))
            tree = ast.parse(src)
            fn = tree.body[0]
            if isinstance(fn, ast.Assign) or isinstance(fn, ast.Expr):  # lambda form
                lam = next(n for n in ast.walk(fn) if isinstance(n, ast.Lambda))
                fd = ast.FunctionDef(name="_lambda", args=lam.args, body=[ast.Return(value=lam.body)], decorator_list=[], lineno=1, col_offset=0)
                ast.fix_missing_locations(fd)
                fn = fd
            fn.decorator_list = []
            self._ast = fn
        return self._ast

    @classmethod
    def from_source(cls, name, src, kind, module=None, aux=False, props=None, note=""):
        """clause whose text is produced by an oracle (E obligations); evaluated symbolically, and natively through exec"""
        import textwrap as _tw
        tree = ast.parse(_tw.dedent(src))
        fn = tree.body[0]
        ns = {}
        c = cls(name, None, kind, aux=aux, note=note, props=props)
        c._ast = fn
        c._src = src
        c.module = module
        return c

    @property
    def params(self):
        return [a.arg for a in self.ast.args.args]

    def source(self):
        return textwrap.dedent(inspect.getsource(self.fn))


class Contract:
    def __init__(self, qual, props=(), **opts):
        self.qual = qual
        self.props = list(props)
        self.requires_: list[Clause] = []
        self.ensures_: list[Clause] = []
        self.raises_: list[Clause] = []
        self.invariants_: dict[int, list[Clause]] = {}
        self.opts = opts
        # options (all optional):
        #   nothrow=True            obligation: no exceptional exit is reachable
        #   raises_only=[names]     obligation: every exceptional exit has one of these classes
        #   pure=[callee names]     callees assumed neither to raise nor to mutate (listed in evidence)
        #   nothrow_calls=[names]   callees assumed not to raise
        #   inline=[names]          callees whose real body is executed in place
        #   split=True              never merge states (one obligation per path)
        #   frame_opaque=[paths]    access paths assumed unchanged by opaque calls (backed by frame scan)
        #   abstract=True           no body to verify (protocol method / dependency): assumed contract
        #   build_inputs=callable   replay hook
        self.build_inputs = opts.pop("build_inputs", None)
        self.abstract = opts.pop("abstract", False)
        self.assumed = opts.pop("assumed", None)  # reason string if this contract is assumed, not proved
        REGISTRY[qual] = self

    # decorators ---------------------------------------------------------------------------------
    def requires(self, fn=None, *, name=None, typing=False):
        """typing=True: the clause restates the parameter annotations (type invariant of the inputs); it is assumed at
        entry and NOT turned into an obligation at call sites (annotations are trusted: the repo is mypy --strict)."""
        def deco(f):
            cl = Clause(name or f.__name__, f, "requires")
            cl.typing = typing
            self.requires_.append(cl)
            return f
        return deco(fn) if fn else deco

    def ensures(self, fn=None, *, name=None, aux=False, note="", props=None, only_exit=None):
        """only_exit="end": the clause is about falling off the end of the (region) body only, not about `return` exits"""
        def deco(f):
            cl = Clause(name or f.__name__, f, "ensures", aux=aux, note=note, props=props)
            cl.only_exit = only_exit
            self.ensures_.append(cl)
            return f
        return deco(fn) if fn else deco

    def raises(self, fn=None, *, name=None, aux=False, note="", props=None):
        """Postcondition of exceptional exits; parameter ``exc`` is the exception object."""
        def deco(f):
            self.raises_.append(Clause(name or f.__name__, f, "raises", aux=aux, note=note, props=props))
            return f
        return deco(fn) if fn else deco

    def invariant(self, loop, fn=None, *, name=None):
        def deco(f):
            self.invariants_.setdefault(loop, []).append(Clause(name or f.__name__, f, "invariant"))
            return f
        return deco(fn) if fn else deco


def contract(qual, props=(), **opts) -> Contract:
    return Contract(qual, props, **opts)


def lookup(qual):
    return REGISTRY.get(qual)


def lookup_by_method(name):
    """Contracts whose qualified name ends in '.<name>' or ':<name>' (receiver type unknown at the call)."""
    return [c for q, c in REGISTRY.items() if q.endswith("." + name) or q.endswith(":" + name)]
