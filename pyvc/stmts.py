"""Statements, loops (cut at invariants), try/except/finally routing, and the per-function driver that turns
exits into proof obligations."""
from __future__ import annotations

import ast
import z3

from . import source
from .calls import CallsMixin
from .contracts import Contract
from .exec import BUILTIN_EXC, MUTATORS, Obligation, Outcome
from .state import (BoundMethod, Builtin, Cell, ClassRef, Exc, ExtRef, FuncRef, MergeFail, OutOfSubset, PyConst, Ref, State, Tup,
                    merge_states)
from .sym import (ABSENT, Any, BoolS, DictS, EMPTY_DICT, EMPTY_LIST, EMPTY_SET, IntS, ListS, SetS, StrS, Val, VBool, VInt, VNone,
                  VStr, acc, ctor, fresh, from_any, recog)


class Exec(CallsMixin):
    # ------------------------------------------------------------------------------------------
    def exec_block(self, stmts, st: State):
        """Execute statements; returns outcomes. 'next' outcomes are the fall-through states."""
        live = [st]
        done = []
        for s in stmts:
            nxt = []
            for cur in live:
                outs = self.exec_stmt(s, cur)
                for o in outs:
                    (nxt if o.sig == "next" else done).append(o)
            live = self.join([o.state for o in nxt])
            if not live:
                break
            if len(live) + len(done) > self.max_states:
                self.oos("state explosion", s)
        return done + [Outcome("next", s_) for s_ in live]

    def join(self, states):
        if len(states) <= 1 or self.opts.get("split", False):
            return states
        try:
            return [merge_states(states, strict_log=bool(self.opts.get("track_calls")))]
        except MergeFail:
            return states

    def exec_stmt(self, node, st: State):
        m = getattr(self, "s_" + type(node).__name__, None)
        if m is None:
            self.oos(f"statement {type(node).__name__} not supported", node)
        assert not self.pending or self.depth > 0 or True
        saved_pending = self.pending
        self.pending = []
        try:
            if self.opts.get("abstract_unsupported") and self.depth == 0 and not isinstance(
                    node, (ast.If, ast.For, ast.AsyncFor, ast.While, ast.Try, ast.With, ast.AsyncWith, ast.Match, ast.Return, ast.Raise)):
                snap = st.fork()
                try:
                    outs = m(node, st)
                except OutOfSubset as e:
                    text = ast.unparse(node)
                    for t in self.opts.get("tracked_names", ()):
                        if t in text:
                            raise
                    # abstract the whole statement: assigned names become unknown, it may raise, tracked state untouched
                    st.vars, st.heap, st.pc, st.log, st.ghost = snap.vars, snap.heap, snap.pc, snap.log, snap.ghost
                    self.pending = []
                    names, roots = self.body_writes([node])
                    self.havoc_loop(st, names, roots, node)
                    for n_ in names:
                        if n_ not in st.vars:
                            st.vars[n_] = Val("any", fresh("abstracted_" + n_, Any))
                    self.abstracted.append((node.lineno, text[:80], str(e)[-80:]))
                    self.may_raise(st, fresh("abstracted_raises", BoolS), Exc(None, origin="abstracted statement"), node)
                    outs = [Outcome("next", st)]
            else:
                outs = m(node, st)
            outs = list(self.pending) + list(outs)
        finally:
            self.pending = saved_pending
        # drop outcomes whose path condition is syntactically false
        res = []
        for o in outs:
            if o.state.pc and z3.is_false(o.state.pc[-1]):
                continue
            res.append(o)
        return res

    # simple statements --------------------------------------------------------------------------
    def s_Pass(self, node, st):
        return [Outcome("next", st)]

    def s_Expr(self, node, st):
        if isinstance(node.value, ast.Constant):
            return [Outcome("next", st)]
        if isinstance(node.value, (ast.Yield, ast.YieldFrom)):
            return self.do_yield(node.value, st)
        rw = self.rewrite_dict_of_lists_append(node)
        if rw is not None:
            return self.exec_stmt(rw, st) if hasattr(self, "exec_stmt") else self.exec_block([rw], st)
        self.eval(node.value, st)
        return [Outcome("next", st)]

    def rewrite_dict_of_lists_append(self, node):
        """`d[k].append(a)` / `d.setdefault(k, []).append(a)` on a dict declared in opts['dict_of_lists'] (a dict whose list values are created
        by the function itself and reachable only through the dict): executed as the functional update  d[k] = (d[k] if k in d else []) + [a].
        Value semantics equal reference semantics here because no alias to the inner lists exists (declared assumption)."""
        names = self.opts.get("dict_of_lists") or {}
        c = node.value
        if not (names and isinstance(c, ast.Call) and isinstance(c.func, ast.Attribute) and c.func.attr == "append" and len(c.args) == 1 and not c.keywords):
            return None
        tgt = c.func.value
        d = k = None
        if isinstance(tgt, ast.Subscript) and isinstance(tgt.value, ast.Name):
            d, k = tgt.value.id, tgt.slice
            default_ok = names.get(d) == "defaultdict"
        elif (isinstance(tgt, ast.Call) and isinstance(tgt.func, ast.Attribute) and tgt.func.attr == "setdefault" and isinstance(tgt.func.value, ast.Name)
              and len(tgt.args) == 2 and isinstance(tgt.args[1], ast.List) and not tgt.args[1].elts):
            d, k = tgt.func.value.id, tgt.args[0]
            default_ok = True
        if d is None or d not in names:
            return None
        ks, as_ = ast.unparse(k), ast.unparse(c.args[0])
        src = f"{d}[{ks}] = ({d}[{ks}] if {ks} in {d} else []) + [{as_}]" if default_ok else f"{d}[{ks}] = {d}[{ks}] + [{as_}]"
        new = ast.parse(src).body[0]
        ast.copy_location(new, node)
        for n_ in ast.walk(new):
            ast.copy_location(n_, node)
        self.assumptions.add(f"lists held in `{d}` are reachable only through it (dict-of-lists update executed by value)")
        return new

    def do_yield(self, y, st):
        v = self.as_val(self.eval(y.value, st), st, y) if y.value is not None else VNone
        cur = st.ghost.get("yielded", Val("l", EMPTY_LIST))
        g = self.guard_cond()
        st.ghost["yielded"] = Val("l", z3.Concat(cur.e, z3.Unit(v.any())))
        return [Outcome("next", st)]

    def s_Global(self, node, st):
        return [Outcome("next", st)]

    s_Nonlocal = s_Global

    def s_Import(self, node, st):
        for a in node.names:
            nm = a.asname or a.name.split(".")[0]
            st.vars[nm] = self.resolve_import(("mod", a.name if a.asname else a.name.split(".")[0]))
        return [Outcome("next", st)]

    def s_ImportFrom(self, node, st):
        base = node.module or ""
        if node.level:
            pkg = self.mod.name.rsplit(".", 1)[0] if not self.mod.path.endswith("__init__.py") else self.mod.name
            parts = pkg.split(".")
            if node.level > 1:
                parts = parts[: -(node.level - 1)]
            base = ".".join(parts + ([node.module] if node.module else []))
        for a in node.names:
            st.vars[a.asname or a.name] = self.resolve_import(("attr", base, a.name))
        return [Outcome("next", st)]

    def s_Assert(self, node, st):
        c = self.truth(self.eval(node.test, st), st, node)
        self.may_raise(st, z3.Not(c), Exc("AssertionError"), node)
        return [Outcome("next", st)]

    def s_Delete(self, node, st):
        for t in node.targets:
            if isinstance(t, ast.Name):
                st.vars.pop(t.id, None)
            elif isinstance(t, ast.Subscript):
                recv = self.eval(t.value, st)
                if isinstance(recv, Ref) and st.cell(recv).kind == "dict":
                    k = self.need(self.evalv(t.slice, st), "s", st, node)
                    c = st.cell(recv)
                    self.may_raise(st, z3.Select(c.val.e, k) == ABSENT, Exc("KeyError"), node)
                    st.wcell(recv).val = Val("d", z3.Store(c.val.e, k, ABSENT))
                else:
                    self.oos("del on non-local container", node)
            else:
                self.oos("del target", node)
        return [Outcome("next", st)]

    def s_Return(self, node, st):
        v = self.eval(node.value, st) if node.value is not None else VNone
        return [Outcome("return", st, v, node)]

    def s_Break(self, node, st):
        return [Outcome("break", st, None, node)]

    def s_Continue(self, node, st):
        return [Outcome("continue", st, None, node)]

    def s_Raise(self, node, st):
        if node.exc is None:
            ex = st.vars.get("__active_exc")
            if not isinstance(ex, Exc):
                self.oos("bare raise outside handler", node)
            return [Outcome("raise", st, ex, node)]
        v = self.eval(node.exc, st)
        if isinstance(v, ClassRef):
            v = self.instantiate(v, [], {}, st, node)
        if isinstance(v, Exc):
            return [Outcome("raise", st, v, node)]
        if isinstance(v, Ref) and st.cell(v).kind == "obj":
            c = st.cell(v)
            cref = self.class_of(c)
            ex = Exc(cref.name if cref else None, dict(c.fields), origin=f"raise@L{node.lineno}", ref=v)
            ex.chain = self.class_chain(cref) if cref else None
            return [Outcome("raise", st, ex, node)]
        return [Outcome("raise", st, Exc(None, origin=f"raise@L{node.lineno}"), node)]

    def s_FunctionDef(self, node, st):
        st.vars[node.name] = FuncRef(self.mod, self.cls, node, f"{self.fn_qual}.<locals>.{node.name}")
        return [Outcome("next", st)]

    s_AsyncFunctionDef = s_FunctionDef

    def s_ClassDef(self, node, st):
        self.oos("nested class", node)

    # assignment ---------------------------------------------------------------------------------
    def s_Assign(self, node, st):
        v = self.eval(node.value, st)
        for t in node.targets:
            self.assign(t, v, st, node)
        return [Outcome("next", st)]

    def s_AnnAssign(self, node, st):
        if node.value is not None:
            self.assign(node.target, self.eval(node.value, st), st, node)
        return [Outcome("next", st)]

    def s_AugAssign(self, node, st):
        load = ast.copy_location(ast.BinOp(left=self._as_load(node.target), op=node.op, right=node.value), node)
        v = self.eval(load, st)
        # list += list mutates in place
        self.assign(node.target, v, st, node)
        return [Outcome("next", st)]

    def _as_load(self, t):
        t2 = ast.parse(ast.unparse(t), mode="eval").body
        return ast.copy_location(t2, t)

    def assign(self, target, v, st: State, node):
        if isinstance(target, ast.Name):
            if target.id in self.opts.get("int_sets", ()) and isinstance(v, Ref) and st.cell(v).kind == "set" and st.cell(v).val.tag == "st":
                from .sym import EMPTY_ISET, EMPTY_SET
                if st.cell(v).val.e.eq(EMPTY_SET):
                    st.wcell(v).val = Val("sti", EMPTY_ISET)  # declared set of ints (contract option int_sets)
            g = self.guard_cond()
            if g is not None and target.id in st.vars:
                v = self.ite_slot(g, v, st.vars[target.id], st, node)
            st.vars[target.id] = v
            return
        if isinstance(target, (ast.Tuple, ast.List)):
            self.bind_target(target, v, st, node)
            return
        if isinstance(target, ast.Attribute):
            sa = self.opts.get("site_asserts", {}).get(ast.unparse(target) + "=")
            if sa is not None and self.depth == 0:
                # assertion on the value stored into <expr>.<attr> (key "<expr>.<attr>="): arg0 is the value being stored
                from .contracts import Clause
                cl = Clause("site_" + ast.unparse(target).replace(".", "_") + "_store", sa, "ensures")
                bound = dict(st.vars)
                bound["arg0"] = v
                goal = self.eval_clause(cl, bound, st, self.entry_pre, {})
                nm_ = ast.unparse(target) + "="
                k_ = sum(1 for o in self.obligations if f"::site:{nm_}" in o.id)
                g_ = self.guard_cond()
                self.obligations.append(Obligation(f"{getattr(self, 'fn_site', self.fn_qual)}::site:{nm_}#{k_}", "assert",
                                                   list(st.pc) + ([g_] if g_ is not None else []), goal, {"line": getattr(node, "lineno", 0), "clause": cl.name}))
            recv = self.eval(target.value, st)
            if isinstance(recv, Ref) and st.cell(recv).kind == "obj":
                if st.cell(recv).frozen:
                    self.oos("attribute assignment on an object whose aliasing was lost at a join", node)
                g = self.guard_cond()
                if g is not None:
                    old = self.getattr(recv, target.attr, st, node)
                    v = self.ite_slot(g, v, old, st, node)
                st.wcell(recv).fields[target.attr] = v
                return
            self.oos("attribute assignment on a non-object", node)
        if isinstance(target, ast.Subscript):
            recv = self.eval(target.value, st)
            sa = self.opts.get("site_asserts", {}).get(ast.unparse(target.value) + "[]")
            if sa is not None and self.depth == 0:
                from .contracts import Clause
                cl = Clause("site_" + ast.unparse(target.value) + "_store", sa, "ensures")
                bound = dict(st.vars)
                bound["arg0"] = self.eval(target.slice, st)
                goal = self.eval_clause(cl, bound, st, self.entry_pre, {})
                nm_ = ast.unparse(target.value) + "[]"
                k_ = sum(1 for o in self.obligations if f"::site:{nm_}" in o.id)
                g_ = self.guard_cond()
                self.obligations.append(Obligation(f"{getattr(self, 'fn_site', self.fn_qual)}::site:{nm_}#{k_}", "assert",
                                                   list(st.pc) + ([g_] if g_ is not None else []), goal, {"line": getattr(node, "lineno", 0), "clause": cl.name}))
            if isinstance(recv, Ref):
                c = st.cell(recv)
                if c.frozen:
                    self.oos("subscript assignment to a container that was stored by value elsewhere (aliasing)", node)
                if c.kind == "dict":
                    k = self.need(self.evalv(target.slice, st), "s", st, node)
                    self.store_escape(v, st)
                    new = Val("d", z3.Store(c.val.e, k, self.as_val(v, st, node).any()))
                elif c.kind == "list":
                    i = self.need_int(self.evalv(target.slice, st), st, node)
                    n = z3.Length(c.val.e)
                    self.may_raise(st, z3.Or(i >= n, i < -n), Exc("IndexError"), node)
                    i = z3.If(i < 0, i + n, i)
                    self.store_escape(v, st)
                    new = Val("l", z3.Concat(z3.Extract(c.val.e, z3.IntVal(0), i), z3.Unit(self.as_val(v, st, node).any()),
                                             z3.Extract(c.val.e, i + 1, n - i - 1)))
                else:
                    self.oos("subscript assignment", node)
                g = self.guard_cond()
                if g is not None:
                    from .sym import ite_val
                    new = ite_val(g, new, c.val)
                st.wcell(recv).val = new
                return
            if isinstance(target.value, ast.Name) and isinstance(recv, Val) and recv.tag in ("any", "d"):
                # a dict obtained from an opaque call and held only by this local: update it in place under a fresh reference
                d0 = self.need(recv, "d", st, node)
                ref = st.new(Cell("dict", val=Val("d", d0)))
                st.vars[target.value.id] = ref
                self.assumptions.add(f"the dict held by local `{target.value.id}` (result of an opaque call) is not aliased elsewhere")
                return self.assign(target, v, st, node)
            self.oos("subscript assignment to a value that is not a local reference", node)
        self.oos("assignment target", node)

    def bind_target(self, target, v, st, node):
        if isinstance(target, ast.Name):
            st.vars[target.id] = v
            return
        if isinstance(target, (ast.Tuple, ast.List)):
            n = len(target.elts)
            if isinstance(v, Tup):
                if len(v.items) != n:
                    self.may_raise(st, True, Exc("ValueError", origin="unpack"), node)
                    return
                for t, x in zip(target.elts, v.items):
                    self.bind_target(t, x, st, node)
                return
            vv = self.as_val(v, st, node)
            l = self.need(vv, "l", st, node)
            self.may_raise(st, z3.Length(l) != n, Exc("ValueError", origin="unpack"), node)
            for k, t in enumerate(target.elts):
                self.bind_target(t, from_any(l[k]), st, node)
            return
        self.assign(target, v, st, node)

    # control flow -------------------------------------------------------------------------------
    def abstract_test(self, test, st, node):
        """slicing mode (DESIGN App. B): a branch condition that mentions no tracked name is an unconstrained boolean
        (its evaluation may raise)"""
        if not self.opts.get("abstract_conditions") or self.depth > 0:
            return None
        text = ast.unparse(test)
        if any(t in text for t in self.opts.get("tracked_names", ())):
            return None
        self.may_raise(st, fresh("cond_raises", BoolS), Exc(None, origin="branch condition"), node)
        return fresh(f"cond_L{getattr(node, 'lineno', 0)}", BoolS)

    def s_If(self, node, st):
        c = self.abstract_test(node.test, st, node)
        if c is None:
            c = self.truth(self.eval(node.test, st), st, node)
        cs = z3.simplify(c)
        if z3.is_true(cs):
            return self.exec_block(node.body, st)
        if z3.is_false(cs):
            return self.exec_block(node.orelse, st) if node.orelse else [Outcome("next", st)]
        a = st.fork()
        a.assume(c)
        b = st
        b.assume(z3.Not(c))
        self.n_forks += 1
        outs_a = self.exec_block(node.body, a)
        outs_b = self.exec_block(node.orelse, b) if node.orelse else [Outcome("next", b)]
        return self.regroup(outs_a + outs_b)

    def regroup(self, outs):
        nxt = [o.state for o in outs if o.sig == "next"]
        rest = [o for o in outs if o.sig != "next"]
        return rest + [Outcome("next", s) for s in self.join(nxt)]

    def s_Match(self, node, st):
        subj = self.eval(node.subject, st)
        outs = []
        cur = st
        for case in node.cases:
            cond = self.match_pattern(case.pattern, subj, cur, node)
            capture = case.pattern.name if isinstance(case.pattern, ast.MatchAs) and case.pattern.pattern is None else None
            if capture:
                cur.vars[capture] = subj  # a capture pattern binds before its guard is evaluated
            if case.guard is not None:
                cond = z3.And(cond, self.truth(self.eval(case.guard, cur), cur, node))
            cs = z3.simplify(cond)
            if z3.is_false(cs):
                continue
            a = cur.fork()
            a.assume(cond)
            if isinstance(case.pattern, ast.MatchAs) and case.pattern.name and case.pattern.pattern is None:
                a.vars[case.pattern.name] = subj
            outs.extend(self.exec_block(case.body, a))
            if z3.is_true(cs):
                cur = None
                break
            cur.assume(z3.Not(cond))
        if cur is not None:
            outs.append(Outcome("next", cur))
        return self.regroup(outs)

    def match_pattern(self, p, subj, st, node):
        if isinstance(p, ast.MatchValue):
            return self.eq_slots(subj, self.eval(p.value, st), st, node)
        if isinstance(p, ast.MatchSingleton):
            from .sym import const_to_val
            return self.eq_slots(subj, const_to_val(p.value), st, node, identity=True)
        if isinstance(p, ast.MatchOr):
            return z3.Or(*[self.match_pattern(x, subj, st, node) for x in p.patterns])
        if isinstance(p, ast.MatchAs) and p.pattern is None:
            return z3.BoolVal(True)
        self.oos(f"match pattern {type(p).__name__}", node)

    def s_With(self, node, st):
        # with X as y: body  — treated as body with y bound to X's value; __exit__ of the managers is opaque
        for it in node.items:
            v = self.eval(it.context_expr, st)
            if it.optional_vars is not None:
                self.assign(it.optional_vars, v, st, node)
        return self.exec_block(node.body, st)

    s_AsyncWith = s_With

    # try ----------------------------------------------------------------------------------------
    def exc_matches(self, ex: Exc, names):
        """True / False / None(unknown)."""
        if any(n in ("Exception", "BaseException") for n in names):
            return True
        if ex.cls is None:
            return None
        chain = getattr(ex, "chain", None)
        if chain is None:
            chain = [ex.cls]
            stack = list(BUILTIN_EXC.get(ex.cls, []))
            if ex.cls not in BUILTIN_EXC:
                r = self.resolve_global(ex.cls)
                if isinstance(r, ClassRef):
                    chain = self.class_chain(r)
                    stack = []
                else:
                    return None if ex.cls not in names else True
            while stack:
                b = stack.pop()
                if b not in chain:
                    chain.append(b)
                    stack.extend(BUILTIN_EXC.get(b, []))
        return any(n in chain for n in names)

    def handler_names(self, h, st):
        if h.type is None:
            return ["BaseException"]
        t = h.type
        elts = t.elts if isinstance(t, ast.Tuple) else [t]
        out = []
        for e in elts:
            out.append(e.id if isinstance(e, ast.Name) else (e.attr if isinstance(e, ast.Attribute) else "?"))
        return out

    def s_Try(self, node, st):
        body_outs = self.exec_block(node.body, st)
        after_body = []
        raised = [o for o in body_outs if o.sig == "raise"]
        others = [o for o in body_outs if o.sig != "raise"]
        # else-block runs after normal completion of the body
        for o in others:
            if o.sig == "next" and node.orelse:
                after_body.extend(self.exec_block(node.orelse, o.state))
            else:
                after_body.append(o)
        handled = []
        if node.handlers:
            # merge exceptional exits of the same exception class before running handlers
            for group in self.group_raises(raised):
                handled.extend(self.run_handlers(node, group))
        else:
            handled = raised
        outs = after_body + handled
        if node.finalbody:
            outs = self.run_finally(node, outs)
        return self.regroup(outs)

    def group_raises(self, raised):
        if self.opts.get("split", False):
            return [[o] for o in raised]
        groups = {}
        for o in raised:
            key = (o.payload.cls, id(o.payload) if o.payload.fields else 0)
            groups.setdefault(key, []).append(o)
        out = []
        for key, os_ in groups.items():
            if len(os_) > 1:
                try:
                    m = merge_states([o.state for o in os_], strict_log=bool(self.opts.get("track_calls")))
                    out.append([Outcome("raise", m, os_[0].payload, os_[0].node)])
                    continue
                except MergeFail:
                    pass
            out.extend([[o] for o in os_])
        return out

    def run_handlers(self, node, group):
        outs = []
        for o in group:
            st, ex = o.state, o.payload
            remaining = st
            caught_all = False
            for h in node.handlers:
                names = self.handler_names(h, remaining)
                m = self.exc_matches(ex, names)
                if m is False:
                    continue
                hs = remaining.fork() if m is None else remaining
                if m is None:
                    flag = fresh("exc_is_" + "_".join(names), BoolS)
                    hs.assume(flag)
                    remaining.assume(z3.Not(flag))
                if h.name:
                    hs.vars[h.name] = ex.ref if ex.ref is not None else ex
                hs.vars["__active_exc"] = ex
                houts = self.exec_block(h.body, hs)
                for ho in houts:
                    ho.state.vars.pop("__active_exc", None)
                    if self.opts.get("no_swallow") and ho.sig != "raise" and self.depth == 0:
                        # ghost: an exception was caught and the handler completed without raising (the failure was swallowed)
                        ho.state.vars["__swallowed"] = VBool(z3.BoolVal(True))
                outs.extend(houts)
                if m is True:
                    caught_all = True
                    break
            if not caught_all:
                outs.append(Outcome("raise", remaining, ex, o.node))
        return outs

    def run_finally(self, node, outs):
        res = []
        # merge the exceptional exits into one finally-entry (Appendix B of DESIGN.md)
        raises = [o for o in outs if o.sig == "raise"]
        rest = [o for o in outs if o.sig != "raise"]
        merged_raises = []
        if len(raises) > 1 and not self.opts.get("split", False):
            try:
                m = merge_states([o.state for o in raises], strict_log=bool(self.opts.get("track_calls")))
                ex = raises[0].payload if all(o.payload.cls == raises[0].payload.cls for o in raises) else Exc(None, origin="merged")
                merged_raises = [Outcome("raise", m, ex, raises[0].node)]
            except MergeFail:
                merged_raises = raises
        else:
            merged_raises = raises
        for o in rest + merged_raises:
            fouts = self.exec_block(node.finalbody, o.state)
            for fo in fouts:
                if fo.sig == "next":
                    res.append(Outcome(o.sig, fo.state, o.payload, o.node))
                else:
                    res.append(fo)  # finally overrides (return/raise inside finally)
        return res

    # loops --------------------------------------------------------------------------------------
    def body_writes(self, body):
        """Syntactic write set of a loop body: assigned names and root names of mutated containers/objects."""
        names, roots = set(), set()
        for n in body:
            for x in ast.walk(n):
                if isinstance(x, (ast.Assign, ast.AugAssign, ast.AnnAssign)):
                    tgts = x.targets if isinstance(x, ast.Assign) else [x.target]
                    for t in tgts:
                        for y in ast.walk(t):
                            if isinstance(y, ast.Name) and isinstance(y.ctx, ast.Store):
                                names.add(y.id)
                        if isinstance(t, (ast.Attribute, ast.Subscript)):
                            roots.add(ast.unparse(t.value))
                elif isinstance(x, (ast.For, ast.AsyncFor, ast.comprehension)):
                    for y in ast.walk(x.target):
                        if isinstance(y, ast.Name):
                            names.add(y.id)
                elif isinstance(x, ast.NamedExpr):
                    names.add(x.target.id)
                elif isinstance(x, ast.Call) and isinstance(x.func, ast.Attribute) and x.func.attr in MUTATORS:
                    roots.add(ast.unparse(x.func.value))
                elif isinstance(x, (ast.With, ast.AsyncWith)):
                    for it in x.items:
                        if it.optional_vars is not None:
                            for y in ast.walk(it.optional_vars):
                                if isinstance(y, ast.Name):
                                    names.add(y.id)
                elif isinstance(x, ast.ExceptHandler) and x.name:
                    names.add(x.name)
                elif isinstance(x, (ast.Import, ast.ImportFrom)):
                    for a in x.names:
                        names.add(a.asname or a.name.split(".")[0])
        return names, roots

    def havoc_loop(self, st: State, names, roots, node, modifies=()):
        from .sym import ABSENT as _ABS

        def sym_ABSENT():
            return _ABS
        for n in names:
            if n in st.vars:
                cur = st.vars[n]
                if isinstance(cur, Ref) and st.cell(cur).kind != "obj":
                    # rebinding a container variable: new unknown container
                    c = st.cell(cur)
                    tag = c.val.tag
                    if tag == "st" and n in self.opts.get("int_sets", ()):
                        tag = "sti"
                    from .sym import PAYLOAD_SORT
                    st.vars[n] = st.new(Cell(c.kind, val=Val(tag, fresh(f"loop_{n}", PAYLOAD_SORT[tag]))))
                elif isinstance(cur, Val) and cur.tag in ("i", "b", "s"):
                    st.vars[n] = Val(cur.tag, fresh(f"loop_{n}", {"i": IntS, "b": BoolS, "s": StrS}[cur.tag]))
                elif isinstance(cur, Val) and cur.tag in ("d", "l", "st"):
                    st.vars[n] = Val(cur.tag, fresh(f"loop_{n}", {"d": DictS, "l": ListS, "st": SetS}[cur.tag]))
                else:
                    hv = Val("any", fresh(f"loop_{n}", Any))
                    st.assume(hv.e != sym_ABSENT())  # `absent` encodes a missing dict entry; it is never the value of a variable
                    st.vars[n] = hv
        ind = self.opts.get("independent_of")
        if ind is not None and hasattr(self, "ind_setup"):
            self.ind_setup(ind, node)  # makes sure the source terms are known before the first call site is reached
        if ind is not None and getattr(self, "ind_sources", None):
            # non-interference: what a loop leaves in the variables it assigns may depend on anything the loop read — conservatively on the sources
            es = [e_ for _n, e_ in self.ind_sources]
            for n in names:
                cur = st.vars.get(n)
                if isinstance(cur, Val):
                    st.vars[n] = Val(cur.tag, z3.Function(f"dep.loop.{cur.e.sort().name()}", cur.e.sort(), *[e_.sort() for e_ in es], cur.e.sort())(cur.e, *es))
                elif isinstance(cur, Ref) and st.cell(cur).kind != "obj" and isinstance(st.cell(cur).val, Val):
                    cv = st.cell(cur).val
                    st.wcell(cur).val = Val(cv.tag, z3.Function(f"dep.loop.{cv.e.sort().name()}", cv.e.sort(), *[e_.sort() for e_ in es], cv.e.sort())(cv.e, *es))
        for r in roots:
            try:
                slot = self.eval(ast.parse(r, mode="eval").body, st.fork())
            except OutOfSubset:
                continue
            if isinstance(slot, Ref) and slot.id in st.heap:
                c = st.cell(slot)
                if c.kind == "obj":
                    # attribute stores: havoc exactly the assigned attributes (collected syntactically)
                    continue
                self.havoc_ref(slot, st)
                if ind is not None and getattr(self, "ind_sources", None):
                    # a container mutated inside the loop: its content after the loop may depend on anything the loop read
                    c2 = st.cell(slot)
                    if isinstance(getattr(c2, "val", None), Val):
                        es = [e_ for _n, e_ in self.ind_sources]
                        cv = c2.val
                        st.wcell(slot).val = Val(cv.tag, z3.Function(f"dep.loop.{cv.e.sort().name()}", cv.e.sort(), *[e_.sort() for e_ in es], cv.e.sort())(cv.e, *es))
        for path in modifies:
            self.havoc_path(path, st.vars, st, node)

    def attr_stores(self, body):
        out = []
        for n in body:
            for x in ast.walk(n):
                if isinstance(x, (ast.Assign, ast.AugAssign, ast.AnnAssign)):
                    tgts = x.targets if isinstance(x, ast.Assign) else [x.target]
                    for t in tgts:
                        if isinstance(t, ast.Attribute):
                            out.append(ast.unparse(t))
        return out

    def callee_modifies(self, body):
        """modifies-paths of contracted callees invoked in a loop body, mapped to the actual argument names."""
        from .contracts import REGISTRY
        paths = []
        for n in body:
            for x in ast.walk(n):
                if isinstance(x, ast.Call):
                    nm = x.func.attr if isinstance(x.func, ast.Attribute) else (x.func.id if isinstance(x.func, ast.Name) else None)
                    if nm is None:
                        continue
                    for q, c in REGISTRY.items():
                        if (q.endswith(":" + nm) or q.endswith("." + nm)) and c.opts.get("modifies"):
                            try:
                                mod, cls, fn = source.find_function(q)
                            except LookupError:
                                continue
                            formals = [a.arg for a in fn.args.posonlyargs + fn.args.args]
                            if cls is not None and formals and formals[0] in ("self", "cls") and isinstance(x.func, ast.Attribute):
                                actuals = [x.func.value] + list(x.args)
                            else:
                                actuals = list(x.args)
                            amap = {}
                            for f, a in zip(formals, actuals):
                                amap[f] = ast.unparse(a)
                            for k in x.keywords:
                                if k.arg:
                                    amap[k.arg] = ast.unparse(k.value)
                            for p in c.opts["modifies"]:
                                head, _, tail = p.partition(".")
                                if head in amap:
                                    paths.append(amap[head] + ("." + tail if tail else ""))
        return paths

    def ghost_names(self):
        return ["yielded"] + [g for g, _ in self.opts.get("ghost_calls", {}).values()]

    def s_While(self, node, st):
        return self.loop(node, st, None)

    def s_For(self, node, st):
        src = self.opts.get("iter_source", {}).get(ast.unparse(node.iter))
        if src is not None:
            # assumed dependency contract: this iterable yields exactly the ghost input sequence `src`
            it = st.vars.get("__ghost_" + src)
            if it is None:
                self.oos(f"iter_source {src} not initialised", node)
        else:
            it = self.eval(node.iter, st)
        # concrete unrolling
        items = None
        if isinstance(node.iter, (ast.List, ast.Tuple)) and node.iter.elts and all(isinstance(e_, ast.Constant) for e_ in node.iter.elts):
            from .sym import const_to_val
            items = [const_to_val(e_.value) for e_ in node.iter.elts]  # literal list of constants: unrolled
        elif isinstance(it, Tup):
            items = it.items
        elif isinstance(it, PyConst) and isinstance(it.obj, (list, tuple, dict, set, frozenset)):
            items = [self.pyconst_val(x) for x in (sorted(it.obj) if isinstance(it.obj, (set, frozenset)) else it.obj)]
        elif isinstance(it, tuple) and it and it[0] == "range":
            lo, hi = z3.simplify(it[1]), z3.simplify(it[2])
            if z3.is_int_value(lo) and z3.is_int_value(hi) and hi.as_long() - lo.as_long() <= 16:
                items = [VInt(k) for k in range(lo.as_long(), hi.as_long())]
        elif isinstance(it, tuple) and it and it[0] == "enumerate" and isinstance(it[1], Tup):
            items = [Tup([VInt(k), x]) for k, x in enumerate(it[1].items)]
        if items is not None:
            return self.unroll(node, items, st)
        return self.loop(node, st, it)

    s_AsyncFor = s_For

    def unroll(self, node, items, st):
        live = [st]
        done = []
        for itv in items:
            nxt = []
            for cur in live:
                self.bind_target(node.target, itv, cur, node)
                for o in self.exec_block(node.body, cur):
                    if o.sig in ("next", "continue"):
                        nxt.append(o.state)
                    elif o.sig == "break":
                        done.append(Outcome("next", o.state))
                    else:
                        done.append(o)
            live = self.join(nxt)
            if not live:
                break
        outs = list(done)
        for cur in live:
            if node.orelse:
                outs.extend(self.exec_block(node.orelse, cur))
            else:
                outs.append(Outcome("next", cur))
        return self.regroup(outs)

    def unordered_iteration(self, st, node, what):
        """contract option ordered_iteration: every iteration whose order can reach the result runs over a sequence with a determined order (a list,
        a tuple, a dict in insertion order, sorted(...)) — never directly over a set, whose order depends on the hash seed"""
        if not self.opts.get("ordered_iteration") or self.depth != 0:
            return
        k_ = sum(1 for o in self.obligations if "::order:" in o.id)
        g_ = self.guard_cond()
        self.obligations.append(Obligation(f"{getattr(self, 'fn_site', self.fn_qual)}::order:{what.split()[0]}#{k_}", "assert", list(st.pc) + ([g_] if g_ is not None else []),
                                           z3.BoolVal(False), {"line": getattr(node, "lineno", 0), "clause": "iteration_order_is_determined", "what": what}))

    def iter_seq(self, it, st, node):
        """The sequence a for-loop walks, as (Seq Any term, element-kind)."""
        if isinstance(it, tuple) and it:
            if it[0] == "range":
                return ("range", it[1], it[2])
            if it[0] == "dictview":
                kind, d = it[1], it[2]
                ks = self.dict_keyseq(d, st)
                return ("dict" + kind, ks, d)
            if it[0] == "enumerate":
                inner = self.iter_seq(it[1], st, node)
                return ("enumerate", inner)
        v = self.as_val(it, st, node)
        if v.tag == "l":
            return ("seq", v.e)
        if v.tag == "d":
            return ("dictkeys", self.dict_keyseq(v, st), v)
        if v.tag == "st":
            self.unordered_iteration(st, node, "for-loop over a set")
            return ("seq", self.set_seq(v, st))
        if v.tag == "s":
            self.oos("iteration over the characters of a string", node)
        if v.tag == "any":
            # unknown iterable: an abstract sequence of unknown elements
            f = z3.Function("py.iter", Any, ListS)
            return ("seq", f(v.e))
        self.oos(f"iteration over {v.tag}", node)

    def seq_len(self, sq):
        k = sq[0]
        if k == "range":
            return z3.If(sq[2] > sq[1], sq[2] - sq[1], z3.IntVal(0))
        if k == "enumerate":
            return self.seq_len(sq[1])
        return z3.Length(sq[1])

    def seq_at(self, sq, i, st):
        k = sq[0]
        if k == "range":
            return VInt(sq[1] + i)
        if k == "seq":
            return from_any(sq[1][i])
        if k == "dictkeys":
            return VStr(acc("s")(sq[1][i]))
        if k == "dictitems":
            key = acc("s")(sq[1][i])
            return Tup([VStr(key), from_any(z3.Select(sq[2].e, key))])
        if k == "dictvalues":
            return from_any(z3.Select(sq[2].e, acc("s")(sq[1][i])))
        if k == "enumerate":
            return Tup([VInt(i), self.seq_at(sq[1], i, st)])
        raise AssertionError(k)

    def loop(self, node, st: State, it):
        """Cut the loop at its invariant:  establish / preserve (arbitrary iteration) / use at exit."""
        ordinal = self.loop_ids.get(id(node), -1)
        invs = self.contract.invariants_.get(ordinal, []) if self.depth == 0 else []
        is_for = it is not None
        sq = self.iter_seq(it, st, node) if is_for else None
        names, roots = self.body_writes(node.body + ([node] if False else []))
        if is_for:
            for y in ast.walk(node.target):
                if isinstance(y, ast.Name):
                    names.add(y.id)
        attrs = self.attr_stores(node.body)
        mods = self.callee_modifies(node.body)
        n = self.seq_len(sq) if is_for else None
        site = f"{getattr(self, 'fn_site', self.fn_qual)}::loop{ordinal}"
        pre = st  # state before the loop (for old.* inside invariants we keep the function entry state)

        def eval_inv(s: State, idx):
            conj = []
            for cl in invs:
                extra = {"i": VInt(idx)} if idx is not None else {}
                bound = dict(s.vars)
                for gname_ in self.ghost_names():
                    bound[gname_] = s.ghost.get(gname_, Val("l", EMPTY_LIST))
                if is_for and sq[0] == "seq":
                    bound.setdefault("__seq", Val("l", sq[1]))
                conj.append((cl, self.eval_clause(cl, bound, s, self.entry_pre, extra)))
            return conj

        # (1) establish
        for cl, g in eval_inv(st, z3.IntVal(0) if is_for else None):
            self.obligations.append(Obligation(f"{site}::inv-init:{cl.name}", "inv-init", list(st.pc), g, {"line": node.lineno}))

        def arbitrary():
            s = st.fork()
            self.havoc_loop(s, names, roots, node, list(attrs) + mods)
            idx = None
            if is_for:
                idx = fresh("iter", IntS)
                s.assume(idx >= 0)
                s.assume(idx <= n)
            if "yielded" in st.ghost or any(isinstance(x, (ast.Yield, ast.YieldFrom)) for b in node.body for x in ast.walk(b)):
                s.ghost["yielded"] = Val("l", fresh("loop_yielded", ListS))
            for cname, (gname, _k) in self.opts.get("ghost_calls", {}).items():
                if any(isinstance(x, ast.Call) and (ast.unparse(x.func) == cname or ast.unparse(x.func).split(".")[-1] == cname)
                       for b in node.body for x in ast.walk(b)):
                    s.ghost[gname] = Val("l", fresh("loop_" + gname, ListS))
            for cl, g in eval_inv(s, idx):
                s.assume(g)
            return s, idx

        outs = []
        # (2) arbitrary iteration
        s, idx = arbitrary()
        if is_for:
            s.assume(idx < n)
            self.bind_target(node.target, self.seq_at(sq, idx, s), s, node)
            body_states = [s]
        else:
            c = self.truth(self.eval(node.test, s), s, node)
            pend, self.pending = self.pending, []
            outs.extend(pend)
            s.assume(c)
            body_states = [s]
        for bs in body_states:
            for o in self.exec_block(node.body, bs):
                if o.sig in ("next", "continue"):
                    for cl, g in eval_inv(o.state, (idx + 1) if is_for else None):
                        self.obligations.append(Obligation(f"{site}::inv-pres:{cl.name}", "inv-pres", list(o.state.pc), g, {"line": node.lineno}))
                elif o.sig == "break":
                    outs.append(Outcome("next", o.state))
                else:
                    outs.append(o)
        # (3) exit
        e, idx2 = arbitrary()
        if is_for:
            e.assume(idx2 == n)
        else:
            c = self.truth(self.eval(node.test, e), e, node)
            e.assume(z3.Not(c))
        if node.orelse:
            outs.extend(self.exec_block(node.orelse, e))
        else:
            outs.append(Outcome("next", e))
        return self.regroup(outs)
