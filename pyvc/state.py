"""Symbolic program state: variables, a meta-level heap (references are concrete, contents symbolic),
a path condition, and a ghost log of external calls."""
from __future__ import annotations

import itertools
import z3

from .sym import Val, ite_val


class OutOfSubset(Exception):
    """The function uses Python outside the verified subset: the obligation is UNDECIDED, never passed."""


class MergeFail(Exception):
    pass


_refc = itertools.count(1)


class Ref:
    __slots__ = ("id",)

    def __init__(self):
        self.id = next(_refc)

    def __repr__(self):
        return f"Ref#{self.id}"


class Cell:
    """kind: 'dict' | 'list' | 'set' (val: Val of tag d/l/st)  or 'obj' (fields: name -> slot)."""

    __slots__ = ("kind", "val", "fields", "cls", "frozen", "lazy", "path")

    def __init__(self, kind, val=None, fields=None, cls=None, lazy=False, path=None):
        self.kind = kind
        self.val = val
        self.fields = fields
        self.cls = cls
        self.frozen = False
        self.lazy = lazy  # obj: unknown fields are created on first read (inputs)
        self.path = path  # access path of an input object, used to name lazily created fields

    def copy(self):
        c = Cell(self.kind, self.val, dict(self.fields) if self.fields is not None else None, self.cls, self.lazy, self.path)
        c.frozen = self.frozen
        return c


class FuncRef:
    def __init__(self, mod, cls, node, qual):
        self.mod, self.cls, self.node, self.qual = mod, cls, node, qual

    def __repr__(self):
        return f"<func {self.qual}>"


class ClassRef:
    def __init__(self, mod, node, qual):
        self.mod, self.node, self.qual = mod, node, qual
        self.name = node.name if node is not None else qual.rsplit(".", 1)[-1].rsplit(":", 1)[-1]

    def __repr__(self):
        return f"<class {self.qual}>"


class ModuleRef:
    def __init__(self, dotted):
        self.dotted = dotted

    def __repr__(self):
        return f"<module {self.dotted}>"


class ExtRef:
    """Something outside /repo (stdlib, third party) or not statically resolvable: calls are opaque."""

    def __init__(self, dotted):
        self.dotted = dotted

    def __repr__(self):
        return f"<ext {self.dotted}>"


class Builtin:
    def __init__(self, name):
        self.name = name

    def __repr__(self):
        return f"<builtin {self.name}>"


class BoundMethod:
    def __init__(self, recv, name, recv_node=None):
        self.recv, self.name, self.recv_node = recv, name, recv_node


class PyConst:
    """A concrete Python object known at verification time (module-level table, literal container)."""

    def __init__(self, obj, origin=""):
        self.obj = obj
        self.origin = origin

    def __repr__(self):
        return f"<const {self.origin}>"


class Tup:
    """meta-level tuple (fixed length)."""

    def __init__(self, items):
        self.items = list(items)


class Lam:
    def __init__(self, node, env_state):
        self.node = node
        self.env = env_state


class Exc:
    """An exception in flight.  cls None = unknown class (raised by an opaque callee)."""

    def __init__(self, cls, fields=None, origin="", ref=None):
        self.cls = cls
        self.fields = fields or {}
        self.origin = origin
        self.ref = ref

    def __repr__(self):
        return f"Exc({self.cls} @{self.origin})"


class CallRec:
    def __init__(self, name, args, kwargs, result, node=None):
        self.name, self.args, self.kwargs, self.result, self.node = name, args, kwargs, result, node


class State:
    def __init__(self):
        self.vars: dict[str, object] = {}
        self.heap: dict[int, Cell] = {}
        self.pc: list = []
        self.log: list[CallRec] = []
        self.ghost: dict[str, object] = {}

    def fork(self):
        s = State()
        s.vars = dict(self.vars)
        s.heap = dict(self.heap)  # cells are copy-on-write
        s.pc = list(self.pc)
        s.log = list(self.log)
        s.ghost = dict(self.ghost)
        return s

    def assume(self, c):
        if z3.is_true(c):
            return
        self.pc.append(c)

    def cell(self, ref: Ref) -> Cell:
        return self.heap[ref.id]

    def wcell(self, ref: Ref) -> Cell:
        c = self.heap[ref.id].copy()
        self.heap[ref.id] = c
        return c

    def new(self, cell: Cell) -> Ref:
        r = Ref()
        self.heap[r.id] = cell
        return r


def lazy_field(cell: Cell, name: str):
    """Initial value of a not-yet-read field of an input object: a constant named by its access path, so
    that every path that reads it gets the same term."""
    from .sym import Any
    return Val("any", z3.Const(f"{cell.path}.{name}", Any))


def _same(a, b):
    if a is b:
        return True
    if isinstance(a, Val) and isinstance(b, Val):
        if a.tag != b.tag:
            return False
        if a.e is None or b.e is None:
            return a.e is b.e
        return a.e.eq(b.e)
    if isinstance(a, Ref) and isinstance(b, Ref):
        return a.id == b.id
    return False


def _snap(slot, st):
    """value snapshot of a slot for merging across branches (containers by value, objects as opaque identities)"""
    from .sym import EMPTY_LIST, const_to_val
    if isinstance(slot, Val):
        return slot
    if isinstance(slot, Ref):
        c = st.heap.get(slot.id)
        if c is None:
            return Val("o", z3.IntVal(1000000 + slot.id))
        if c.kind == "obj":
            idv = c.fields.get("__id")
            return Val("o", idv.e if isinstance(idv, Val) else z3.IntVal(1000000 + slot.id))
        return c.val
    if isinstance(slot, Tup):
        e = EMPTY_LIST
        for it in slot.items:
            e = z3.Concat(e, z3.Unit(_snap(it, st).any()))
        return Val("l", e)
    if isinstance(slot, PyConst):
        try:
            return const_to_val(slot.obj)
        except TypeError:
            pass
    return Val("o", z3.IntVal(abs(hash(repr(slot))) % 10**9))


def _merge_slots(conds, slots, states=None, out=None):
    first = slots[0]
    if all(_same(first, s) for s in slots[1:]):
        return first
    if all(isinstance(s, Val) for s in slots):
        res = slots[-1]
        for c, s in zip(reversed(conds[:-1]), reversed(slots[:-1])):
            res = ite_val(c, s, res)
        return res
    if all(isinstance(s, Tup) for s in slots) and len({len(s.items) for s in slots}) == 1:
        return Tup([_merge_slots(conds, [s.items[k] for s in slots], states, out) for k in range(len(first.items))])
    if states is None:
        raise MergeFail("slots of different meta-kinds")
    if any(isinstance(s, (FuncRef, ClassRef, ModuleRef, ExtRef, Builtin)) for s in slots):
        if all(isinstance(s, (FuncRef, ClassRef, ModuleRef, ExtRef, Builtin)) for s in slots) and len({repr(s) for s in slots}) == 1:
            return first
        # different classes / functions on different paths (e.g. `error_cls = ClientError` vs `ServerError`): keep the paths apart
        raise MergeFail("different callables on different paths")
    # different references / kinds on different paths: merge BY VALUE and freeze the originals (any later mutation
    # through one of them would be invisible to the other alias -> out of subset instead of unsound)
    for s, stt in zip(slots, states):
        if isinstance(s, Ref) and s.id in out.heap:
            c = out.heap[s.id].copy()
            c.frozen = True
            out.heap[s.id] = c
    vals = [_snap(s, stt) for s, stt in zip(slots, states)]
    kinds = {(stt.heap[s.id].kind if isinstance(s, Ref) and s.id in stt.heap else None) for s, stt in zip(slots, states)}
    res = vals[-1]
    for c, v in zip(reversed(conds[:-1]), reversed(vals[:-1])):
        res = ite_val(c, v, res)
    if len(kinds) == 1 and next(iter(kinds)) in ("dict", "list", "set") and res.tag in ("d", "l", "st"):
        r = Ref()
        cell = Cell(next(iter(kinds)), val=res)
        out.heap[r.id] = cell
        return r
    return res


def merge_states(states: list[State], strict_log=False) -> State:
    """Join point: one state whose values are ite-merged.  Raises MergeFail when aliasing / logs differ."""
    if len(states) == 1:
        return states[0]
    n = min(len(s.pc) for s in states)
    k = 0
    while k < n and all(s.pc[k] is states[0].pc[k] or s.pc[k].eq(states[0].pc[k]) for s in states[1:]):
        k += 1
    conds = [z3.And(*s.pc[k:]) if len(s.pc) > k else z3.BoolVal(True) for s in states]
    out = State()
    out.pc = list(states[0].pc[:k]) + [z3.Or(*conds)]
    l0 = states[0].log
    same_log = all(len(s.log) == len(l0) and all(a is b for a, b in zip(s.log, l0)) for s in states[1:])
    if not same_log:
        if strict_log:
            raise MergeFail("external-call logs differ")
        k2 = 0
        while all(len(s.log) > k2 for s in states) and all(s.log[k2] is l0[k2] for s in states[1:]):
            k2 += 1
        out.log = list(l0[:k2])  # the ghost call log is only kept where all paths agree (contracts that read it set track_calls)
    else:
        out.log = list(l0)
    ids0 = set()
    for s in states:
        ids0 |= set(s.heap)
    for rid in ids0:  # provisional heap so that value-merging can freeze cells
        for s in states:
            if rid in s.heap:
                out.heap[rid] = s.heap[rid]
                break
    names = set(states[0].vars)
    for s in states[1:]:
        names &= set(s.vars)
    for nme in names:
        out.vars[nme] = _merge_slots(conds, [s.vars[nme] for s in states], states, out)
    for g in states[0].ghost:
        if all(g in s.ghost for s in states):
            out.ghost[g] = _merge_slots(conds, [s.ghost[g] for s in states], states, out)
    ids = set()
    for s in states:
        ids |= set(s.heap)
    for rid in ids:
        cells = [s.heap.get(rid) for s in states]
        present = [c for c in cells if c is not None]
        frozen_by_merge = rid in out.heap and out.heap[rid].frozen
        if len(present) < len(cells):
            # allocated on some paths only: reachable only through variables that were merged by value
            if not frozen_by_merge:
                out.heap[rid] = present[0]
            continue
        c0 = cells[0]
        if all(c is c0 for c in cells):
            out.heap[rid] = c0
            continue
        if any(c.kind != c0.kind for c in cells):
            raise MergeFail("cell kinds differ")
        m = c0.copy()
        m.frozen = any(c.frozen for c in cells) or frozen_by_merge
        if c0.kind == "obj":
            keys = set()
            for c in cells:
                keys |= set(c.fields)
            for f in keys:
                if not all(f in c.fields for c in cells):
                    if not c0.lazy:
                        raise MergeFail(f"field {f} on one path only")
                m.fields[f] = _merge_slots(conds, [c.fields[f] if f in c.fields else lazy_field(c, f) for c in cells], states, out)
        else:
            m.val = _merge_slots(conds, [c.val for c in cells], states, out)
        out.heap[rid] = m
    return out
