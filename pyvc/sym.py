"""Symbolic value layer of pyvc.

Every Python value is a term of ONE recursive SMT datatype ``Any`` (z3 5.1, cvc5 and z3 4.8 all accept
datatypes nested through Array/Seq — probed).  ``Val`` is a thin meta-level wrapper that remembers the
constructor tag when it is statically known, so that most terms stay in the payload sorts
(Int / Bool / String / Array / Seq) and the formulas stay small.

Encoding assumptions (reported in every evidence file):
  * Python ints are mathematical integers (true in CPython).
  * Python str is an SMT-LIB String (code points <= 0x2FFFF; Python goes to 0x10FFFF).
  * dict[str, T] is ``Array String Any`` with the distinguished value ``absent`` for missing keys, hence
    canonical: two dicts are == iff the arrays are equal; the empty dict is the constant array.
    Insertion order is NOT part of this encoding (functions whose contract depends on it carry an explicit
    key sequence).
  * list / tuple is ``Seq Any``.
  * objects that are not modelled are ``o(id)`` — opaque identities.
"""
from __future__ import annotations

import itertools
import z3

_DECL = """
(declare-datatypes ((Any 0)) (((absent) (none) (b (bv Bool)) (i (iv Int)) (s (sv String)) (o (ov Int))
  (d (dv (Array String Any))) (l (lv (Seq Any))) (st (stv (Array String Bool))) (sti (stiv (Array Int Bool))))))
(declare-const __x Any)
(assert (= __x __x))
"""
ANY_DECL_SMT2 = _DECL.split("(declare-const")[0].strip()


def _mk_any():
    f = z3.parse_smt2_string(_DECL)
    return f[0].arg(0).sort()


Any = _mk_any()
_CTORS = {Any.constructor(k).name(): k for k in range(Any.num_constructors())}


def ctor(name):
    return Any.constructor(_CTORS[name])


def recog(name):
    return Any.recognizer(_CTORS[name])


def acc(name):
    return Any.accessor(_CTORS[name], 0)


ABSENT = ctor("absent")()
NONE = ctor("none")()
StrS = z3.StringSort()
IntS = z3.IntSort()
BoolS = z3.BoolSort()
DictS = z3.ArraySort(StrS, Any)
ListS = z3.SeqSort(Any)
SetS = z3.ArraySort(StrS, BoolS)
ISetS = z3.ArraySort(IntS, BoolS)
EMPTY_ISET = z3.K(IntS, z3.BoolVal(False))
EMPTY_DICT = z3.K(StrS, ABSENT)
EMPTY_SET = z3.K(StrS, z3.BoolVal(False))
EMPTY_LIST = z3.Empty(ListS)

_x, _y = z3.Consts("x!ovr y!ovr", Any)
OVR = z3.RecFunction("py.ovr", Any, Any, Any)  # entry-wise override used by dict merge (Map combinator)
z3.RecAddDefinition(OVR, [_x, _y], z3.If(_y == ABSENT, _x, _y))


def dict_merge_term(x, y):
    """x ⊕ y : entries of y win.  Encoded with the array map combinator (models are found, unlike lambdas)."""
    return z3.Map(OVR, x, y)


PAYLOAD_SORT = {"b": BoolS, "i": IntS, "s": StrS, "o": IntS, "d": DictS, "l": ListS, "st": SetS, "sti": ISetS}

_counter = itertools.count()


def fresh(prefix, sort):
    return z3.Const(f"{prefix}!{next(_counter)}", sort)


def reset_counter():
    global _counter
    _counter = itertools.count()


class Val:
    """tag in {'none','b','i','s','o','d','l','st','any'}; e is the payload term ('any': an Any term)."""

    __slots__ = ("tag", "e", "meta")

    def __init__(self, tag, e=None, meta=None):
        self.tag = tag
        self.e = e
        self.meta = meta  # free-form: e.g. class name of an opaque object, concrete python constant

    def __repr__(self):
        return f"Val({self.tag},{self.e})"

    # -- conversions -------------------------------------------------------------------------------
    def any(self):
        t = self.tag
        if t == "any":
            return self.e
        if t == "none":
            return NONE
        return ctor(t)(self.e)

    def is_tag(self, t):
        """Bool term: this value has constructor t."""
        if self.tag == "any":
            return recog(t)(self.e)
        return z3.BoolVal(self.tag == t)

    def payload(self, t):
        """payload term assuming constructor t (garbage if it is not — guard with is_tag)."""
        if self.tag == t:
            return self.e
        if self.tag == "any":
            return acc(t)(self.e)
        # statically a different constructor: unconstrained garbage of the right sort
        return fresh("garbage", PAYLOAD_SORT[t])

    def known(self):
        return self.tag != "any"


def from_any(e):
    """Wrap an Any term, recovering the tag if the term is a constructor application."""
    e = z3.simplify(e) if False else e
    if z3.is_app(e) and e.num_args() <= 1:
        n = e.decl().name()
        if n in _CTORS and e.decl().range() == Any and e.decl().kind() == z3.Z3_OP_DT_CONSTRUCTOR:
            if n == "none":
                return Val("none")
            if n == "absent":
                return Val("any", e)
            return Val(n, e.arg(0))
    return Val("any", e)


def VInt(x):
    return Val("i", z3.IntVal(x) if isinstance(x, int) else x)


def VBool(x):
    return Val("b", z3.BoolVal(x) if isinstance(x, bool) else x)


def VStr(x):
    return Val("s", z3.StringVal(x) if isinstance(x, str) else x)


VNone = Val("none")


def const_to_val(c):
    """Python constant -> Val (recursively for containers)."""
    if c is None:
        return VNone
    if isinstance(c, bool):
        return VBool(c)
    if isinstance(c, int):
        return VInt(c)
    if isinstance(c, str):
        return VStr(c)
    if isinstance(c, (list, tuple)):
        e = EMPTY_LIST
        for x in c:
            e = z3.Concat(e, z3.Unit(const_to_val(x).any()))
        return Val("l", e)
    if isinstance(c, dict):
        e = EMPTY_DICT
        for k, v in c.items():
            if not isinstance(k, str):
                raise TypeError("only str-keyed dict constants")
            e = z3.Store(e, z3.StringVal(k), const_to_val(v).any())
        return Val("d", e)
    if isinstance(c, (set, frozenset)):
        e = EMPTY_SET
        for k in c:
            e = z3.Store(e, z3.StringVal(k), z3.BoolVal(True))
        return Val("st", e)
    raise TypeError(f"unsupported constant {c!r}")


def ite_val(c, a: Val, b: Val) -> Val:
    if a is b:
        return a
    if a.tag == b.tag and a.tag != "none":
        if a.e is not None and b.e is not None and a.e.eq(b.e):
            return a
        return Val(a.tag, z3.If(c, a.e, b.e), a.meta if a.meta == b.meta else None)
    if a.tag == "none" and b.tag == "none":
        return a
    return Val("any", z3.If(c, a.any(), b.any()))


def truthy(v: Val):
    t = v.tag
    if t == "b":
        return v.e
    if t == "none":
        return z3.BoolVal(False)
    if t == "i":
        return v.e != 0
    if t == "s":
        return z3.Length(v.e) > 0
    if t == "d":
        return v.e != EMPTY_DICT
    if t == "l":
        return z3.Length(v.e) > 0
    if t == "st":
        return v.e != EMPTY_SET
    if t == "sti":
        return v.e != EMPTY_ISET
    if t == "o":
        return z3.BoolVal(True)
    a = v.e
    return z3.And(
        z3.Not(recog("none")(a)),
        z3.Not(recog("absent")(a)),
        z3.Implies(recog("b")(a), acc("b")(a)),
        z3.Implies(recog("i")(a), acc("i")(a) != 0),
        z3.Implies(recog("s")(a), z3.Length(acc("s")(a)) > 0),
        z3.Implies(recog("d")(a), acc("d")(a) != EMPTY_DICT),
        z3.Implies(recog("l")(a), z3.Length(acc("l")(a)) > 0),
        z3.Implies(recog("st")(a), acc("st")(a) != EMPTY_SET),
        z3.Implies(recog("sti")(a), acc("sti")(a) != EMPTY_ISET),
    )


def py_eq(a: Val, b: Val):
    """Python == on the modelled fragment (bool/int cross-equality ignored: True == 1 is not modelled)."""
    if a.tag == b.tag and a.tag != "any":
        if a.tag == "none":
            return z3.BoolVal(True)
        return a.e == b.e
    if a.tag != "any" and b.tag != "any":
        return z3.BoolVal(False)
    return a.any() == b.any()


# ---------------------------------------------------------------------------------------------------
# model decoding (Any term from a z3 model -> Python value)


class Opaque:
    def __init__(self, ident):
        self.ident = ident

    def __repr__(self):
        return f"<opaque {self.ident}>"

    def __eq__(self, other):
        return isinstance(other, Opaque) and other.ident == self.ident

    def __hash__(self):
        return hash(("opaque", self.ident))


class Absent:
    def __repr__(self):
        return "<absent>"


def _array_to_dict(model, arr, conv):
    """Decode a finite-support array value (store chains / as-array / K) to (default, {k: v})."""
    arr = model.eval(arr, model_completion=True)
    entries = {}
    cur = arr
    seen = 0
    while True:
        seen += 1
        if seen > 10000:
            raise ValueError("array too deep")
        if z3.is_store(cur):
            k = cur.arg(1)
            v = cur.arg(2)
            ks = k.as_string() if z3.is_string_value(k) else str(k)
            if ks not in entries:
                entries[ks] = conv(v)
            cur = cur.arg(0)
        elif z3.is_const_array(cur):
            return conv(cur.arg(0)), entries
        elif z3.is_as_array(cur):
            fi = model[z3.get_as_array_func(cur)]
            for j in range(fi.num_entries()):
                en = fi.entry(j)
                k = en.arg_value(0)
                ks = k.as_string() if z3.is_string_value(k) else str(k)
                if ks not in entries:
                    entries[ks] = conv(en.value())
            return conv(fi.else_value()), entries
        elif z3.is_lambda(cur) or z3.is_quantifier(cur):
            raise ValueError("lambda array in model")
        else:
            raise ValueError(f"cannot decode array {cur.sexpr()[:200]}")


def decode_any(model, e):
    e = model.eval(e, model_completion=True)
    if e.sort() == IntS:
        return e.as_long()
    if e.sort() == BoolS:
        return z3.is_true(e)
    if e.sort() == StrS:
        return e.as_string() if z3.is_string_value(e) else _decode_str(e)
    if e.sort() == DictS:
        default, ent = _array_to_dict(model, e, lambda v: decode_any(model, v))
        out = {k: v for k, v in ent.items() if not isinstance(v, Absent)}
        if not isinstance(default, Absent):
            out["__default__"] = default
        return out
    if e.sort() == SetS:
        default, ent = _array_to_dict(model, e, lambda v: z3.is_true(v))
        return {k for k, v in ent.items() if v}
    if e.sort() == ListS:
        return _decode_seq(model, e)
    n = e.decl().name()
    if n == "absent":
        return Absent()
    if n == "none":
        return None
    if n == "o":
        return Opaque(e.arg(0).as_long())
    return decode_any(model, e.arg(0))


def _decode_str(e):
    s = e.sexpr()
    return s.strip('"')


def _decode_seq(model, e):
    e = z3.simplify(e)
    out = []

    def walk(t):
        if z3.is_app(t) and t.decl().kind() == z3.Z3_OP_SEQ_CONCAT:
            for c in t.children():
                walk(c)
        elif z3.is_app(t) and t.decl().kind() == z3.Z3_OP_SEQ_UNIT:
            out.append(decode_any(model, t.arg(0)))
        elif z3.is_app(t) and t.decl().kind() == z3.Z3_OP_SEQ_EMPTY:
            pass
        else:
            raise ValueError(f"cannot decode seq {t.sexpr()[:200]}")

    walk(e)
    return out
