"""pyvc symbolic executor: forward symbolic execution of the real ``ast`` of a function with state merging
at joins (ite) — or per-path splitting where merging fails or is switched off — producing, per exit,
proof obligations against a sidecar contract.  Calls to functions that have a contract are handled
modularly (assert pre / havoc modifies / assume post); everything else is opaque."""
from __future__ import annotations

import ast
import z3

from . import source
from .contracts import Contract, Clause, lookup, lookup_by_method
from .state import (BoundMethod, Builtin, CallRec, Cell, ClassRef, Exc, ExtRef, FuncRef, Lam, MergeFail, ModuleRef,
                    OutOfSubset, PyConst, Ref, State, Tup, lazy_field, merge_states)
from .sym import (ABSENT, Any, BoolS, DictS, EMPTY_DICT, EMPTY_LIST, EMPTY_SET, IntS, ListS, NONE, SetS, StrS, Val, VBool,
                  VInt, VNone, VStr, acc, const_to_val, ctor, fresh, from_any, ite_val, py_eq, recog, truthy)

NOOP_ROOTS = {"logger", "logging", "warnings", "print", "log"}
MUTATORS = {"append", "extend", "update", "add", "pop", "remove", "clear", "setdefault", "insert", "discard", "sort",
            "popitem", "reverse"}

BUILTIN_EXC = {
    "BaseException": [], "Exception": ["BaseException"], "ValueError": ["Exception"], "TypeError": ["Exception"],
    "KeyError": ["LookupError"], "IndexError": ["LookupError"], "LookupError": ["Exception"],
    "AttributeError": ["Exception"], "RuntimeError": ["Exception"], "RecursionError": ["RuntimeError"],
    "NotImplementedError": ["RuntimeError"], "StopIteration": ["Exception"], "AssertionError": ["Exception"],
    "OSError": ["Exception"], "FileNotFoundError": ["OSError"], "UnicodeDecodeError": ["ValueError"],
    "JSONDecodeError": ["ValueError"], "ZeroDivisionError": ["ArithmeticError"], "ArithmeticError": ["Exception"],
    "ImportError": ["Exception"], "StopAsyncIteration": ["Exception"], "PermissionError": ["OSError"],
}
BUILTIN_NAMES = {"len", "str", "int", "bool", "dict", "list", "set", "tuple", "sorted", "max", "min", "any", "all", "range",
                 "enumerate", "isinstance", "hasattr", "getattr", "repr", "abs", "zip", "frozenset", "id", "type",
                 "callable", "iter", "next", "reversed", "sum", "super", "object", "float", "bytes", "open", "print",
                 "issubclass", "setattr", "cast", "map", "filter"}


class Outcome:
    __slots__ = ("sig", "state", "payload", "node")

    def __init__(self, sig, state, payload=None, node=None):
        self.sig, self.state, self.payload, self.node = sig, state, payload, node


class Obligation:
    def __init__(self, oid, kind, pc, goal, info=None, aux=False, expect="unsat"):
        self.id = oid
        self.kind = kind
        self.pc = pc
        self.goal = goal
        self.info = info or {}
        self.aux = aux
        self.expect = expect  # 'unsat' for proofs (pc ∧ ¬goal), 'sat' for covers (pc)

    def formula(self):
        if self.expect == "sat":
            return z3.And(*self.pc) if self.pc else z3.BoolVal(True)
        return z3.And(*(list(self.pc) + [z3.Not(self.goal)]))


class ExecBase:
    def __init__(self, contract: Contract, specs=None):
        self.contract = contract
        self.opts = contract.opts
        self.obligations: list[Obligation] = []
        self.pending: list[Outcome] = []
        self.guards: list = []
        self.assumptions: set[str] = set()
        self.opaque_callees: set[str] = set()
        self.specs = specs or {}
        self.class_stack: list = []
        self.mod = None
        self.cls = None
        self.depth = 0
        self.loop_ordinal = 0
        self.entry: State | None = None
        self.old_state: State | None = None
        self.fn_qual = contract.qual
        self.enum_cache = {}
        self.n_forks = 0
        self.abstracted = []
        self.axioms = []
        self._axiom_ids = set()
        self.max_states = int(self.opts.get("max_states", 4000))

    # ------------------------------------------------------------------------------------------
    # helpers
    def oos(self, msg, node=None):
        ln = getattr(node, "lineno", "?")
        raise OutOfSubset(f"{self.fn_qual}: {msg} (line {ln})")

    def axiom(self, fact):
        """a fact about a total uninterpreted function (stdlib model, key sequences, ...): true on every path, so it is kept out of the
        path conditions (where it would end up inside merge conditions) and added to every obligation of the function"""
        key = fact.get_id()
        if key not in self._axiom_ids:
            self._axiom_ids.add(key)
            self.axioms.append(fact)

    def guard_cond(self):
        return z3.And(*self.guards) if self.guards else None

    def assume(self, st: State, c):
        g = self.guard_cond()
        st.assume(z3.Implies(g, c) if g is not None else c)

    def may_raise(self, st: State, cond, exc: Exc, node=None):
        if isinstance(cond, bool):
            cond = z3.BoolVal(cond)
        g = self.guard_cond()
        full = z3.And(g, cond) if g is not None else cond
        full = z3.simplify(full)
        if z3.is_false(full):
            return
        rs = st.fork()
        rs.assume(full)
        self.pending.append(Outcome("raise", rs, exc, node))
        st.assume(z3.Not(full))

    def as_val(self, slot, st: State, node=None) -> Val:
        """Coerce any slot to a Val (snapshot semantics for containers)."""
        if isinstance(slot, Val):
            return slot
        if isinstance(slot, Ref):
            c = st.cell(slot)
            if c.kind == "obj":
                if "__id" not in c.fields:
                    cw = st.wcell(slot)
                    cw.fields["__id"] = VInt(z3.IntVal(1000000 + slot.id))
                    c = cw
                return Val("o", c.fields["__id"].e, meta=c.cls)
            return c.val
        if isinstance(slot, Tup):
            e = EMPTY_LIST
            for it in slot.items:
                e = z3.Concat(e, z3.Unit(self.as_val(it, st, node).any()))
            return Val("l", e)
        if isinstance(slot, PyConst):
            try:
                return const_to_val(slot.obj)
            except TypeError:
                return Val("o", z3.IntVal(abs(hash(slot.origin)) % 10**9), meta="const")
        if isinstance(slot, Exc):
            return Val("o", z3.IntVal(abs(hash(id(slot))) % 10**9), meta="exception")
        if isinstance(slot, (FuncRef, ClassRef, ModuleRef, ExtRef, Builtin, BoundMethod, Lam)):
            return Val("o", z3.IntVal(abs(hash(repr(slot))) % 10**9), meta="callable")
        self.oos(f"cannot coerce {slot!r} to a value", node)

    def store_escape(self, slot, st: State):
        """A reference is stored inside a container by value: later mutation through it is out of subset."""
        if isinstance(slot, Ref):
            c = st.cell(slot)
            if c.kind != "obj" and not c.frozen:
                st.wcell(slot).frozen = True

    def truth(self, slot, st, node=None):
        if isinstance(slot, Val):
            return truthy(slot)
        if isinstance(slot, Ref):
            c = st.cell(slot)
            if c.kind == "obj":
                return z3.BoolVal(True)
            return truthy(c.val)
        if isinstance(slot, Tup):
            return z3.BoolVal(len(slot.items) > 0)
        if isinstance(slot, PyConst):
            return z3.BoolVal(bool(slot.obj))
        return z3.BoolVal(True)

    def new_container(self, st, kind, val):
        return st.new(Cell(kind, val=val))

    # ------------------------------------------------------------------------------------------
    # name resolution
    def resolve_global(self, name, node=None):
        mod = self.mod
        if name in mod.functions:
            return FuncRef(mod, None, mod.functions[name], f"{mod.name}:{name}")
        if name in mod.classes:
            return ClassRef(mod, mod.classes[name], f"{mod.name}:{name}")
        if name in mod.assigns:
            expr = mod.assigns[name]
            try:
                return PyConst(ast.literal_eval(expr), f"{mod.name}:{name}")
            except Exception:
                if name in NOOP_ROOTS:
                    return ExtRef("logging.logger")
                if isinstance(expr, ast.Call) and isinstance(expr.func, ast.Attribute) and expr.func.attr == "getLogger":
                    return ExtRef("logging.logger")
                return ExtRef(f"{mod.name}:{name}")
        if name in mod.imports:
            return self.resolve_import(mod.imports[name])
        if name in BUILTIN_EXC:
            return ClassRef(None, None, f"builtins:{name}")
        if name in BUILTIN_NAMES:
            return Builtin(name)
        if name in self.specs:
            return Builtin("spec:" + name)
        return None

    def resolve_import(self, imp):
        if imp[0] == "mod":
            m = source.load_module(imp[1])
            return ModuleRef(imp[1]) if m else ExtRef(imp[1])
        _, base, nm = imp
        m = source.load_module(base)
        if m is None:
            return ExtRef(f"{base}.{nm}")
        if nm in m.functions:
            return FuncRef(m, None, m.functions[nm], f"{base}:{nm}")
        if nm in m.classes:
            return ClassRef(m, m.classes[nm], f"{base}:{nm}")
        if nm in m.assigns:
            try:
                return PyConst(ast.literal_eval(m.assigns[nm]), f"{base}:{nm}")
            except Exception:
                return ExtRef(f"{base}:{nm}")
        if nm in m.imports:  # re-export
            saved = self.mod
            try:
                return self.resolve_import(m.imports[nm])
            finally:
                self.mod = saved
        sub = source.load_module(f"{base}.{nm}")
        if sub is not None:
            return ModuleRef(f"{base}.{nm}")
        for sm in m.star:  # from .x import *
            r = self.resolve_import(("attr", sm, nm))
            if not isinstance(r, ExtRef):
                return r
        return ExtRef(f"{base}.{nm}")

    def class_chain(self, cref: ClassRef):
        """Names of the class and all its (resolvable) bases."""
        out = []
        seen = set()
        work = [cref]
        while work:
            c = work.pop()
            if c.qual in seen:
                continue
            seen.add(c.qual)
            out.append(c.name)
            if c.node is None:
                stack = list(BUILTIN_EXC.get(c.name, []))
                while stack:
                    b = stack.pop()
                    if b not in out:
                        out.append(b)
                        stack.extend(BUILTIN_EXC.get(b, []))
                continue
            for b in source.class_bases(c.node):
                saved = self.mod
                self.mod = c.mod
                try:
                    r = self.resolve_global(b)
                finally:
                    self.mod = saved
                if isinstance(r, ClassRef):
                    work.append(r)
                else:
                    out.append(b)
        return out

    def find_method(self, cref: ClassRef, name):
        seen = set()
        work = [cref]
        while work:
            c = work.pop(0)
            if c.qual in seen or c.node is None:
                continue
            seen.add(c.qual)
            for n in c.node.body:
                if isinstance(n, (ast.FunctionDef, ast.AsyncFunctionDef)) and n.name == name:
                    return FuncRef(c.mod, c.node, n, f"{c.mod.name}:{c.node.name}.{name}")
            for b in source.class_bases(c.node):
                saved = self.mod
                self.mod = c.mod
                try:
                    r = self.resolve_global(b)
                finally:
                    self.mod = saved
                if isinstance(r, ClassRef):
                    work.append(r)
        return None

    # ------------------------------------------------------------------------------------------
    # expressions
    def eval(self, node, st: State):
        m = getattr(self, "e_" + type(node).__name__, None)
        if m is None:
            self.oos(f"expression {type(node).__name__} not supported", node)
        if not self.opts.get("abstract_unsupported") or self.depth > 0:
            return m(node, st)
        try:
            return m(node, st)
        except OutOfSubset as e:
            return self.abstract_node(node, st, e)

    def abstract_node(self, node, st, err):
        """Tracked-state slicing (DESIGN App. B): an expression outside the subset is replaced by an unknown value that
        may raise — allowed only if its source text mentions none of the tracked names (syntactic frame check)."""
        text = ast.unparse(node)
        for t in self.opts.get("tracked_names", ()):
            if t in text:
                raise err
        self.abstracted.append((getattr(node, "lineno", 0), text[:80], str(err)[-80:]))
        flag = fresh("abstracted_raises", BoolS)
        self.may_raise(st, flag, Exc(None, origin="abstracted expression"), node)
        res = Val("any", fresh("abstracted", Any))
        ind = self.opts.get("independent_of")
        if ind is not None:
            # non-interference: an abstracted expression that reads a source-dependent variable (or calls a local closure, which may) is
            # itself source-dependent
            srcs = [(n_, v_.e) for n_ in ind["sources"] for v_ in [self.entry_pre.vars.get(n_)] if isinstance(v_, Val)]
            subst = [(e_, z3.Const(f"{n_}!other", e_.sort())) for n_, e_ in srcs]
            tainted = self.__dict__.setdefault("tainted_refs", set())
            dep = False
            for n_ in ast.walk(node):
                if isinstance(n_, ast.Name) and n_.id in st.vars:
                    v_ = st.vars[n_.id]
                    if isinstance(v_, FuncRef) and ".<locals>." in v_.qual:
                        dep = True
                    elif isinstance(v_, Ref) and v_.id in tainted:
                        dep = True
                    elif isinstance(v_, Val) and not z3.is_true(z3.simplify(v_.e == z3.substitute(v_.e, *subst))):
                        dep = True
            if dep and srcs:
                es = [e_ for _n, e_ in srcs]
                res = Val("any", z3.Function("dep.abstracted", Any, *[e_.sort() for e_ in es], Any)(res.e, *es))
        return res

    def evalv(self, node, st) -> Val:
        return self.as_val(self.eval(node, st), st, node)

    def e_Constant(self, node, st):
        v = node.value
        if v is Ellipsis:
            return Val("o", z3.IntVal(7), meta="Ellipsis")
        if isinstance(v, float):
            return Val("o", z3.IntVal(abs(hash(v)) % 10**9), meta="float")
        if isinstance(v, bytes):
            return Val("o", z3.IntVal(abs(hash(v)) % 10**9), meta="bytes")
        return const_to_val(v)

    def e_Name(self, node, st):
        n = node.id
        if n in st.vars:
            return st.vars[n]
        if n == "old" and self.old_state is not None:
            return ("old",)
        if n in ("True", "False", "None"):
            return const_to_val({"True": True, "False": False, "None": None}[n])
        if self.opts.get("abstract_unsupported") and self.depth == 0 and n in getattr(self, "local_names", ()):
            # a local that is bound on some merged paths only: unknown value (slicing mode)
            return Val("any", fresh("maybe_unbound_" + n, Any))
        r = self.resolve_global(n, node)
        if r is None:
            self.oos(f"unbound name {n}", node)
        return r

    def e_Await(self, node, st):
        return self.eval(node.value, st)

    def e_NamedExpr(self, node, st):
        v = self.eval(node.value, st)
        st.vars[node.target.id] = v
        return v

    def e_JoinedStr(self, node, st):
        e = z3.StringVal("")
        for part in node.values:
            if isinstance(part, ast.Constant):
                e = z3.Concat(e, z3.StringVal(part.value))
            else:
                v = self.evalv(part.value, st)
                if part.conversion == 114:  # !r
                    e = z3.Concat(e, self.to_repr(v, st))
                else:
                    e = z3.Concat(e, self.to_str(v, st, part))
        return Val("s", z3.simplify(e))

    def to_str(self, v: Val, st, node=None):
        if v.tag == "s":
            return v.e
        if v.tag == "i":
            return z3.If(v.e >= 0, z3.IntToStr(v.e), z3.Concat(z3.StringVal("-"), z3.IntToStr(-v.e)))
        if v.tag == "none":
            return z3.StringVal("None")
        if v.tag == "b":
            return z3.If(v.e, z3.StringVal("True"), z3.StringVal("False"))
        f = z3.Function("py_str", Any, StrS)
        a = v.any()
        return z3.If(recog("s")(a), acc("s")(a),
                     z3.If(z3.And(recog("i")(a), acc("i")(a) >= 0), z3.IntToStr(acc("i")(a)), f(a)))

    def to_repr(self, v: Val, st):
        f = z3.Function("py_repr", Any, StrS)
        return f(v.any())

    def e_BoolOp(self, node, st):
        is_and = isinstance(node.op, ast.And)
        cur = self.eval(node.values[0], st)
        pushed = 0
        try:
            for nxt in node.values[1:]:
                t = self.truth(cur, st, node)
                g = t if is_and else z3.Not(t)
                gs = z3.simplify(g)
                if z3.is_false(gs):
                    break
                self.guards.append(g)
                pushed += 1
                nv = self.eval(nxt, st)
                if z3.is_true(gs):
                    cur = nv
                else:
                    cur = self.ite_slot(g, nv, cur, st, node)
        finally:
            for _ in range(pushed):
                self.guards.pop()
        return cur

    def ite_slot(self, c, a, b, st, node=None):
        if a is b:
            return a
        if isinstance(a, Ref) and isinstance(b, Ref) and a.id == b.id:
            return a
        if isinstance(a, Val) and isinstance(b, Val):
            return ite_val(c, a, b)
        cs = z3.simplify(c)
        if z3.is_true(cs):
            return a
        if z3.is_false(cs):
            return b
        if isinstance(a, Ref) and isinstance(b, Ref):
            ca, cb = st.cell(a), st.cell(b)
            if ca.kind == cb.kind and ca.kind != "obj":
                st.wcell(a).frozen = True
                st.wcell(b).frozen = True
                return st.new(Cell(ca.kind, val=ite_val(c, ca.val, cb.val)))
        return ite_val(c, self.as_val(a, st, node), self.as_val(b, st, node))

    def e_IfExp(self, node, st):
        t = self.truth(self.eval(node.test, st), st, node)
        ts = z3.simplify(t)
        if z3.is_true(ts):
            return self.eval(node.body, st)
        if z3.is_false(ts):
            return self.eval(node.orelse, st)
        self.guards.append(t)
        try:
            a = self.eval(node.body, st)
        finally:
            self.guards.pop()
        self.guards.append(z3.Not(t))
        try:
            b = self.eval(node.orelse, st)
        finally:
            self.guards.pop()
        return self.ite_slot(t, a, b, st, node)

    def e_UnaryOp(self, node, st):
        v = self.eval(node.operand, st)
        if isinstance(node.op, ast.Not):
            return VBool(z3.Not(self.truth(v, st, node)))
        v = self.as_val(v, st, node)
        if isinstance(node.op, ast.USub):
            return VInt(-self.need_int(v, st, node))
        if isinstance(node.op, ast.UAdd):
            return VInt(self.need_int(v, st, node))
        self.oos("unary op", node)

    def need_int(self, v: Val, st, node, what="int"):
        if v.tag == "i":
            return v.e
        if v.tag == "b":
            return z3.If(v.e, z3.IntVal(1), z3.IntVal(0))
        if v.tag == "any":
            self.may_raise(st, z3.Not(z3.Or(recog("i")(v.e), recog("b")(v.e))), Exc("TypeError", origin=f"not an {what}"), node)
            return z3.If(recog("b")(v.e), z3.If(acc("b")(v.e), z3.IntVal(1), z3.IntVal(0)), acc("i")(v.e))
        self.may_raise(st, True, Exc("TypeError", origin=f"{v.tag} used as {what}"), node)
        return fresh("garbage", IntS)

    def need(self, v: Val, tag, st, node):
        if v.tag == tag:
            return v.e
        if v.tag == "any":
            self.may_raise(st, z3.Not(recog(tag)(v.e)), Exc("TypeError", origin=f"expected {tag}"), node)
            return acc(tag)(v.e)
        self.may_raise(st, True, Exc("TypeError", origin=f"{v.tag} used as {tag}"), node)
        return fresh("garbage", {"s": StrS, "d": DictS, "l": ListS, "st": SetS, "b": BoolS, "i": IntS, "o": IntS}[tag])

    def e_BinOp(self, node, st):
        a = self.eval(node.left, st)
        b = self.eval(node.right, st)
        op = node.op
        if isinstance(a, Tup) and isinstance(b, Tup) and isinstance(op, ast.Add):
            return Tup(a.items + b.items)
        a = self.as_val(a, st, node)
        b = self.as_val(b, st, node)
        if isinstance(op, ast.Add):
            if a.tag == "s" or b.tag == "s":
                return VStr(z3.Concat(self.need(a, "s", st, node), self.need(b, "s", st, node)))
            if a.tag == "l" or b.tag == "l":
                return self.mk_list(st, Val("l", z3.Concat(self.need(a, "l", st, node), self.need(b, "l", st, node))))
            if a.tag in ("i", "b") or b.tag in ("i", "b"):
                return VInt(self.need_int(a, st, node) + self.need_int(b, st, node))
            # both unknown: dispatch on the tag
            ae, be = a.any(), b.any()
            both_i = z3.And(recog("i")(ae), recog("i")(be))
            both_s = z3.And(recog("s")(ae), recog("s")(be))
            both_l = z3.And(recog("l")(ae), recog("l")(be))
            self.may_raise(st, z3.Not(z3.Or(both_i, both_s, both_l)), Exc("TypeError", origin="+"), node)
            return Val("any", z3.If(both_i, ctor("i")(acc("i")(ae) + acc("i")(be)),
                                    z3.If(both_s, ctor("s")(z3.Concat(acc("s")(ae), acc("s")(be))),
                                          ctor("l")(z3.Concat(acc("l")(ae), acc("l")(be))))))
        if isinstance(op, ast.Div) and self.opts.get("opaque_truediv") and a.tag == "any":
            # `/` on an opaque object (pathlib joining): an uninterpreted, deterministic function of both operands; may raise
            self.may_raise(st, z3.Function("raises.truediv", Any, Any, BoolS)(a.any(), b.any()), Exc("TypeError", origin="/"), node)
            return Val("any", z3.Function("op.truediv", Any, Any, Any)(a.any(), b.any()))
        if isinstance(op, ast.Sub):
            if a.tag == "st" or b.tag == "st":
                x, y = self.need(a, "st", st, node), self.need(b, "st", st, node)
                return Val("st", z3.SetDifference(x, y))
            return VInt(self.need_int(a, st, node) - self.need_int(b, st, node))
        if isinstance(op, ast.Mult):
            if a.tag == "s" or b.tag == "s":
                self.oos("string repetition", node)
            return VInt(self.need_int(a, st, node) * self.need_int(b, st, node))
        if isinstance(op, (ast.FloorDiv, ast.Mod)):
            x, y = self.need_int(a, st, node), self.need_int(b, st, node)
            if isinstance(op, ast.Mod) and a.tag == "s":
                self.oos("%-formatting", node)
            self.may_raise(st, y == 0, Exc("ZeroDivisionError"), node)
            # Python floor semantics from SMT-LIB div (floor for positive divisors)
            q = z3.If(y > 0, x / y, (-x) / (-y))
            if isinstance(op, ast.FloorDiv):
                return VInt(q)
            return VInt(x - y * q)
        if isinstance(op, ast.BitOr):
            if a.tag == "st" or b.tag == "st":
                x, y = self.need(a, "st", st, node), self.need(b, "st", st, node)
                return Val("st", z3.SetUnion(x, y))
            if a.tag == "d" or b.tag == "d":
                return Val("d", self.dict_merge(self.need(a, "d", st, node), self.need(b, "d", st, node)))
        if isinstance(op, ast.BitAnd) and (a.tag == "st" or b.tag == "st"):
            x, y = self.need(a, "st", st, node), self.need(b, "st", st, node)
            return Val("st", z3.SetIntersect(x, y))
        self.oos(f"binary op {type(op).__name__} on {a.tag},{b.tag}", node)

    @staticmethod
    def dict_merge(x, y):
        from .sym import dict_merge_term
        return dict_merge_term(x, y)

    def mk_list(self, st, v: Val):
        return st.new(Cell("list", val=v))

    def e_Compare(self, node, st):
        left = self.eval(node.left, st)
        res = None
        for op, rn in zip(node.ops, node.comparators):
            right = self.eval(rn, st)
            c = self.compare(op, left, right, st, node)
            res = c if res is None else z3.And(res, c)
            left = right
        return VBool(z3.simplify(res))

    def compare(self, op, a, b, st, node):
        if isinstance(op, (ast.Is, ast.IsNot, ast.Eq, ast.NotEq)):
            neg = isinstance(op, (ast.IsNot, ast.NotEq))
            c = self.eq_slots(a, b, st, node, identity=isinstance(op, (ast.Is, ast.IsNot)))
            return z3.Not(c) if neg else c
        if isinstance(op, (ast.In, ast.NotIn)):
            c = self.contains(b, a, st, node)
            return z3.Not(c) if isinstance(op, ast.NotIn) else c
        a = self.as_val(a, st, node)
        b = self.as_val(b, st, node)
        if a.tag == "s" or b.tag == "s":
            x, y = self.need(a, "s", st, node), self.need(b, "s", st, node)
            if isinstance(op, ast.Lt):
                return x < y
            if isinstance(op, ast.LtE):
                return x <= y
            if isinstance(op, ast.Gt):
                return y < x
            return y <= x
        x, y = self.need_int(a, st, node), self.need_int(b, st, node)
        if isinstance(op, ast.Lt):
            return x < y
        if isinstance(op, ast.LtE):
            return x <= y
        if isinstance(op, ast.Gt):
            return x > y
        if isinstance(op, ast.GtE):
            return x >= y
        self.oos("comparison", node)

    def eq_slots(self, a, b, st, node, identity=False):
        if isinstance(a, Ref) and isinstance(b, Ref):
            if a.id == b.id:
                return z3.BoolVal(True)
            ca, cb = st.cell(a), st.cell(b)
            if identity or ca.kind == "obj" or cb.kind == "obj":
                return z3.BoolVal(False)
        if isinstance(a, (ClassRef, FuncRef)) or isinstance(b, (ClassRef, FuncRef)):
            return z3.BoolVal(isinstance(a, type(b)) and getattr(a, "qual", 0) == getattr(b, "qual", 1))
        if isinstance(a, Tup) and isinstance(b, Tup):
            if len(a.items) != len(b.items):
                return z3.BoolVal(False)
            return z3.And(*[self.eq_slots(x, y, st, node) for x, y in zip(a.items, b.items)]) if a.items else z3.BoolVal(True)
        if isinstance(a, PyConst) and isinstance(b, PyConst):
            return z3.BoolVal(a.obj == b.obj)
        va, vb = self.as_val(a, st, node), self.as_val(b, st, node)
        if identity and (isinstance(a, Ref) != isinstance(b, Ref)):
            # fresh container vs. value taken out of a container: identity unknown unless one side is None
            if va.tag == "none" or vb.tag == "none":
                return z3.BoolVal(False) if (isinstance(a, Ref) or isinstance(b, Ref)) else py_eq(va, vb)
        return py_eq(va, vb)

    def contains(self, cont, item, st, node):
        if isinstance(cont, PyConst):
            obj = cont.obj
            iv = self.as_val(item, st, node)
            keys = list(obj.keys()) if isinstance(obj, dict) else list(obj)
            if isinstance(obj, str):
                return z3.Contains(z3.StringVal(obj), self.need(iv, "s", st, node))
            cs = [py_eq(iv, const_to_val(k)) for k in keys]
            return z3.Or(*cs) if cs else z3.BoolVal(False)
        if isinstance(cont, Tup):
            cs = [self.eq_slots(item, x, st, node) for x in cont.items]
            return z3.Or(*cs) if cs else z3.BoolVal(False)
        c = self.as_val(cont, st, node)
        iv = self.as_val(item, st, node)
        if c.tag == "s":
            return z3.Contains(c.e, self.need(iv, "s", st, node))
        if c.tag == "d":
            if iv.tag not in ("s", "any"):
                return z3.BoolVal(False)
            if iv.tag == "any":
                return z3.And(recog("s")(iv.e), z3.Select(c.e, acc("s")(iv.e)) != ABSENT)
            return z3.Select(c.e, iv.e) != ABSENT
        if c.tag == "sti":
            if iv.tag == "i":
                return z3.Select(c.e, iv.e)
            if iv.tag == "any":
                return z3.And(recog("i")(iv.e), z3.Select(c.e, acc("i")(iv.e)))
            return z3.BoolVal(False)
        if c.tag == "st":
            if iv.tag == "any":
                return z3.And(recog("s")(iv.e), z3.Select(c.e, acc("s")(iv.e)))
            if iv.tag != "s":
                return z3.BoolVal(False)
            return z3.Select(c.e, iv.e)
        if c.tag == "l":
            return z3.Contains(c.e, z3.Unit(iv.any()))
        if c.tag == "any":
            a = c.e
            ia = iv.any()
            self.may_raise(st, z3.Not(z3.Or(recog("s")(a), recog("d")(a), recog("l")(a), recog("st")(a))), Exc("TypeError", origin="in"), node)
            return z3.If(recog("d")(a), z3.And(recog("s")(ia), z3.Select(acc("d")(a), acc("s")(ia)) != ABSENT),
                         z3.If(recog("l")(a), z3.Contains(acc("l")(a), z3.Unit(ia)),
                               z3.If(recog("st")(a), z3.And(recog("s")(ia), z3.Select(acc("st")(a), acc("s")(ia))),
                                     z3.And(recog("s")(ia), z3.Contains(acc("s")(a), acc("s")(ia))))))
        self.oos(f"'in' on {c.tag}", node)

    def e_Tuple(self, node, st):
        items = []
        for e in node.elts:
            if isinstance(e, ast.Starred):
                v = self.eval(e.value, st)
                if isinstance(v, Tup):
                    items.extend(v.items)
                else:
                    self.oos("starred in tuple", node)
            else:
                items.append(self.eval(e, st))
        return Tup(items)

    def e_List(self, node, st):
        e = EMPTY_LIST
        for x in node.elts:
            if isinstance(x, ast.Starred):
                v = self.evalv(x.value, st)
                e = z3.Concat(e, self.need(v, "l", st, node))
                continue
            s = self.eval(x, st)
            self.store_escape(s, st)
            e = z3.Concat(e, z3.Unit(self.as_val(s, st, node).any()))
        return self.mk_list(st, Val("l", e))

    def e_Set(self, node, st):
        e = EMPTY_SET
        for x in node.elts:
            v = self.evalv(x, st)
            e = z3.Store(e, self.need(v, "s", st, node), z3.BoolVal(True))
        return st.new(Cell("set", val=Val("st", e)))

    def e_Dict(self, node, st):
        e = EMPTY_DICT
        for k, v in zip(node.keys, node.values):
            if k is None:
                dv = self.evalv(v, st)
                e = self.dict_merge(e, self.need(dv, "d", st, node))
                continue
            kv = self.evalv(k, st)
            s = self.eval(v, st)
            self.store_escape(s, st)
            e = z3.Store(e, self.need(kv, "s", st, node), self.as_val(s, st, node).any())
        return st.new(Cell("dict", val=Val("d", e)))

    def e_Lambda(self, node, st):
        return Lam(node, st)

    def e_Starred(self, node, st):
        self.oos("starred expression", node)

    # attribute access ---------------------------------------------------------------------------
    def e_Attribute(self, node, st):
        # old.<chain> : evaluate the chain in the entry state
        root = node
        while isinstance(root, (ast.Attribute, ast.Subscript)):
            root = root.value
        if isinstance(root, ast.Name) and root.id == "old" and "old" not in st.vars and self.old_state is not None:
            return self.eval_in_old(node, st)
        recv = self.eval(node.value, st)
        return self.getattr(recv, node.attr, st, node)

    def eval_in_old(self, node, st):
        def strip(n):
            if isinstance(n, ast.Attribute):
                if isinstance(n.value, ast.Name) and n.value.id == "old":
                    return ast.copy_location(ast.Name(id=n.attr, ctx=ast.Load()), n)
                return ast.copy_location(ast.Attribute(value=strip(n.value), attr=n.attr, ctx=ast.Load()), n)
            if isinstance(n, ast.Subscript):
                return ast.copy_location(ast.Subscript(value=strip(n.value), slice=n.slice, ctx=ast.Load()), n)
            return n
        new = strip(node)
        old = self.old_state.fork()
        old.pc = st.pc  # share constraints (old state is only read)
        saved = self.old_state
        self.old_state = None
        try:
            r = self.eval(new, old)
            if isinstance(r, Ref):  # make the old cell visible in the current state under a fresh ref
                c = old.cell(r)
                if c.kind == "obj":
                    nr = Ref()
                    st.heap[nr.id] = c
                    return nr
                return c.val
            return r
        finally:
            self.old_state = saved

    def getattr(self, recv, name, st, node):
        if isinstance(recv, Ref):
            c = st.cell(recv)
            if c.kind == "obj":
                if name in c.fields:
                    return c.fields[name]
                # a method of the object's class?
                cref = self.class_of(c)
                if cref is not None:
                    m = self.find_method(cref, name)
                    if m is not None:
                        if any(isinstance(d, ast.Name) and d.id == "property" for d in m.node.decorator_list):
                            return self.call_function(m, [recv], {}, st, node)
                        return BoundMethod(recv, name, node.value if isinstance(node, ast.Attribute) else None)
                if c.lazy:
                    v = lazy_field(c, name)
                    st.wcell(recv).fields[name] = v
                    return v
                self.may_raise(st, True, Exc("AttributeError", origin=name), node)
                return Val("any", fresh("noattr", Any))
            return BoundMethod(recv, name, getattr(node, "value", None))
        if isinstance(recv, ClassRef):
            if recv.node is not None and source.class_is_enum(recv.node):
                for n in recv.node.body:
                    if isinstance(n, ast.Assign) and isinstance(n.targets[0], ast.Name) and n.targets[0].id == name:
                        return Val("s", z3.StringVal(f"<{recv.name}.{name}>"), meta="enum:" + recv.name)
            if recv.node is not None:
                m = self.find_method(recv, name)
                if m is not None:
                    return m
                for n in recv.node.body:
                    if isinstance(n, (ast.Assign, ast.AnnAssign)):
                        tgt = n.targets[0] if isinstance(n, ast.Assign) else n.target
                        if isinstance(tgt, ast.Name) and tgt.id == name and n.value is not None:
                            try:
                                return PyConst(ast.literal_eval(n.value), f"{recv.qual}.{name}")
                            except Exception:
                                return ExtRef(f"{recv.qual}.{name}")
            return ExtRef(f"{recv.qual}.{name}")
        if isinstance(recv, ModuleRef):
            saved = self.mod
            self.mod = source.load_module(recv.dotted)
            try:
                r = self.resolve_global(name)
            finally:
                self.mod = saved
            return r if r is not None else ExtRef(f"{recv.dotted}.{name}")
        if isinstance(recv, ExtRef):
            return ExtRef(f"{recv.dotted}.{name}")
        if isinstance(recv, Exc):
            if name in recv.fields:
                return recv.fields[name]
            return Val("any", fresh("excattr", Any))
        if isinstance(recv, (Val, Tup, PyConst)):
            if isinstance(recv, Val) and recv.tag in ("any", "o"):
                # attribute of an opaque value: a deterministic uninterpreted function of the object
                f = z3.Function("attr." + name, Any, Any)
                return Val("any", f(recv.any()))
            return BoundMethod(recv, name, getattr(node, "value", None))
        if isinstance(recv, tuple) and recv and recv[0] == "old":
            return self.eval_in_old(node, st)
        self.oos(f"attribute {name} of {recv!r}", node)

    def class_of(self, cell: Cell):
        if cell.cls is None:
            return None
        if isinstance(cell.cls, ClassRef):
            return cell.cls
        return None

    # subscripts ---------------------------------------------------------------------------------
    def e_Subscript(self, node, st):
        root = node
        while isinstance(root, (ast.Attribute, ast.Subscript)):
            root = root.value
        if isinstance(root, ast.Name) and root.id == "old" and "old" not in st.vars and self.old_state is not None:
            return self.eval_in_old(node, st)
        recv = self.eval(node.value, st)
        if isinstance(node.slice, ast.Slice):
            return self.slice(recv, node.slice, st, node)
        if isinstance(recv, (ClassRef, ExtRef, Builtin)):  # typing generics: dict[str, Any]
            return recv
        idx = self.eval(node.slice, st)
        return self.index(recv, idx, st, node)

    def index(self, recv, idx, st, node):
        if isinstance(recv, Tup):
            iv = self.as_val(idx, st, node)
            if iv.tag == "i":
                s = z3.simplify(iv.e)
                if z3.is_int_value(s):
                    k = s.as_long()
                    if -len(recv.items) <= k < len(recv.items):
                        return recv.items[k]
                    self.may_raise(st, True, Exc("IndexError"), node)
                    return Val("any", fresh("garbage", Any))
            recv = self.as_val(recv, st, node)
        if isinstance(recv, PyConst):
            obj = recv.obj
            iv = self.as_val(idx, st, node)
            if isinstance(obj, dict):
                out = None
                conds = []
                for k, v in reversed(list(obj.items())):
                    c = py_eq(iv, const_to_val(k))
                    conds.append(c)
                    vv = self.pyconst_val(v)
                    out = vv if out is None else ite_val(c, vv, out)
                self.may_raise(st, z3.Not(z3.Or(*conds)) if conds else z3.BoolVal(True), Exc("KeyError"), node)
                return out if out is not None else Val("any", fresh("garbage", Any))
            recv = const_to_val(obj)
        c = self.as_val(recv, st, node)
        iv = self.as_val(idx, st, node)
        if c.tag == "d":
            k = self.need(iv, "s", st, node)
            v = z3.Select(c.e, k)
            self.may_raise(st, v == ABSENT, Exc("KeyError"), node)
            return from_any(v)
        if c.tag == "l":
            i = self.need_int(iv, st, node)
            n = z3.Length(c.e)
            self.may_raise(st, z3.Or(i >= n, i < -n), Exc("IndexError"), node)
            return from_any(z3.If(i >= 0, c.e[i], c.e[n + i]))
        if c.tag == "s":
            i = self.need_int(iv, st, node)
            n = z3.Length(c.e)
            self.may_raise(st, z3.Or(i >= n, i < -n), Exc("IndexError"), node)
            ch = z3.If(i >= 0, z3.SubString(c.e, i, 1), z3.SubString(c.e, n + i, 1))
            from . import stdlib_model as M
            # lemma (valid in the theory of strings, stated to spare the solver the search): a character of a string over a
            # character class belongs to that class
            valid = z3.And(i < n, i >= -n)
            for cls_ in (M.LOWER_, M.ALNUM_):
                self.assume(st, z3.Implies(z3.And(valid, z3.InRe(c.e, z3.Star(cls_))), z3.InRe(ch, cls_)))
            self.assume(st, z3.Implies(valid, z3.Length(ch) == 1))
            if z3.is_int_value(z3.simplify(i)) and z3.simplify(i).as_long() == 0:
                self.assume(st, z3.Implies(valid, z3.PrefixOf(ch, c.e)))
            return VStr(ch)
        if c.tag == "any":
            a = c.e
            ia = iv.any()
            isd = z3.And(recog("d")(a), recog("s")(ia))
            isl = z3.And(recog("l")(a), recog("i")(ia))
            self.may_raise(st, z3.Not(z3.Or(isd, isl)), Exc(None, origin="subscript of unknown value"), node)
            dv = z3.Select(acc("d")(a), acc("s")(ia))
            self.may_raise(st, z3.And(isd, dv == ABSENT), Exc("KeyError"), node)
            ii = acc("i")(ia)
            ln = z3.Length(acc("l")(a))
            self.may_raise(st, z3.And(isl, z3.Or(ii >= ln, ii < -ln)), Exc("IndexError"), node)
            return Val("any", z3.If(isd, dv, z3.If(ii >= 0, acc("l")(a)[ii], acc("l")(a)[ln + ii])))
        self.oos(f"subscript of {c.tag}", node)

    def pyconst_val(self, v):
        try:
            return const_to_val(v)
        except TypeError:
            return Val("o", z3.IntVal(abs(hash(repr(v))) % 10**9))

    def slice(self, recv, sl, st, node):
        if sl.step is not None:
            self.oos("slice step", node)
        c = self.as_val(recv, st, node)
        if c.tag == "any":
            # dynamically a str or a list: slice both views and select by the run-time tag
            self.may_raise(st, z3.Not(z3.Or(recog("s")(c.e), recog("l")(c.e))), Exc("TypeError", origin="slice"), node)
            sv = self.as_val(self.slice(Val("s", acc("s")(c.e)), sl, st, node), st, node)
            lv = self.as_val(self.slice(Val("l", acc("l")(c.e)), sl, st, node), st, node)
            return ite_val(recog("s")(c.e), sv, lv)
        if c.tag not in ("s", "l"):
            self.oos(f"slice of {c.tag}", node)
        n = z3.Length(c.e)

        def norm(e, default):
            if e is None:
                return default
            v = self.need_int(self.evalv(e, st), st, node)
            v = z3.If(v < 0, v + n, v)
            return z3.If(v < 0, z3.IntVal(0), z3.If(v > n, n, v))
        lo = norm(sl.lower, z3.IntVal(0))
        hi = norm(sl.upper, n)
        ln = z3.If(hi > lo, hi - lo, z3.IntVal(0))
        if c.tag == "s":
            return VStr(z3.SubString(c.e, lo, ln))
        return self.mk_list(st, Val("l", z3.Extract(c.e, lo, ln)))

    # comprehensions -------------------------------------------------------------------------------
    def e_DictComp(self, node, st):
        if len(node.generators) != 1:
            self.oos("nested comprehension", node)
        g = node.generators[0]
        it = g.iter
        # pattern: {k: f(v) for k, v in X.items() if p(k, v)}
        if (isinstance(it, ast.Call) and isinstance(it.func, ast.Attribute) and it.func.attr == "items"
                and isinstance(g.target, ast.Tuple) and len(g.target.elts) == 2 and isinstance(node.key, ast.Name)
                and node.key.id == g.target.elts[0].id):
            src = self.need(self.evalv(it.func.value, st), "d", st, node)
            kname, vname = g.target.elts[0].id, g.target.elts[1].id
            kc = z3.Const(f"k!dc{node.lineno}", StrS)
            sub = st.fork()
            sub.vars[kname] = VStr(kc)
            sub.vars[vname] = from_any(z3.Select(src, kc))
            npend = len(self.pending)
            cond = z3.BoolVal(True)
            for test in g.ifs:
                cond = z3.And(cond, self.truth(self.eval(test, sub), sub, node))
            val = self.evalv(node.value, sub).any()
            if len(self.pending) != npend:
                if not self.opts.get("abstract_comprehensions"):
                    self.oos("comprehension element may raise", node)
                # as for list comprehensions: the exceptional exits of the element expression are not followed (recorded assumption)
                del self.pending[npend:]
                self.assumptions.add(f"comprehension at line {node.lineno}: element expression assumed not to raise")
            if len(sub.pc) != len(st.pc):
                # facts assumed while evaluating the element for an ARBITRARY key (callee postconditions): they hold for every key
                for fact in sub.pc[len(st.pc):]:
                    st.assume(z3.ForAll([kc], z3.Implies(z3.And(z3.Select(src, kc) != ABSENT, cond), fact)))
            # {k: v for k, v in X.items() if k != "c"}  ==  X without "c"   (store form: models are found)
            if (isinstance(node.value, ast.Name) and node.value.id == vname and len(g.ifs) == 1
                    and isinstance(g.ifs[0], ast.Compare) and len(g.ifs[0].ops) == 1
                    and isinstance(g.ifs[0].left, ast.Name) and g.ifs[0].left.id == kname):
                op, rhs = g.ifs[0].ops[0], g.ifs[0].comparators[0]
                consts = None
                if isinstance(op, ast.NotEq) and isinstance(rhs, ast.Constant) and isinstance(rhs.value, str):
                    consts = [rhs.value]
                elif isinstance(op, ast.NotIn) and isinstance(rhs, (ast.Tuple, ast.List, ast.Set)) and all(
                        isinstance(e, ast.Constant) and isinstance(e.value, str) for e in rhs.elts):
                    consts = [e.value for e in rhs.elts]
                if consts is not None:
                    out = src
                    for cst in consts:
                        out = z3.Store(out, z3.StringVal(cst), ABSENT)
                    return st.new(Cell("dict", val=Val("d", out)))
            body = z3.If(z3.And(z3.Select(src, kc) != ABSENT, cond), val, ABSENT)
            # an array constant defined pointwise (a z3 Lambda is not an ArrayRef: the map combinators used for dict merges refuse it)
            R = fresh("dcomp", DictS)
            st.assume(z3.ForAll([kc], z3.Select(R, kc) == body))
            return st.new(Cell("dict", val=Val("d", R)))
        self.oos("dict comprehension shape", node)

    def e_ListComp(self, node, st):
        return self.seq_comp(node, st, "list")

    def e_GeneratorExp(self, node, st):
        return self.seq_comp(node, st, "gen")

    def e_SetComp(self, node, st):
        self.oos("set comprehension", node)

    def seq_comp(self, node, st, kind):
        """[f(x) for x in xs if p(x)] as an abstract sequence R with the axioms
             (no filter)  len R = len xs  and  forall i. R[i] = f(xs[i])
             (filter)     forall j < len R. exists i. R[j] = f(xs[i]) and p(xs[i]);  forall i. p(xs[i]) -> f(xs[i]) in R
        which is everything the contracts here use (membership / length), not the order under filtering."""
        if len(node.generators) != 1:
            self.oos("nested comprehension", node)
        g = node.generators[0]
        xs_slot = self.eval(g.iter, st)
        if isinstance(xs_slot, Tup) or (isinstance(xs_slot, PyConst) and isinstance(xs_slot.obj, (list, tuple))):
            items = xs_slot.items if isinstance(xs_slot, Tup) else [self.pyconst_val(x) for x in xs_slot.obj]
            out = []
            for itv in items:
                sub = st
                self.bind_target(g.target, itv, sub, node)
                cond = z3.BoolVal(True)
                for test in g.ifs:
                    cond = z3.And(cond, self.truth(self.eval(test, sub), sub, node))
                cs = z3.simplify(cond)
                if z3.is_false(cs):
                    continue
                if not z3.is_true(cs):
                    self.oos("filtered comprehension over a tuple with symbolic condition", node)
                out.append(self.eval(node.elt, sub))
            return Tup(out)
        xv_ = self.as_val(xs_slot, st, node)
        if xv_.tag == "st" and hasattr(self, "unordered_iteration") and kind == "list":
            self.unordered_iteration(st, node, "comprehension over a set")
        xs = self.need(xv_, "l", st, node)
        ic = z3.Const(f"i!lc{node.lineno}_{node.col_offset}", IntS)
        sub = st.fork()
        self.bind_target(g.target, from_any(xs[ic]), sub, node)
        npend = len(self.pending)
        cond = z3.BoolVal(True)
        for test in g.ifs:
            cond = z3.And(cond, self.truth(self.eval(test, sub), sub, node))
        elt = self.evalv(node.elt, sub).any()
        if len(self.pending) != npend:
            del self.pending[npend:]
            self.assumptions.add(f"comprehension at line {node.lineno}: element expression assumed not to raise")
        R = fresh("comp", ListS)
        ind = self.opts.get("independent_of")
        if ind is not None and hasattr(self, "ind_setup"):
            # non-interference: the result list is a fresh constant tied to its inputs only through assumptions, so its dependence has to be
            # carried explicitly — it is source-dependent unless every element (and the filter) is independent modulo declassification.
            # (The LENGTH of the result may still vary with the source list; that is accepted and stated in the contract notes.)
            indep = self.ind_setup(ind, node)
            dep = not z3.is_true(z3.simplify(indep(elt))) or (bool(g.ifs) and not z3.is_true(z3.simplify(indep(cond))))
            if dep and getattr(self, "ind_sources", None):
                es = [e_ for _n, e_ in self.ind_sources]
                R = z3.Function("dep.comp", ListS, *[e_.sort() for e_ in es], ListS)(R, *es)
        if self.opts.get("abstract_comprehensions"):
            return self.mk_list(st, Val("l", R))  # slicing mode: the comprehension result is an unknown list
        n = z3.Length(xs)
        rng = z3.And(ic >= 0, ic < n)
        if not g.ifs:
            st.assume(z3.Length(R) == n)
            st.assume(z3.ForAll([ic], z3.Implies(rng, R[ic] == elt)))
        else:
            jc = z3.Const(f"j!lc{node.lineno}_{node.col_offset}", IntS)
            st.assume(z3.Length(R) <= n)
            st.assume(z3.ForAll([ic], z3.Implies(z3.And(rng, cond), z3.Contains(R, z3.Unit(elt)))))
            st.assume(z3.ForAll([jc], z3.Implies(z3.And(jc >= 0, jc < z3.Length(R)),
                                                 z3.Exists([ic], z3.And(rng, cond, R[jc] == elt)))))
        return self.mk_list(st, Val("l", R))

    # calls are in calls.py (mixed in) ----------------------------------------------------------
