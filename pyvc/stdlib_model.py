"""Assumed contracts on the standard library (re with literal patterns, str methods, keyword): each is an axiom set over an
uninterpreted function, named in the evidence, and differential-tested against CPython by props/C20.py on every run."""
from __future__ import annotations

import keyword as _kw

import z3

from .sym import StrS, BoolS, Val, VBool, VStr

AXIOMS_USED: set[str] = set()


def _cls(*ranges_and_chars):
    parts = []
    for r in ranges_and_chars:
        if len(r) == 2 and isinstance(r, tuple):
            parts.append(z3.Range(r[0], r[1]))
        else:
            parts.append(z3.Re(r))
    return z3.Union(*parts) if len(parts) > 1 else parts[0]


ALNUM_ = _cls(("0", "9"), ("a", "z"), ("A", "Z"), "_")       # [0-9a-zA-Z_]
LOWER_ = _cls(("0", "9"), ("a", "z"), "_")                    # [0-9a-z_]
DIGIT = z3.Range("0", "9")


def star(c):
    return z3.Star(c)


def re_sub(ex, pattern, repl, s, st):
    """re.sub(pattern, repl, s) for the literal patterns that occur in the verified functions"""
    import hashlib
    tag = hashlib.sha1(f"{pattern}->{repl}".encode()).hexdigest()[:8]
    AXIOMS_USED.add(f"re.sub#{tag} = re.sub({pattern!r}, {repl!r}, .)")
    f = z3.Function(f"re.sub#{tag}", StrS, StrS)
    r = f(s)
    if pattern == r"[^0-9a-zA-Z_]" and repl == "_":
        AXIOMS_USED.add("re.sub('[^0-9a-zA-Z_]','_',s) is in [0-9a-zA-Z_]* and has the length of s")
        ex.axiom(z3.InRe(r, star(ALNUM_)))
        ex.axiom(z3.Length(r) == z3.Length(s))
    elif pattern == r"_+" and repl == "_":
        AXIOMS_USED.add("re.sub('_+','_',s): stays inside any character class that s is in ([0-9a-zA-Z_]*), is empty iff s is empty")
        ex.axiom(z3.Implies(z3.InRe(s, star(ALNUM_)), z3.InRe(r, star(ALNUM_))))
        ex.axiom((z3.Length(r) == 0) == (z3.Length(s) == 0))
    elif pattern == r"[{}]" and repl == "":
        AXIOMS_USED.add("re.sub('[{}]','',s): no fact used")
    else:
        AXIOMS_USED.add(f"re.sub({pattern!r},{repl!r},s): no fact used (result unconstrained)")
    return VStr(r)


def strip_chars(ex, s, chars, st):
    f = z3.Function("py.strip_" + "".join(f"{ord(ch):02x}" for ch in chars), StrS, StrS)
    r = f(s)
    if chars == "_":
        AXIOMS_USED.add("s.strip('_'): a substring of s (stays in [0-9a-zA-Z_]*), neither starts nor ends with '_'")
        ex.axiom(z3.Implies(z3.InRe(s, star(ALNUM_)), z3.InRe(r, star(ALNUM_))))
        ex.axiom(z3.Not(z3.PrefixOf(z3.StringVal("_"), r)))
        ex.axiom(z3.Not(z3.SuffixOf(z3.StringVal("_"), r)))
        ex.axiom(z3.Length(r) <= z3.Length(s))
    return VStr(r)


def lower(ex, s, st):
    f = z3.Function("py.lower", StrS, StrS)
    r = f(s)
    AXIOMS_USED.add("s.lower(): maps [0-9a-zA-Z_]* into [0-9a-z_]*, length preserving on ASCII, keeps a leading/trailing '_' status")
    ex.axiom(z3.Implies(z3.InRe(s, star(ALNUM_)), z3.And(z3.InRe(r, star(LOWER_)), z3.Length(r) == z3.Length(s),
                                                           z3.PrefixOf(z3.StringVal("_"), r) == z3.PrefixOf(z3.StringVal("_"), s))))
    return VStr(r)


def isdigit(ex, s, st):
    f = z3.Function("py.isdigit", StrS, BoolS)
    AXIOMS_USED.add("c.isdigit() for a one-character string in [0-9a-z_]: true iff c in [0-9]")
    ex.axiom(z3.Implies(z3.And(z3.Length(s) == 1, z3.InRe(s, LOWER_)), f(s) == z3.InRe(s, DIGIT)))
    return VBool(f(s))


def iskeyword(ex, s, st):
    """keyword.iskeyword is exact: membership in keyword.kwlist of the running interpreter"""
    AXIOMS_USED.add(f"keyword.iskeyword(s) iff s in keyword.kwlist ({len(_kw.kwlist)} entries of this interpreter)")
    return VBool(z3.Or(*[s == z3.StringVal(k) for k in _kw.kwlist]))


def is_identifier_ascii(s):
    """the regular language [A-Za-z_][A-Za-z0-9_]* (ASCII identifiers)"""
    first = _cls(("a", "z"), ("A", "Z"), "_")
    return z3.InRe(s, z3.Concat(first, star(ALNUM_)))
