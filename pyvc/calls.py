"""Call handling: builtins, methods of str/dict/list/set, modular calls through contracts, inlining, opaque calls."""
from __future__ import annotations

import ast
import re
import z3

from . import source
from .contracts import Contract, lookup, lookup_by_method
from .exec import BUILTIN_EXC, ExecBase, MUTATORS, NOOP_ROOTS, Obligation, Outcome
from .state import (BoundMethod, Builtin, CallRec, Cell, ClassRef, Exc, ExtRef, FuncRef, Lam, MergeFail, ModuleRef,
                    OutOfSubset, PyConst, Ref, State, Tup, merge_states)
from .sym import (ABSENT, Any, BoolS, DictS, EMPTY_DICT, EMPTY_ISET, EMPTY_LIST, EMPTY_SET, ISetS, IntS, ListS, NONE, SetS, StrS, Val, VBool,
                  VInt, VNone, VStr, acc, const_to_val, ctor, fresh, from_any, ite_val, py_eq, recog, truthy)

WS = " \t\n\r\x0b\x0c"
STR_METHODS_ON_ANY = {"startswith", "endswith", "lower", "upper", "strip", "lstrip", "rstrip", "split", "replace", "join",
                      "isdigit", "format", "capitalize", "title", "find", "splitlines", "isidentifier", "encode",
                      "removeprefix", "removesuffix", "isalpha", "isalnum", "isupper", "islower", "count", "rsplit"}
DICT_METHODS_ON_ANY = {"get", "items", "keys", "values", "copy"}


def root_name(node):
    while isinstance(node, (ast.Attribute, ast.Subscript, ast.Call)):
        node = node.value if not isinstance(node, ast.Call) else node.func
    return node.id if isinstance(node, ast.Name) else None


class CallsMixin(ExecBase):
    # ------------------------------------------------------------------------------------------
    def eval_args(self, node: ast.Call, st):
        args = []
        for a in node.args:
            if isinstance(a, ast.Starred):
                v = self.eval(a.value, st)
                if isinstance(v, Tup):
                    args.extend(v.items)
                else:
                    args.append(("*", self.as_val(v, st, node)))
            else:
                args.append(self.eval(a, st))
        kwargs = {}
        for k in node.keywords:
            if k.arg is None:
                kwargs["**"] = self.as_val(self.eval(k.value, st), st, node)
            else:
                kwargs[k.arg] = self.eval(k.value, st)
        return args, kwargs

    def first_match_form(self, node, st):
        """next((x for x in xs if p(x)), default): the FIRST element satisfying p, else default — encoded with a least-index witness"""
        gen = node.args[0]
        g = gen.generators[0]
        xs = self.need(self.as_val(self.eval(g.iter, st), st, node), "l", st, node)
        j = fresh("first_idx", IntS)
        i = z3.Const(f"i!fm{node.lineno}_{node.col_offset}", IntS)
        n = z3.Length(xs)

        def cond_at(idx):
            sub = st.fork()
            self.bind_target(g.target, from_any(xs[idx]), sub, node)
            npend = len(self.pending)
            c = z3.BoolVal(True)
            for test in g.ifs:
                c = z3.And(c, self.truth(self.eval(test, sub), sub, node))
            elt = self.as_val(self.eval(gen.elt, sub), sub, node)
            del self.pending[npend:]
            return c, elt
        cj, ej = cond_at(j)
        ci, _ = cond_at(i)
        dflt = self.as_val(self.eval(node.args[1], st), st, node) if len(node.args) > 1 else None
        found = fresh("first_found", BoolS)
        self.assume(st, z3.Implies(found, z3.And(0 <= j, j < n, cj, z3.ForAll([i], z3.Implies(z3.And(0 <= i, i < j), z3.Not(ci))))))
        self.assume(st, z3.Implies(z3.Not(found), z3.ForAll([i], z3.Implies(z3.And(0 <= i, i < n), z3.Not(ci)))))
        if dflt is None:
            self.may_raise(st, z3.Not(found), Exc("StopIteration"), node)
            return ej
        return ite_val(found, ej, dflt)

    def e_Call(self, node, st):
        f = node.func
        if (isinstance(f, ast.Name) and f.id == "next" and "next" not in st.vars and node.args and isinstance(node.args[0], ast.GeneratorExp)
                and len(node.args[0].generators) == 1 and not node.keywords):
            return self.first_match_form(node, st)
        rn = root_name(f)
        if rn in NOOP_ROOTS and rn not in st.vars:
            return VNone
        if isinstance(f, ast.Attribute):
            if isinstance(f.value, ast.Call) and isinstance(f.value.func, ast.Name) and f.value.func.id == "super":
                return self.call_super(f.attr, node, st)
            recv = self.eval(f.value, st)
            return self.call_method(recv, f.attr, node, st)
        callee = self.eval(f, st)
        args, kwargs = self.eval_args(node, st)
        return self.call_value(callee, args, kwargs, st, node)

    def call_super(self, name, node, st):
        """super().<name>(...) inside a method of a class defined in the verified sources: dispatch to the first base
        class (in source order) that defines <name>; builtin bases (Exception/object) only record the arguments."""
        args, kwargs = self.eval_args(node, st)
        slf = st.vars.get("self")
        cur = self.cls
        if cur is not None and isinstance(slf, Ref):
            cref = ClassRef(self.mod, cur, f"{self.mod.name}:{cur.name}")
            for b in source.class_bases(cur):
                r = self.resolve_global(b)
                if isinstance(r, ClassRef) and r.node is not None:
                    m = self.find_method(r, name)
                    if m is not None:
                        bound = self.bind_params(m.node, [slf] + list(args), kwargs, st, node, m.mod)
                        return self.inline(m, bound, st, node)
        if name == "__init__":
            if isinstance(slf, Ref):
                c = st.wcell(slf)
                c.fields["args"] = Tup(args)
            return VNone
        return self.opaque_call(f"super().{name}", args, kwargs, st, node)

    def call_value(self, callee, args, kwargs, st, node):
        if isinstance(callee, Builtin):
            if callee.name.startswith("spec:"):
                return self.specs[callee.name[5:]](self, args, kwargs, st, node)
            m = getattr(self, "b_" + callee.name, None)
            if m is None:
                return self.opaque_call("builtins." + callee.name, args, kwargs, st, node)
            return m(args, kwargs, st, node)
        if isinstance(callee, FuncRef):
            return self.call_function(callee, args, kwargs, st, node)
        if isinstance(callee, ClassRef):
            return self.instantiate(callee, args, kwargs, st, node)
        if isinstance(callee, ExtRef):
            return self.opaque_call(callee.dotted, args, kwargs, st, node)
        if isinstance(callee, BoundMethod):
            return self.call_method(callee.recv, callee.name, node, st, pre_args=(args, kwargs))
        if isinstance(callee, Lam):
            return self.call_lambda(callee, args, kwargs, st, node)
        if isinstance(callee, Val):
            name = ast.unparse(node.func) if node is not None else "value"
            return self.opaque_call(name, args, kwargs, st, node)
        self.oos(f"call of {callee!r}", node)

    def call_lambda(self, lam: Lam, args, kwargs, st, node):
        saved = dict(st.vars)
        for k, v in lam.env.vars.items():
            st.vars.setdefault(k, v)
        for a, v in zip(lam.node.args.args, args):
            st.vars[a.arg] = v
        try:
            return self.eval(lam.node.body, st)
        finally:
            st.vars = saved

    # ------------------------------------------------------------------------------------------
    def bind_params(self, fn, args, kwargs, st, node, mod=None):
        a = fn.args
        formals = [x.arg for x in a.posonlyargs + a.args]
        bound = {}
        args = list(args)
        if any(isinstance(x, tuple) and x and x[0] == "*" for x in args):
            self.oos("*args forwarding of a symbolic sequence", node)
        for name, v in zip(formals, args):
            bound[name] = v
        extra = args[len(formals):]
        if a.vararg is not None:
            bound[a.vararg.arg] = Tup(extra)
        elif extra:
            self.oos("too many positional arguments", node)
        kw = dict(kwargs)
        star = kw.pop("**", None)
        for name in formals + [x.arg for x in a.kwonlyargs]:
            if name in kw:
                bound[name] = kw.pop(name)
        if a.kwarg is not None:
            e = EMPTY_DICT if star is None else self.need(star, "d", st, node)
            for k, v in kw.items():
                self.store_escape(v, st)
                e = z3.Store(e, z3.StringVal(k), self.as_val(v, st, node).any())
            bound[a.kwarg.arg] = st.new(Cell("dict", val=Val("d", e)))
        elif kw:
            self.oos(f"unexpected keyword arguments {list(kw)}", node)
        elif star is not None:
            # **d into named parameters: each named parameter not yet bound takes d[name] if present
            for name in formals + [x.arg for x in a.kwonlyargs]:
                if name not in bound:
                    v = z3.Select(star.e, z3.StringVal(name)) if star.tag == "d" else None
                    if v is not None:
                        bound[name] = ("maybe", v)
        # defaults
        pos_defaults = a.defaults
        pos_names = formals
        for name, d in zip(pos_names[len(pos_names) - len(pos_defaults):], pos_defaults):
            self._bind_default(bound, name, d, st, mod)
        for x, d in zip(a.kwonlyargs, a.kw_defaults):
            if d is not None:
                self._bind_default(bound, x.arg, d, st, mod)
        for name in formals + [x.arg for x in a.kwonlyargs]:
            if name not in bound or (isinstance(bound[name], tuple) and bound[name][0] == "maybe"):
                if name in bound:
                    self.oos("**dict into named parameter without default", node)
                self.oos(f"missing argument {name}", node)
        return bound

    def _bind_default(self, bound, name, dnode, st, mod):
        cur = bound.get(name)
        if cur is not None and not (isinstance(cur, tuple) and cur[0] == "maybe"):
            return
        saved = self.mod
        if mod is not None:
            self.mod = mod
        try:
            dv = self.eval(dnode, st)
        finally:
            self.mod = saved
        if cur is None:
            bound[name] = dv
        else:
            v = cur[1]
            bound[name] = ite_val(v == ABSENT, self.as_val(dv, st), from_any(v))

    def call_function(self, fref: FuncRef, args, kwargs, st, node):
        top = fref.mod.name.split(".")[0]
        if fref.mod.name == "pyvc.spec":
            from .spec import SYMBOLIC
            return SYMBOLIC[fref.node.name](self, args, kwargs, st, node)
        if top in ("contracts", "oracles"):  # spec functions written in the contract files: always inlined
            bound = self.bind_params(fref.node, args, kwargs, st, node, fref.mod)
            if self.is_recursive(fref):
                return self.call_rec(fref, bound, st, node)
            return self.inline(fref, bound, st, node)
        c = lookup(fref.qual)
        short = fref.qual.split(":")[-1]
        is_static = any(isinstance(d, ast.Name) and d.id == "staticmethod" for d in fref.node.decorator_list)
        if c is not None and c is not self.contract_being_inlined(fref):
            bound = self.bind_params(fref.node, args, kwargs, st, node, fref.mod)
            return self.apply_contract(c, bound, st, node, fref.qual)
        inl = self.opts.get("inline", ())
        if fref.qual in inl or short in inl or short.split(".")[-1] in inl:
            bound = self.bind_params(fref.node, args, kwargs, st, node, fref.mod)
            return self.inline(fref, bound, st, node)
        return self.opaque_call(fref.qual, args, kwargs, st, node)

    def contract_being_inlined(self, fref):
        return None

    # recursive spec functions -> z3 RecFunction over Any ------------------------------------------
    _REC = {}

    def is_recursive(self, fref):
        nm = fref.node.name
        return any(isinstance(x, ast.Call) and isinstance(x.func, ast.Name) and x.func.id == nm for x in ast.walk(fref.node))

    def call_rec(self, fref, bound, st, node):
        """Recursive spec function -> z3 RecFunction.  Parameter / return annotations (int, str, bool, list, dict) select
        the payload sorts, so that e.g. `-> list` results are lists without an inductive argument."""
        key = fref.qual
        formals = [a.arg for a in fref.node.args.args]
        SORTS = {"int": ("i", IntS), "str": ("s", StrS), "bool": ("b", BoolS), "list": ("l", ListS), "dict": ("d", DictS)}

        def ann(a):
            return SORTS.get(a.id) if isinstance(a, ast.Name) else None
        ptags = [ann(a.annotation) for a in fref.node.args.args]
        rtag = ann(fref.node.returns)
        ent = CallsMixin._REC.get(key)
        if ent is None:
            dom = [(pt[1] if pt else Any) for pt in ptags]
            rng = rtag[1] if rtag else Any
            f = z3.RecFunction("spec." + fref.node.name, *dom, rng)
            CallsMixin._REC[key] = ent = {"f": f, "defined": False}
            params = [z3.Const(f"p!{fref.node.name}!{a}", srt) for a, srt in zip(formals, dom)]
            sub = State()
            sub.vars = {a: (Val(pt[0], p) if pt else from_any(p)) for a, p, pt in zip(formals, params, ptags)}
            saved = (self.mod, self.cls, self.guards, self.pending, self.old_state)
            self.mod, self.cls, self.guards, self.pending, self.old_state = fref.mod, None, [], [], None
            self.depth += 1
            try:
                outs = self.exec_block(source.strip_docstring(fref.node.body), sub)
            finally:
                self.mod, self.cls, self.guards, self.pending, self.old_state = saved
                self.depth -= 1
            body = fresh("undef", rng)
            for o in reversed(outs):
                if o.sig != "return":
                    continue
                cond = z3.And(*o.state.pc) if o.state.pc else z3.BoolVal(True)
                rv = self.as_val(o.payload, o.state, node)
                body = z3.If(cond, rv.payload(rtag[0]) if rtag else rv.any(), body)
            z3.RecAddDefinition(f, params, body)
            ent["defined"] = True
        f = ent["f"]
        actuals = []
        for a, pt in zip(formals, ptags):
            v = self.as_val(bound[a], st, node)
            actuals.append(self.need(v, pt[0], st, node) if pt else v.any())
        r = f(*actuals)
        return Val(rtag[0], r) if rtag else from_any(r)

    def inline(self, fref: FuncRef, bound, st: State, node):
        """Execute the real body of the callee in place; all normal exits are merged into one result."""
        if self.depth > 6:
            self.oos("inline depth", node)
        sub = st.fork()
        if ".<locals>." in fref.qual and self.depth == 0:
            # a closure called from its defining scope reads the enclosing function's locals (late binding: their current values)
            sub.vars = {k_: v_ for k_, v_ in st.vars.items() if not k_.startswith("__")}
            sub.vars.update(bound)
        else:
            sub.vars = dict(bound)
        saved = (self.mod, self.cls, self.guards, self.loop_ordinal)
        g = self.guard_cond()
        self.mod, self.cls, self.guards = fref.mod, fref.cls, []
        self.depth += 1
        try:
            outs = self.exec_block(source.strip_docstring(fref.node.body), sub)
        finally:
            self.mod, self.cls, self.guards, self.loop_ordinal = saved
            self.depth -= 1
        rets = []
        for o in outs:
            if o.sig == "raise":
                if g is not None:
                    o.state.assume(g)
                self.pending.append(o)
            elif o.sig in ("return", "next"):
                s2 = o.state
                s2.vars = dict(s2.vars)
                s2.vars["__ret"] = o.payload if (o.sig == "return" and o.payload is not None) else VNone
                rets.append(s2)
            else:
                self.oos("break/continue escaping a function", node)
        if not rets:
            # callee always raises
            st.assume(z3.BoolVal(False))
            return VNone
        try:
            m = merge_states(rets, strict_log=bool(self.opts.get("track_calls")))
        except MergeFail as e:
            self.oos(f"inlined callee {fref.qual}: exits cannot be merged ({e})", node)
        if g is not None and len(rets) >= 1:
            # effects under a guard: keep the pre-state when the guard is false
            try:
                alt = st.fork()
                alt.vars = dict(m.vars)
                alt.assume(z3.Not(g))
                m.assume(g)
                m = merge_states([m, alt], strict_log=bool(self.opts.get("track_calls")))
            except MergeFail as e:
                self.oos(f"guarded inline: {e}", node)
        ret = m.vars.get("__ret", VNone)
        st.heap, st.pc, st.log, st.ghost = m.heap, m.pc, m.log, m.ghost
        return ret

    # ------------------------------------------------------------------------------------------
    def instantiate(self, cref: ClassRef, args, kwargs, st, node):
        chain = self.class_chain(cref)
        is_exc = "BaseException" in chain or "Exception" in chain
        if cref.node is None:
            if is_exc:
                r = st.new(Cell("obj", fields={"args": Tup(args)}, cls=cref))
                return r
            return self.opaque_call(cref.qual, args, kwargs, st, node)
        if source.class_is_dataclass(cref.node):
            flds = []
            seen = set()
            work = [cref]
            order = []
            while work:  # base-class fields first
                c = work.pop(0)
                order.insert(0, c)
                for b in source.class_bases(c.node):
                    saved = self.mod
                    self.mod = c.mod
                    try:
                        r = self.resolve_global(b)
                    finally:
                        self.mod = saved
                    if isinstance(r, ClassRef) and r.node is not None:
                        work.append(r)
            for c in order:
                for nme, dflt in source.class_fields(c.node):
                    if nme not in seen:
                        seen.add(nme)
                        flds.append((nme, dflt, c.mod))
            fields = {}
            for (nme, dflt, m), v in zip(flds, args):
                fields[nme] = v
            for k, v in kwargs.items():
                fields[k] = v
            for nme, dflt, m in flds:
                if nme not in fields:
                    if dflt is None:
                        self.may_raise(st, True, Exc("TypeError", origin=f"missing field {nme}"), node)
                        fields[nme] = Val("any", fresh("garbage", Any))
                    else:
                        fields[nme] = self.eval_default(dflt, st, m)
            r = st.new(Cell("obj", fields=fields, cls=cref))
            pi = self.find_method(cref, "__post_init__")
            if pi is not None:
                self.call_function(pi, [r], {}, st, node)
            return r
        init = self.find_method(cref, "__init__")
        r = st.new(Cell("obj", fields={}, cls=cref))
        if init is not None:
            short = init.qual.split(":")[-1]
            if lookup(init.qual) is not None or is_exc or short in self.opts.get("inline", ()) or cref.name in self.opts.get("inline", ()):
                if lookup(init.qual) is None:
                    bound = self.bind_params(init.node, [r] + list(args), kwargs, st, node, init.mod)
                    self.inline(init, bound, st, node)
                else:
                    self.call_function(init, [r] + list(args), kwargs, st, node)
                return r
            return self.opaque_call(cref.qual, args, kwargs, st, node, result_cls=cref)
        if is_exc:
            st.wcell(r).fields["args"] = Tup(args)
        return r

    def eval_default(self, dflt, st, mod):
        # field(default_factory=list) etc.
        if isinstance(dflt, ast.Call) and isinstance(dflt.func, ast.Name) and dflt.func.id == "field":
            for k in dflt.keywords:
                if k.arg == "default_factory":
                    if isinstance(k.value, ast.Name) and k.value.id in ("list", "dict", "set"):
                        kind = k.value.id
                        return st.new(Cell(kind, val={"list": Val("l", EMPTY_LIST), "dict": Val("d", EMPTY_DICT), "set": Val("st", EMPTY_SET)}[kind]))
                    return Val("any", fresh("factory", Any))
                if k.arg == "default":
                    return self.eval(k.value, st)
            return Val("any", fresh("field", Any))
        saved = self.mod
        self.mod = mod
        try:
            return self.eval(dflt, st)
        finally:
            self.mod = saved

    # ------------------------------------------------------------------------------------------
    def ind_setup(self, ind, node):
        """-> independent(e): the formula  e == e[src := src']  (declassified applications held fixed)"""
        tainted = self.__dict__.setdefault("tainted_refs", set())
        srcs = []
        cache = self.__dict__.setdefault("_ind_src_cache", {})
        for sname in ind["sources"]:
            if sname in cache:
                v = cache[sname]
            elif sname.isidentifier():
                v = cache[sname] = self.entry_pre.vars.get(sname) if getattr(self, "entry_pre", None) is not None else None
            else:
                # a source given as an expression over the region inputs (e.g. p['original_name']): its value at region entry
                try:
                    sub_ = self.entry_pre.fork()
                    v = self.as_val(self.eval(ast.parse(sname, mode="eval").body, sub_), sub_, node)
                except OutOfSubset:
                    v = None
                cache[sname] = v
            if isinstance(v, Val):
                srcs.append((re.sub(r"\W+", "_", sname), v.any() if v.tag != "any" and not sname.isidentifier() else v.e))
            elif isinstance(v, Ref):
                tainted.add(v.id if hasattr(v, "id") else id(v))
        self.ind_sources = srcs
        subst = [(e, z3.Const(f"{n}!other", e.sort())) for n, e in srcs]
        declass = tuple(ind.get("declassify", ()))

        def independent(e):
            """e == e[src := src'], where applications of a declassified function (the escaping primitive) to a source-dependent
            argument count as opaque constants: e may vary with the source only THROUGH them"""
            if declass:
                apps, todo, seen_ = {}, [e], set()
                while todo:
                    t = todo.pop()
                    if t.get_id() in seen_:
                        continue
                    seen_.add(t.get_id())
                    if z3.is_app(t):
                        nm_ = t.decl().name()
                        if t.num_args() > 0 and any(nm_ == "call." + d_ or nm_.endswith("." + d_) or nm_.endswith(":" + d_) for d_ in declass):
                            apps[t.get_id()] = t
                            continue
                        todo.extend(t.children())
                if apps:
                    e = z3.substitute(e, *[(a_, z3.Const(f"declassified!{i_}", a_.sort())) for i_, a_ in enumerate(apps.values())])
            return e == z3.substitute(e, *subst)
        return independent

    def independence_obligation(self, ind, name, short, recv, args, kwargs, st, node):
        """Frame condition as non-interference: nothing handed to this callee (receiver, arguments, keyword arguments) depends on the
        declared source inputs.  For a value, the obligation is  v == v[src := src']  with src' fresh (valid exactly when v does not
        vary with the source); an object is tracked by reference: one built by a constructor from a dependent argument is dependent."""
        last = short.split(".")[-1]
        tainted = self.__dict__.setdefault("tainted_refs", set())
        independent = self.ind_setup(ind, node)
        parts, deps = [], []
        items = [("receiver", recv)] + [(f"argument {i}", a[1] if isinstance(a, tuple) else a) for i, a in enumerate(args)] + [(f"keyword {k}", v) for k, v in kwargs.items()]
        for what, v in items:
            if v is None:
                continue
            if isinstance(v, Ref):
                if (v.id if hasattr(v, "id") else id(v)) in tainted:
                    deps.append(what)
                    parts.append(z3.BoolVal(False))
                else:
                    c_ = st.cell(v)
                    if getattr(c_, "val", None) is not None and isinstance(c_.val, Val):
                        parts.append(independent(c_.val.e))
                continue
            if isinstance(v, Val):
                parts.append(independent(v.e))
        dependent_syntactically = any(not z3.is_true(z3.simplify(p_)) for p_ in parts)
        allowed = name in ind.get("allowed", ()) or short in ind.get("allowed", ()) or last in ind.get("allowed", ())
        self.last_call_dependent = dependent_syntactically
        if allowed or self.depth != 0:
            return  # inside an inlined helper only the dependence of the result is tracked; the obligation is stated on the region's own calls
        k_ = sum(1 for o in self.obligations if f"::indep:{short}#" in o.id)
        g_ = self.guard_cond()
        self.obligations.append(Obligation(f"{getattr(self, 'fn_site', self.fn_qual)}::indep:{short}#{k_}", "assert", list(st.pc) + ([g_] if g_ is not None else []),
                                           z3.And(*parts) if parts else z3.BoolVal(True),
                                           {"line": getattr(node, "lineno", 0), "clause": "independent_of_" + "_".join(ind["sources"]), "dependent": deps}))

    def opaque_call(self, name, args, kwargs, st, node, recv=None, result_cls=None):
        """Unknown callee: fresh result, may raise an exception of unknown class, assumed not to mutate
        its arguments or tracked state (assumption recorded; frame scan backs it for tracked fields)."""
        short = name.split(":")[-1]
        alias = self.opts.get("callee_alias", {}).get(name) or self.opts.get("callee_alias", {}).get(short)
        if alias is not None and lookup(alias) is not None:
            # a callback parameter that is, at every call site of this function, an instance of a contracted function
            mod_, cls_, fn_ = source.find_function(alias)
            bound = self.bind_params(fn_, list(args), kwargs, st, node, mod_)
            self.assumptions.add(f"callback {name} is an instance of {alias} (checked syntactically at the call sites of this function)")
            return self.apply_contract(lookup(alias), bound, st, node, alias)
        pure = self.opts.get("pure", ())
        nothrow = self.opts.get("nothrow_calls", ())
        is_pure = name in pure or short in pure or short.split(".")[-1] in pure
        is_nothrow = is_pure or name in nothrow or short in nothrow or short.split(".")[-1] in nothrow
        self.opaque_callees.add(name)
        sa = self.opts.get("site_asserts", {})
        sa = sa.get(name) or sa.get(short) or sa.get(short.split(".")[-1])
        if sa is not None and self.depth == 0:
            from .contracts import Clause
            cl = Clause("site_" + short.replace(".", "_"), sa, "ensures")
            bound = dict(st.vars)
            for i_, a_ in enumerate(args):
                bound[f"arg{i_}"] = a_[1] if isinstance(a_, tuple) else a_
            goal = self.eval_clause(cl, bound, st, self.entry_pre, {})
            k_ = sum(1 for o in self.obligations if f"::site:{short}" in o.id)
            g_ = self.guard_cond()
            self.obligations.append(Obligation(f"{getattr(self, 'fn_site', self.fn_qual)}::site:{short}#{k_}", "assert",
                                               list(st.pc) + ([g_] if g_ is not None else []), goal, {"line": getattr(node, "lineno", 0), "clause": cl.name}))
        ind = self.opts.get("independent_of")
        if ind is not None:
            self.independence_obligation(ind, name, short, recv, args, kwargs, st, node)
        avals = []
        for a in args:
            if isinstance(a, tuple):
                a = a[1]
            avals.append(self.as_val(a, st, node))
        kvals = {k: self.as_val(v, st, node) for k, v in kwargs.items()}
        fo = self.opts.get("functional_opaque", ())
        if fo and (name in fo or short in fo or short.split(".")[-1] in fo):
            fargs = ([recv.any()] if isinstance(recv, Val) else []) + [a.any() for a in avals]  # a method's receiver is its first argument
            # a method of an opaque receiver is named by the method alone (the receiver is its first argument), so that the same
            # method applied to equal receivers reached through different names is the same function
            uf_name = short.split(".")[-1] if isinstance(recv, Val) else short
            f = z3.Function("call." + uf_name, *([Any] * len(fargs)), Any)
            res = Val("any", f(*fargs)) if fargs else Val("any", z3.Const("call." + short, Any))
            # whether a deterministic function raises is itself a function of its arguments
            det_flag = z3.Function("raises." + uf_name, *([Any] * len(fargs)), BoolS)(*fargs) if fargs else z3.Const("raises." + short, BoolS)
        else:
            det_flag = None
            res = Val("any", fresh("ret_" + short.replace(".", "_"), Any))
        if (ind is not None and getattr(self, "last_call_dependent", False) and self.ind_sources
                and not any(short == d_ or short.endswith("." + d_) for d_ in ind.get("declassify", ()))):
            # the result of a callee that was handed a source-dependent value is itself source-dependent (no laundering through opaque calls)
            srcs_ = [e_ for _n, e_ in self.ind_sources]
            res = Val("any", z3.Function("dep." + short, Any, *[e_.sort() for e_ in srcs_], Any)(res.e, *srcs_))
        self.assume(st, res.e != ABSENT)  # `absent` is the encoding of a missing dict entry, never a Python value
        if not is_nothrow:
            flag = det_flag if det_flag is not None else fresh("raises_" + short.replace(".", "_"), BoolS)
            self.may_raise(st, flag, Exc(None, origin=name), node)
        st.log.append(CallRec(name, avals, kvals, res, node))
        gcs = self.opts.get("ghost_calls", {})
        gc = gcs.get(name) or gcs.get(short) or gcs.get(short.split(".")[-1])
        if gc is not None:
            gname, keys = gc
            rec = EMPTY_DICT
            for idx_, a_ in enumerate(avals):
                if str(idx_) in keys:
                    rec = z3.Store(rec, z3.StringVal(str(idx_)), a_.any())
            for k_, v_ in kvals.items():
                if k_ in keys:
                    rec = z3.Store(rec, z3.StringVal(k_), v_.any())
            cur = st.ghost.get(gname, Val("l", EMPTY_LIST))
            new_ = Val("l", z3.Concat(cur.e, z3.Unit(ctor("d")(rec))))
            g_ = self.guard_cond()
            st.ghost[gname] = ite_val(g_, new_, cur) if g_ is not None else new_
        dps = self.opts.get("dependency_post", {})
        dep = dps.get(name) or dps.get(short) or dps.get(short.split(".")[-1])
        if dep is not None:
            from .contracts import Clause
            dbound = {f"arg{i_}": a_ for i_, a_ in enumerate(avals)}
            self.assume(st, self.eval_clause(Clause("dep_" + name, dep, "ensures"), dbound, st, None, {"result": res}))
            self.assumptions.add(f"assumed dependency contract on {name}: {dep.__doc__ or dep.__name__}")
        if result_cls is not None:
            r = st.new(Cell("obj", fields={}, cls=result_cls, lazy=True, path=f"new_{result_cls.name}!{len(st.log)}"))
            if ind is not None and getattr(self, "last_call_dependent", False):
                self.__dict__.setdefault("tainted_refs", set()).add(r.id if hasattr(r, "id") else id(r))
            return r
        return res

    # ------------------------------------------------------------------------------------------
    def apply_contract(self, c: Contract, bound, st: State, node, qual):
        """Modular call: assert requires, havoc modifies, assume ensures (or take the exceptional exit)."""
        ln = getattr(node, "lineno", 0)
        for _src, gname in c.opts.get("iter_source", {}).items():
            gv = st.vars.get("__ghost_" + gname)
            if gv is not None and gname not in bound:
                bound = dict(bound)
                bound[gname] = gv  # the callee's ghost input sequence is the caller's same-named source
        cs = getattr(self, "call_sites", None)
        if cs is None:
            cs = self.call_sites = {}
        key = (qual, id(node))
        if key not in cs:
            cs[key] = sum(1 for k_ in cs if k_[0] == qual)
        site = f"{getattr(self, 'fn_site', self.fn_qual)}->{qual.split(':')[-1]}#{cs[key]}"
        for cl in c.requires_:
            if any(p_ not in bound for p_ in cl.params):
                continue
            if getattr(cl, "typing", False):
                self.assumptions.add(f"call of {qual}: parameter annotations trusted ({cl.name})")
                continue
            goal = self.eval_clause(cl, bound, st, None, {})
            g = self.guard_cond()
            pc = list(st.pc) + ([g] if g is not None else [])
            self.obligations.append(Obligation(f"{site}::call-pre:{cl.name}", "call-pre", pc, goal,
                                               {"line": ln, "callee": qual, "clause": cl.name}))
            self.assume(st, goal)
        pre = st.fork()
        pre.vars = dict(bound)
        if c.opts.get("functional"):
            # pure deterministic function: its result is an (uninterpreted) function of its arguments
            formals = [a.arg for a in source.find_function(qual)[2].args.args]
            vals = [self.as_val(bound[a], st, node).any() for a in formals if a not in ("self", "cls")]
            f = z3.Function("fn." + c.opts["functional"], *([Any] * len(vals)), Any)
            res = from_any(f(*vals))
            self.assume(st, res.any() != ABSENT)  # a function result is a Python value, never the `absent` marker
            for cl in c.ensures_:
                self.assume(st, self.eval_clause(cl, bound, st, pre, {"result": res}))
            return res
        # havoc
        for path in c.opts.get("modifies", ()):
            self.havoc_path(path, bound, st, node)
        # result
        rk = c.opts.get("returns")
        if c.opts.get("generator"):
            rk = "list"  # calling a generator function: the result stands for the sequence it yields
        if rk in ("dict", "list", "set"):
            tag = {"dict": "d", "list": "l", "set": "st"}[rk]
            res = st.new(Cell(rk, val=Val(tag, fresh("ret_" + qual.split(":")[-1].replace(".", "_"), {"d": DictS, "l": ListS, "st": SetS}[tag]))))
        elif rk in ("int", "bool", "str"):
            tag = {"int": "i", "bool": "b", "str": "s"}[rk]
            res = Val(tag, fresh("ret", {"i": IntS, "b": BoolS, "s": StrS}[tag]))
        elif rk == "none":
            res = VNone
        elif isinstance(rk, str) and rk.startswith("param:"):
            res = bound[rk[6:]]
        elif isinstance(rk, str) and rk.startswith("obj:"):
            res = st.new(Cell("obj", fields={}, cls=None, lazy=True, path=f"ret_{rk[4:]}!{ln}_{len(st.pc)}"))
        else:
            res = Val("any", fresh("ret_" + qual.split(":")[-1].replace(".", "_"), Any))
        # exceptional exit of the callee
        if not c.opts.get("nothrow", False):
            rs = st.fork()
            flag = fresh("callee_raises", BoolS)
            g = self.guard_cond()
            rs.assume(z3.And(g, flag) if g is not None else flag)
            exc_cls = None
            ro = c.opts.get("raises_only")
            if ro and len(ro) == 1:
                exc_cls = ro[0]
            ex = Exc(exc_cls, origin=qual)
            for cl in c.raises_:
                rs.assume(self.eval_clause(cl, bound, rs, pre, {"exc": ex}))
            self.pending.append(Outcome("raise", rs, ex, node))
            self.assume(st, z3.Not(flag))
        st.log.append(CallRec(qual.split(":")[-1].split(".")[-1], [self.as_val(v, st, node) if not isinstance(v, tuple) else v[1] for k, v in bound.items() if k not in ("self", "cls")],
                              {}, self.as_val(res, st, node) if not isinstance(res, Ref) or st.cell(res).kind != "obj" else Val("o", z3.IntVal(res.id)), node))
        extra = {"result": res}
        if c.opts.get("generator"):
            extra["yielded"] = res
            for _src, gname in c.opts.get("iter_source", {}).items():
                # the callee's ghost input sequence is whatever the caller's same-named source yields
                gv = st.vars.get("__ghost_" + gname)
                if gv is not None:
                    extra[gname] = gv
        for cl in c.ensures_:
            if any(p_ not in bound and p_ not in extra and p_ != "old" for p_ in cl.params):
                continue  # clause about internals of the callee (region contracts): not visible at call sites
            self.assume(st, self.eval_clause(cl, dict(bound, **{k: v for k, v in extra.items() if k not in ("result", "yielded")}), st, pre, extra))
        return res

    def havoc_path(self, path, bound, st, node):
        parts = path.split(".")
        slot = bound.get(parts[0])
        if slot is None:
            return
        for p in parts[1:-1]:
            if isinstance(slot, Ref) and st.cell(slot).kind == "obj":
                slot = self.getattr(slot, p, st, node)
            else:
                return
        if not isinstance(slot, Ref):
            return
        c = st.wcell(slot)
        if len(parts) == 1:
            if c.kind == "obj":
                for f in list(c.fields):
                    if isinstance(c.fields[f], Val):
                        c.fields[f] = Val("any", fresh(f"havoc_{f}", Any))
                    elif isinstance(c.fields[f], Ref):
                        self.havoc_ref(c.fields[f], st)
                c.lazy = True
                c.path = f"havoc{len(st.pc)}_{c.path}"
            else:
                self.havoc_ref(slot, st)
            return
        f = parts[-1]
        if c.kind != "obj":
            return
        cur = c.fields.get(f)
        if cur is None and c.lazy:
            cur = self.getattr(slot, f, st, node)
            c = st.wcell(slot)
        if isinstance(cur, Ref):
            self.havoc_ref(cur, st)
        elif isinstance(cur, Val):
            if cur.tag in ("i", "b", "s"):
                c.fields[f] = Val(cur.tag, fresh(f"havoc_{f}", {"i": IntS, "b": BoolS, "s": StrS}[cur.tag]))
            else:
                c.fields[f] = Val("any", fresh(f"havoc_{f}", Any))

    def havoc_ref(self, ref, st):
        c = st.wcell(ref)
        if c.kind == "obj":
            for f in list(c.fields):
                if isinstance(c.fields[f], Val):
                    c.fields[f] = Val("any", fresh(f"havoc_{f}", Any))
            return
        tag = c.val.tag
        from .sym import PAYLOAD_SORT
        c.val = Val(tag, fresh("havoc", PAYLOAD_SORT[tag]))

    def eval_clause(self, cl, bound, st: State, pre: State | None, extra: dict):
        """Evaluate a contract clause (its own Python text) to a Bool term over the given bindings."""
        fn = cl.ast
        sub = st.fork()
        sub.vars = {}
        for p in cl.params:
            if p == "old":
                continue
            if p in extra:
                sub.vars[p] = extra[p]
            elif p in bound:
                sub.vars[p] = bound[p]
            elif p == "ghost":
                sub.vars[p] = PyConst(st.log, "ghost")
            else:
                self.oos(f"clause {cl.name}: unknown parameter {p}", None)
        saved = (self.old_state, self.mod, self.guards, self.pending, self.contract_mod(cl))
        self.old_state = pre
        self.guards = []
        self.pending = []
        self.mod = saved[4] or self.mod
        self.depth += 1
        try:
            outs = self.exec_block(source.strip_docstring(fn.body), sub)
            outs = outs + [o for o in self.pending]
        finally:
            self.old_state, self.mod, self.guards, self.pending = saved[0], saved[1], saved[2], saved[3]
            self.depth -= 1
        res = z3.BoolVal(False)
        n0 = len(st.pc)
        for o in outs:
            if o.sig != "return":
                continue  # an exception inside a clause makes the clause false on that path
            cond = z3.And(*o.state.pc[n0:]) if len(o.state.pc) > n0 else z3.BoolVal(True)
            res = z3.Or(res, z3.And(cond, self.truth(o.payload, o.state)))
        return z3.simplify(res)

    def contract_mod(self, cl):
        m = getattr(cl, "module", None)
        return source.load_module(m) if m else None

    # ------------------------------------------------------------------------------------------
    # methods
    def call_method(self, recv, name, node, st, pre_args=None):
        args, kwargs = pre_args if pre_args is not None else self.eval_args(node, st)
        if isinstance(recv, Ref):
            c = st.cell(recv)
            if c.kind == "obj":
                if name in c.fields and not isinstance(c.fields[name], Val):
                    return self.call_value(c.fields[name], args, kwargs, st, node)
                cref = self.class_of(c)
                if cref is not None:
                    m = self.find_method(cref, name)
                    if m is not None:
                        return self.call_function(m, [recv] + args, kwargs, st, node)
                hint = c.cls if isinstance(c.cls, str) else None
                cands = lookup_by_method(name)
                if hint:
                    cands = [x for x in cands if x.qual.endswith(f":{hint}.{name}") or x.qual.endswith(f".{hint}.{name}")] or cands
                if len(cands) == 1:
                    fm = source.find_function(cands[0].qual) if not cands[0].abstract or source.load_module(cands[0].qual.split(":")[0]) else None
                    mod, cls, fn = fm
                    bound = self.bind_params(fn, [recv] + args, kwargs, st, node, mod)
                    return self.apply_contract(cands[0], bound, st, node, cands[0].qual)
                if name in c.fields:
                    return self.opaque_call(f"{c.path or 'obj'}.{name}", args, kwargs, st, node)  # calling a callable stored in a field
                return self.opaque_call(f"{c.path or 'obj'}.{name}", args, kwargs, st, node)
            return self.container_method(recv, name, args, kwargs, st, node)
        if isinstance(recv, ModuleRef):
            saved = self.mod
            self.mod = source.load_module(recv.dotted)
            try:
                r = self.resolve_global(name)
            finally:
                self.mod = saved
            if r is None:
                return self.opaque_call(f"{recv.dotted}.{name}", args, kwargs, st, node)
            return self.call_value(r, args, kwargs, st, node)
        if isinstance(recv, ExtRef):
            return self.ext_call(f"{recv.dotted}.{name}", args, kwargs, st, node)
        if isinstance(recv, ClassRef):
            if recv.node is not None:
                m = self.find_method(recv, name)
                if m is not None:
                    decos = [d.id for d in m.node.decorator_list if isinstance(d, ast.Name)]
                    if "staticmethod" in decos:
                        return self.call_function(m, args, kwargs, st, node)
                    if "classmethod" in decos:
                        return self.call_function(m, [recv] + args, kwargs, st, node)
                    return self.call_function(m, args, kwargs, st, node)
            return self.opaque_call(f"{recv.qual}.{name}", args, kwargs, st, node)
        if isinstance(recv, Exc):
            return self.opaque_call(f"exc.{name}", args, kwargs, st, node)
        if isinstance(recv, PyConst):
            return self.const_method(recv, name, args, kwargs, st, node)
        if isinstance(recv, Tup):
            if name == "index" or name == "count":
                return self.value_method(self.as_val(recv, st, node), name, args, kwargs, st, node)
            self.oos(f"tuple method {name}", node)
        if isinstance(recv, Val):
            return self.value_method(recv, name, args, kwargs, st, node)
        self.oos(f"method {name} on {recv!r}", node)

    def ext_call(self, dotted, args, kwargs, st, node):
        m = getattr(self, "x_" + dotted.replace(".", "_"), None)
        if m is not None:
            return m(args, kwargs, st, node)
        return self.opaque_call(dotted, args, kwargs, st, node)

    def x_re_sub(self, args, kwargs, st, node):
        from . import stdlib_model as M
        pat, rep, subj = [self.as_val(a, st, node) for a in args[:3]]
        ps, rs = z3.simplify(pat.e), z3.simplify(rep.e)
        if pat.tag == "s" and rep.tag == "s" and z3.is_string_value(ps) and z3.is_string_value(rs):
            return M.re_sub(self, ps.as_string(), rs.as_string(), self.need(subj, "s", st, node), st)
        return self.opaque_call("re.sub", args, kwargs, st, node)

    def x_keyword_iskeyword(self, args, kwargs, st, node):
        from . import stdlib_model as M
        return M.iskeyword(self, self.need(self.as_val(args[0], st, node), "s", st, node), st)

    def x_os_environ_get(self, args, kwargs, st, node):
        """os.environ.get(name, default): the environment is an unknown but fixed map (uninterpreted env.set / env.val)."""
        k = self.need(self.as_val(args[0], st, node), "s", st, node)
        dflt = self.as_val(args[1], st, node) if len(args) > 1 else VNone
        is_set = z3.Function("env.set", StrS, BoolS)(k)
        val = z3.Function("env.val", StrS, StrS)(k)
        return ite_val(is_set, VStr(val), dflt)

    def const_method(self, recv: PyConst, name, args, kwargs, st, node):
        obj = recv.obj
        if isinstance(obj, dict):
            if name == "get":
                k = self.as_val(args[0], st, node)
                dflt = self.as_val(args[1], st, node) if len(args) > 1 else VNone
                out = dflt
                for kk, vv in reversed(list(obj.items())):
                    out = ite_val(py_eq(k, const_to_val(kk)), self.pyconst_val(vv), out)
                return out
            if name == "items":
                return Tup([Tup([self.pyconst_val(k), self.pyconst_val(v)]) for k, v in obj.items()])
            if name == "keys":
                return Tup([self.pyconst_val(k) for k in obj])
            if name == "values":
                return Tup([self.pyconst_val(v) for v in obj.values()])
        if isinstance(obj, str):
            return self.value_method(VStr(obj), name, args, kwargs, st, node)
        self.oos(f"method {name} of constant {recv.origin}", node)

    def container_method(self, ref: Ref, name, args, kwargs, st, node):
        c = st.cell(ref)
        sa = self.opts.get("site_asserts", {}).get(ast.unparse(node.func)) if isinstance(node, ast.Call) else None
        if sa is not None and self.depth == 0:
            from .contracts import Clause
            cl = sa if isinstance(sa, Clause) else Clause("site_" + ast.unparse(node.func).replace(".", "_"), sa, "ensures")
            bound = dict(st.vars)
            bound["arg0"] = args[0] if args else VNone
            goal = self.eval_clause(cl, bound, st, self.entry_pre, {})
            k_ = sum(1 for o in self.obligations if "::site:" in o.id and ast.unparse(node.func) in o.id)
            g_ = self.guard_cond()
            self.obligations.append(Obligation(f"{getattr(self, 'fn_site', self.fn_qual)}::site:{ast.unparse(node.func)}#{k_}", "assert",
                                               list(st.pc) + ([g_] if g_ is not None else []), goal, {"line": getattr(node, "lineno", 0), "clause": cl.name}))
        if name in MUTATORS:
            if c.frozen:
                self.oos(f"mutation ({name}) of a container that was stored by value elsewhere (aliasing)", node)
            g = self.guard_cond()
            old = c.val
            new, ret = self.mutate(c.kind, old, name, args, kwargs, st, node)
            if g is not None:
                new = ite_val(g, new, old)
            st.wcell(ref).val = new
            return ret
        return self.value_method(c.val, name, args, kwargs, st, node)

    def mutate(self, kind, v: Val, name, args, kwargs, st, node):
        if kind == "dict":
            d = v.e
            if name == "update":
                if args:
                    o = self.as_val(args[0], st, node)
                    d = self.dict_merge(d, self.need(o, "d", st, node))
                for k, x in kwargs.items():
                    if k == "**":
                        d = self.dict_merge(d, self.need(x, "d", st, node))
                    else:
                        self.store_escape(x, st)
                        d = z3.Store(d, z3.StringVal(k), self.as_val(x, st, node).any())
                return Val("d", d), VNone
            if name == "pop":
                k = self.need(self.as_val(args[0], st, node), "s", st, node)
                cur = z3.Select(d, k)
                if len(args) > 1:
                    ret = ite_val(cur == ABSENT, self.as_val(args[1], st, node), from_any(cur))
                else:
                    self.may_raise(st, cur == ABSENT, Exc("KeyError"), node)
                    ret = from_any(cur)
                return Val("d", z3.Store(d, k, ABSENT)), ret
            if name == "setdefault":
                k = self.need(self.as_val(args[0], st, node), "s", st, node)
                dv = self.as_val(args[1], st, node) if len(args) > 1 else VNone
                cur = z3.Select(d, k)
                nv = z3.If(cur == ABSENT, dv.any(), cur)
                return Val("d", z3.Store(d, k, nv)), from_any(nv)
            if name == "clear":
                return Val("d", EMPTY_DICT), VNone
        if kind == "list":
            l = v.e
            if name == "append":
                self.store_escape(args[0], st)
                return Val("l", z3.Concat(l, z3.Unit(self.as_val(args[0], st, node).any()))), VNone
            if name == "extend":
                o = self.as_val(args[0], st, node)
                return Val("l", z3.Concat(l, self.need(o, "l", st, node))), VNone
            if name == "insert":
                i = self.need_int(self.as_val(args[0], st, node), st, node)
                x = self.as_val(args[1], st, node).any()
                n = z3.Length(l)
                i = z3.If(i < 0, z3.If(i + n < 0, z3.IntVal(0), i + n), z3.If(i > n, n, i))
                return Val("l", z3.Concat(z3.Extract(l, z3.IntVal(0), i), z3.Unit(x), z3.Extract(l, i, n - i))), VNone
            if name == "remove":
                x = z3.Unit(self.as_val(args[0], st, node).any())
                i = z3.IndexOf(l, x, 0)
                self.may_raise(st, i < 0, Exc("ValueError", origin="list.remove"), node)
                n = z3.Length(l)
                return Val("l", z3.Concat(z3.Extract(l, z3.IntVal(0), i), z3.Extract(l, i + 1, n - i - 1))), VNone
            if name == "pop":
                n = z3.Length(l)
                self.may_raise(st, n == 0, Exc("IndexError"), node)
                if args:
                    i = self.need_int(self.as_val(args[0], st, node), st, node)
                    i = z3.If(i < 0, i + n, i)
                    self.may_raise(st, z3.Or(i < 0, i >= n), Exc("IndexError"), node)
                else:
                    i = n - 1
                return Val("l", z3.Concat(z3.Extract(l, z3.IntVal(0), i), z3.Extract(l, i + 1, n - i - 1))), from_any(l[i])
            if name == "clear":
                return Val("l", EMPTY_LIST), VNone
        if kind == "set" and (v.tag == "sti" or (v.tag == "st" and v.e.eq(EMPTY_SET) and args and self._int_elems(args[0], st, node))):
            s = v.e if v.tag == "sti" else EMPTY_ISET
            if name == "add":
                k = self.need_int(self.as_val(args[0], st, node), st, node)
                return Val("sti", z3.Store(s, k, z3.BoolVal(True))), VNone
            if name == "update":
                o = self.as_val(args[0], st, node)
                kk = z3.Const("k!siu", IntS)
                if o.tag == "sti":
                    return Val("sti", z3.SetUnion(s, o.e)), VNone
                l_ = self.need(o, "l", st, node)
                # new = old ∪ ints(l) with ints(.) the uninterpreted "set of the ints of a list" (built-in set algebra, no quantifiers)
                return Val("sti", z3.SetUnion(s, z3.Function("py.iset_of_list", ListS, ISetS)(l_))), VNone
            if name == "discard":
                k = self.need_int(self.as_val(args[0], st, node), st, node)
                return Val("sti", z3.Store(s, k, z3.BoolVal(False))), VNone
            if name == "remove":
                k = self.need_int(self.as_val(args[0], st, node), st, node)
                self.may_raise(st, z3.Not(z3.Select(s, k)), Exc("KeyError"), node)
                return Val("sti", z3.Store(s, k, z3.BoolVal(False))), VNone
            if name == "clear":
                return Val("sti", EMPTY_ISET), VNone
            self.oos(f"int-set mutator {name}", node)
        if kind == "set":
            s = v.e
            if name == "add":
                k = self.need(self.as_val(args[0], st, node), "s", st, node)
                return Val("st", z3.Store(s, k, z3.BoolVal(True))), VNone
            if name == "discard":
                k = self.need(self.as_val(args[0], st, node), "s", st, node)
                return Val("st", z3.Store(s, k, z3.BoolVal(False))), VNone
            if name == "remove":
                k = self.need(self.as_val(args[0], st, node), "s", st, node)
                self.may_raise(st, z3.Not(z3.Select(s, k)), Exc("KeyError"), node)
                return Val("st", z3.Store(s, k, z3.BoolVal(False))), VNone
            if name == "update":
                o = self.as_val(args[0], st, node)
                if o.tag == "st":
                    return Val("st", z3.SetUnion(s, o.e)), VNone
                if o.tag in ("l", "any"):
                    l_ = self.need(o, "l", st, node)
                    return Val("st", z3.SetUnion(s, self.sset_of_list(l_, st))), VNone
            if name == "clear":
                return Val("st", EMPTY_SET), VNone
        self.oos(f"mutator {kind}.{name}", node)

    def _int_elems(self, a, st, node):
        """does this argument (an element, or a list for update) carry ints?  (decides the representation of a fresh set)"""
        v = self.as_val(a, st, node)
        if v.tag == "i" or v.tag == "sti":
            return True
        hints = self.opts.get("int_lists", ())
        return v.tag == "l" and any(h in v.e.sexpr()[:400] for h in hints)

    def value_method(self, v: Val, name, args, kwargs, st, node):
        t = v.tag
        if t in ("any", "o"):
            cands = lookup_by_method(name)
            cands = [x for x in cands if x.opts.get("on_opaque", False)]
            if len(cands) == 1:
                mod, cls, fn = source.find_function(cands[0].qual)
                bound = self.bind_params(fn, [v] + args, kwargs, st, node, mod)
                return self.apply_contract(cands[0], bound, st, node, cands[0].qual)
        if t == "any":
            if name in STR_METHODS_ON_ANY and name not in ("get",):
                e = self.need(v, "s", st, node)
                return self.str_method(VStr(e), name, args, kwargs, st, node)
            if name in DICT_METHODS_ON_ANY:
                e = self.need(v, "d", st, node)
                return self.value_method(Val("d", e), name, args, kwargs, st, node)
            rn = ast.unparse(node.func) if isinstance(node, ast.Call) else name
            return self.opaque_call(rn, args, kwargs, st, node, recv=v)
        if t == "o":
            rn = ast.unparse(node.func) if isinstance(node, ast.Call) else name
            return self.opaque_call(rn, args, kwargs, st, node, recv=v)
        if t == "s":
            return self.str_method(v, name, args, kwargs, st, node)
        if t == "d":
            d = v.e
            if name == "get":
                k = self.as_val(args[0], st, node)
                dflt = args[1] if len(args) > 1 else kwargs.get("default", VNone)
                if k.tag not in ("s", "any"):
                    return dflt
                ks = k.e if k.tag == "s" else acc("s")(k.e)
                cur = z3.Select(d, ks)
                missing = cur == ABSENT if k.tag == "s" else z3.Or(z3.Not(recog("s")(k.e)), cur == ABSENT)
                return self.ite_slot(missing, dflt, from_any(cur), st, node)
            if name == "copy":
                return st.new(Cell("dict", val=Val("d", d)))
            if name in ("items", "keys", "values"):
                return ("dictview", name, v)
        if t == "l":
            l = v.e
            if name == "index":
                x = z3.Unit(self.as_val(args[0], st, node).any())
                i = z3.IndexOf(l, x, 0)
                self.may_raise(st, i < 0, Exc("ValueError", origin="list.index"), node)
                return VInt(i)
            if name == "copy":
                return self.mk_list(st, Val("l", l))
            if name == "count":
                self.oos("list.count", node)
        if t == "st":
            if name == "copy":
                return st.new(Cell("set", val=Val("st", v.e)))
            if name in ("union", "intersection", "difference"):
                o = self.need(self.as_val(args[0], st, node), "st", st, node)
                body = {"union": z3.SetUnion, "intersection": z3.SetIntersect, "difference": z3.SetDifference}[name](v.e, o)
                return st.new(Cell("set", val=Val("st", body)))
        if name in MUTATORS:
            self.oos(f"mutation ({name}) of a container value that is not a local reference", node)
        self.oos(f"method {t}.{name}", node)

    # strings ------------------------------------------------------------------------------------
    def str_method(self, v: Val, name, args, kwargs, st, node):
        s = v.e
        A = [self.as_val(a, st, node) for a in args if not isinstance(a, Tup)] if not any(isinstance(a, Tup) for a in args) else None
        # constant folding: a method of a concrete string with concrete arguments is evaluated by CPython itself
        ss = z3.simplify(s)
        if A is not None and z3.is_string_value(ss) and not kwargs and name not in ("join", "format", "encode"):
            conc = []
            for a in A:
                ae = z3.simplify(a.e) if a.e is not None else None
                if a.tag == "s" and z3.is_string_value(ae):
                    conc.append(ae.as_string())
                elif a.tag == "i" and z3.is_int_value(ae):
                    conc.append(ae.as_long())
                elif a.tag == "none":
                    conc.append(None)
                else:
                    conc = None
                    break
            if conc is not None:
                try:
                    r = getattr(ss.as_string(), name)(*conc)
                    if isinstance(r, (str, bool, int)):
                        return const_to_val(r)
                    if isinstance(r, list):
                        return self.mk_list(st, const_to_val(r))
                except Exception:  # noqa
                    pass
        A = [self.as_val(a, st, node) for a in args]
        if name in ("startswith", "endswith"):
            fn = z3.PrefixOf if name == "startswith" else z3.SuffixOf
            a0 = args[0]
            if isinstance(a0, Tup):
                return VBool(z3.Or(*[fn(self.need(self.as_val(x, st, node), "s", st, node), s) for x in a0.items]))
            return VBool(fn(self.need(A[0], "s", st, node), s))
        if name == "replace":
            if len(A) > 2:
                self.oos("str.replace with count", node)
            a, b = self.need(A[0], "s", st, node), self.need(A[1], "s", st, node)
            f = z3.Function("py.replace", StrS, StrS, StrS, StrS)
            return VStr(f(s, a, b))
        if name == "find":
            return VInt(z3.IndexOf(s, self.need(A[0], "s", st, node), 0 if len(A) < 2 else self.need_int(A[1], st, node)))
        if name == "removeprefix":
            p = self.need(A[0], "s", st, node)
            return VStr(z3.If(z3.PrefixOf(p, s), z3.SubString(s, z3.Length(p), z3.Length(s) - z3.Length(p)), s))
        if name == "removesuffix":
            p = self.need(A[0], "s", st, node)
            return VStr(z3.If(z3.And(z3.SuffixOf(p, s), z3.Length(p) > 0), z3.SubString(s, 0, z3.Length(s) - z3.Length(p)), s))
        if name == "join":
            a0 = args[0]
            if isinstance(a0, Tup):
                e = z3.StringVal("")
                for k, it in enumerate(a0.items):
                    if k:
                        e = z3.Concat(e, s)
                    e = z3.Concat(e, self.need(self.as_val(it, st, node), "s", st, node))
                return VStr(e)
            if A and A[0].tag == "st" and hasattr(self, "unordered_iteration"):
                self.unordered_iteration(st, node, "join over a set")
            f = z3.Function("py.join", StrS, ListS, StrS)
            return VStr(f(s, self.need(A[0], "l", st, node)))
        if name == "strip" and len(A) == 1 and A[0].tag == "s" and z3.is_string_value(z3.simplify(A[0].e)):
            from . import stdlib_model as M
            return M.strip_chars(self, s, z3.simplify(A[0].e).as_string(), st)
        if name == "lower" and not A:
            from . import stdlib_model as M
            return M.lower(self, s, st)
        if name == "isdigit":
            from . import stdlib_model as M
            return M.isdigit(self, s, st)
        if name in ("lower", "upper", "strip", "lstrip", "rstrip", "capitalize", "title", "casefold"):
            if A:
                f = z3.Function("py." + name + "2", StrS, StrS, StrS)
                return VStr(f(s, self.need(A[0], "s", st, node)))
            f = z3.Function("py." + name, StrS, StrS)
            return VStr(f(s))
        if name in ("isdigit", "isidentifier", "isalpha", "isalnum", "isupper", "islower", "isspace"):
            f = z3.Function("py." + name, StrS, BoolS)
            return VBool(f(s))
        if name == "split" or name == "rsplit":
            sep = self.need(A[0], "s", st, node) if A and A[0].tag != "none" else None
            mx = None
            if len(A) > 1:
                mx = z3.simplify(self.need_int(A[1], st, node))
            if "maxsplit" in kwargs:
                mx = z3.simplify(self.need_int(self.as_val(kwargs["maxsplit"], st, node), st, node))
            if name == "split" and sep is not None and mx is not None and z3.is_int_value(mx) and mx.as_long() == 1:
                i = z3.IndexOf(s, sep, 0)
                head = z3.SubString(s, 0, i)
                tail = z3.SubString(s, i + z3.Length(sep), z3.Length(s))
                two = z3.Concat(z3.Unit(ctor("s")(head)), z3.Unit(ctor("s")(tail)))
                one = z3.Unit(ctor("s")(s))
                return self.mk_list(st, Val("l", z3.If(i >= 0, two, one)))
            f = z3.Function("py." + name, StrS, StrS, ListS)
            return self.mk_list(st, Val("l", f(s, sep if sep is not None else z3.StringVal("<ws>"))))
        if name == "splitlines":
            f = z3.Function("py.splitlines", StrS, ListS)
            return self.mk_list(st, Val("l", f(s)))
        if name == "format":
            return VStr(fresh("format", StrS))
        if name == "encode":
            return Val("any", z3.Function("py.encode", StrS, Any)(s))
        if name == "count":
            return VInt(z3.Function("py.count", StrS, StrS, IntS)(s, self.need(A[0], "s", st, node)))
        self.oos(f"str.{name}", node)

    # ------------------------------------------------------------------------------------------
    # builtins
    def b_len(self, args, kwargs, st, node):
        a = args[0]
        if isinstance(a, Tup):
            return VInt(len(a.items))
        if isinstance(a, PyConst):
            return VInt(len(a.obj))
        if isinstance(a, tuple) and a and a[0] == "dictview":
            a = a[2]
        v = self.as_val(a, st, node)
        if v.tag in ("s", "l"):
            return VInt(z3.Length(v.e))
        if v.tag == "d":
            f = z3.Function("py.dictlen", DictS, IntS)
            st.assume(f(v.e) >= 0)
            st.assume((f(v.e) == 0) == (v.e == EMPTY_DICT))
            return VInt(f(v.e))
        if v.tag == "st":
            f = z3.Function("py.setlen", SetS, IntS)
            st.assume(f(v.e) >= 0)
            st.assume((f(v.e) == 0) == (v.e == EMPTY_SET))
            return VInt(f(v.e))
        if v.tag == "any":
            a_ = v.e
            self.may_raise(st, z3.Not(z3.Or(recog("s")(a_), recog("l")(a_), recog("d")(a_), recog("st")(a_))), Exc("TypeError", origin="len"), node)
            fd = z3.Function("py.dictlen", DictS, IntS)
            fs = z3.Function("py.setlen", SetS, IntS)
            st.assume(fd(acc("d")(a_)) >= 0)
            st.assume(fs(acc("st")(a_)) >= 0)
            return VInt(z3.If(recog("s")(a_), z3.Length(acc("s")(a_)), z3.If(recog("l")(a_), z3.Length(acc("l")(a_)),
                                                                            z3.If(recog("d")(a_), fd(acc("d")(a_)), fs(acc("st")(a_))))))
        self.oos(f"len of {v.tag}", node)

    def b_str(self, args, kwargs, st, node):
        if not args:
            return VStr("")
        return VStr(self.to_str(self.as_val(args[0], st, node), st, node))

    def b_repr(self, args, kwargs, st, node):
        return VStr(self.to_repr(self.as_val(args[0], st, node), st))

    def b_int(self, args, kwargs, st, node):
        v = self.as_val(args[0], st, node)
        if v.tag in ("i", "b"):
            return VInt(self.need_int(v, st, node))
        if v.tag == "s":
            # int(str): succeeds iff optional sign + digits (ASCII; surrounding whitespace / underscores / non-ASCII
            # digits are accepted by CPython too — those inputs take the "may raise or return unknown" branch)
            digits = z3.InRe(v.e, z3.Plus(z3.Range("0", "9")))
            ok = fresh("int_ok", BoolS)
            res = fresh("int_res", IntS)
            st.assume(z3.Implies(digits, z3.And(ok, res == z3.StrToInt(v.e))))
            st.assume(z3.Implies(z3.Length(v.e) == 0, z3.Not(ok)))
            self.may_raise(st, z3.Not(ok), Exc("ValueError", origin="int()"), node)
            return VInt(res)
        ok = fresh("int_ok", BoolS)
        if v.tag == "any":
            res = fresh("int_res", IntS)
            st.assume(z3.Implies(recog("i")(v.e), z3.And(ok, res == acc("i")(v.e))))
            sv_ = acc("s")(v.e)
            st.assume(z3.Implies(z3.And(recog("s")(v.e), z3.InRe(sv_, z3.Plus(z3.Range("0", "9")))), z3.And(ok, res == z3.StrToInt(sv_))))
            self.may_raise(st, z3.Not(ok), Exc(None, origin="int()"), node)
            return VInt(res)
        self.may_raise(st, z3.Not(ok), Exc(None, origin="int()"), node)
        return VInt(fresh("int_res", IntS))

    def b_bool(self, args, kwargs, st, node):
        if not args:
            return VBool(False)
        return VBool(self.truth(args[0], st, node))

    def b_float(self, args, kwargs, st, node):
        return self.opaque_call("builtins.float", args, kwargs, st, node)

    def b_dict(self, args, kwargs, st, node):
        e = EMPTY_DICT
        if args:
            a = args[0]
            if isinstance(a, tuple) and a and a[0] == "dictview":
                self.oos("dict(view)", node)
            v = self.as_val(a, st, node)
            e = self.need(v, "d", st, node)
        for k, x in kwargs.items():
            if k == "**":
                e = self.dict_merge(e, self.need(x, "d", st, node))
            else:
                self.store_escape(x, st)
                e = z3.Store(e, z3.StringVal(k), self.as_val(x, st, node).any())
        return st.new(Cell("dict", val=Val("d", e)))

    def b_list(self, args, kwargs, st, node):
        if not args:
            return self.mk_list(st, Val("l", EMPTY_LIST))
        a = args[0]
        if isinstance(a, tuple) and a and a[0] == "dictview":
            kind, d = a[1], a[2]
            ks = self.dict_keyseq(d, st)
            if kind == "keys":
                return self.mk_list(st, Val("l", ks))
            self.oos("list(dict.items()/values())", node)
        v = self.as_val(a, st, node)
        if v.tag == "d":
            return self.mk_list(st, Val("l", self.dict_keyseq(v, st)))
        if v.tag == "st":
            return self.mk_list(st, Val("l", self.set_seq(v, st)))
        return self.mk_list(st, Val("l", self.need(v, "l", st, node)))

    b_tuple = b_list

    def dict_keyseq(self, d: Val, st):
        """Insertion-ordered key sequence of a dict: abstract Seq with  distinct ∧ (k ∈ ks ⇔ k present)."""
        f = z3.Function("py.keys", DictS, ListS)
        ks = f(d.e)
        if self.opts.get("abstract_comprehensions"):
            return ks
        i, j = z3.Const("i!ks", IntS), z3.Const("j!ks", IntS)
        k = z3.Const("k!ks", StrS)
        n = z3.Length(ks)
        self.axiom(z3.ForAll([i], z3.Implies(z3.And(i >= 0, i < n), z3.And(recog("s")(ks[i]), z3.Select(d.e, acc("s")(ks[i])) != ABSENT))))
        self.axiom(z3.ForAll([k], z3.Implies(z3.Select(d.e, k) != ABSENT, z3.Contains(ks, z3.Unit(ctor("s")(k))))))
        self.axiom(z3.ForAll([i, j], z3.Implies(z3.And(i >= 0, i < j, j < n), ks[i] != ks[j])))
        idx = z3.IndexOf(ks, z3.Unit(ctor("s")(k)), 0)
        self.axiom(z3.ForAll([k], z3.Implies(z3.Select(d.e, k) != ABSENT, z3.And(0 <= idx, idx < n, ks[idx] == ctor("s")(k)))))
        return ks

    def set_seq(self, s: Val, st, ordered=False):
        f = z3.Function("py.sorted_set" if ordered else "py.iter_set", SetS, ListS)
        ks = f(s.e)
        if self.opts.get("abstract_comprehensions"):
            return ks
        i, j = z3.Const("i!ss", IntS), z3.Const("j!ss", IntS)
        k = z3.Const("k!ss", StrS)
        n = z3.Length(ks)
        self.axiom(z3.ForAll([i], z3.Implies(z3.And(i >= 0, i < n), z3.And(recog("s")(ks[i]), z3.Select(s.e, acc("s")(ks[i]))))))
        self.axiom(z3.ForAll([k], z3.Implies(z3.Select(s.e, k), z3.Contains(ks, z3.Unit(ctor("s")(k))))))
        if ordered:
            self.axiom(z3.ForAll([i, j], z3.Implies(z3.And(i >= 0, i < j, j < n), acc("s")(ks[i]) < acc("s")(ks[j]))))
        else:
            self.axiom(z3.ForAll([i, j], z3.Implies(z3.And(i >= 0, i < j, j < n), ks[i] != ks[j])))
        return ks

    def sset_of_list(self, l, st):
        """the set of the strings of a list: uninterpreted, with its defining membership axiom and sset([]) = {}"""
        f = z3.Function("py.sset_of_list", ListS, SetS)
        r = f(l)
        k = z3.Const("k!sl", StrS)
        self.axiom(z3.Implies(z3.Length(l) == 0, r == EMPTY_SET))
        self.axiom(z3.ForAll([k], z3.Select(r, k) == z3.Contains(l, z3.Unit(ctor("s")(k)))))
        return r

    def b_set(self, args, kwargs, st, node):
        if not args:
            return st.new(Cell("set", val=Val("st", EMPTY_SET)))
        a = args[0]
        if isinstance(a, Tup):
            e = EMPTY_SET
            for x in a.items:
                e = z3.Store(e, self.need(self.as_val(x, st, node), "s", st, node), z3.BoolVal(True))
            return st.new(Cell("set", val=Val("st", e)))
        v = self.as_val(a, st, node)
        if v.tag == "st":
            return st.new(Cell("set", val=v))
        if v.tag == "l":
            return st.new(Cell("set", val=Val("st", self.sset_of_list(v.e, st))))
        if v.tag == "any":
            # set(x) of a dynamically typed iterable: a list of strings is the case that occurs (e.g. a `required` array)
            self.may_raise(st, z3.Not(recog("l")(v.e)), Exc("TypeError", origin="set() of non-list"), node)
            return st.new(Cell("set", val=Val("st", self.sset_of_list(acc("l")(v.e), st))))
        if v.tag == "d":
            k = z3.Const("k!ds", StrS)
            return st.new(Cell("set", val=Val("st", z3.Lambda([k], z3.Select(v.e, k) != ABSENT))))
        self.oos(f"set({v.tag})", node)

    b_frozenset = b_set

    def b_sorted(self, args, kwargs, st, node):
        if "key" in kwargs:
            return self.opaque_sorted(args, kwargs, st, node)
        a = args[0]
        if isinstance(a, tuple) and a and a[0] == "dictview" and a[1] == "keys":
            a = self.b_set([a[2]], {}, st, node)
        v = self.as_val(a, st, node)
        if v.tag == "sti":
            f = z3.Function("py.sorted_iset", ISetS, ListS)
            ks = f(v.e)
            i, j, k = z3.Const("i!si", IntS), z3.Const("j!si", IntS), z3.Const("k!si", IntS)
            n = z3.Length(ks)
            st.assume(z3.ForAll([i], z3.Implies(z3.And(i >= 0, i < n), z3.And(recog("i")(ks[i]), z3.Select(v.e, acc("i")(ks[i]))))))
            st.assume(z3.ForAll([k], z3.Implies(z3.Select(v.e, k), z3.Contains(ks, z3.Unit(ctor("i")(k))))))
            st.assume(z3.ForAll([i, j], z3.Implies(z3.And(i >= 0, i < j, j < n), acc("i")(ks[i]) < acc("i")(ks[j]))))
            st.assume(z3.Function("py.iset_of_list", ListS, ISetS)(ks) == v.e)
            return self.mk_list(st, Val("l", ks))
        if v.tag == "st":
            return self.mk_list(st, Val("l", self.set_seq(v, st, ordered=True)))
        if v.tag == "d":
            sv = st.cell(self.b_set([v], {}, st, node)).val
            return self.mk_list(st, Val("l", self.set_seq(sv, st, ordered=True)))
        if v.tag == "l":
            f = z3.Function("py.sorted", ListS, ListS)
            r = f(v.e)
            if self.opts.get("abstract_comprehensions"):
                return self.mk_list(st, Val("l", r))
            x = z3.Const("x!srt", Any)
            st.assume(z3.Length(r) == z3.Length(v.e))
            st.assume(z3.ForAll([x], z3.Contains(r, z3.Unit(x)) == z3.Contains(v.e, z3.Unit(x))))
            return self.mk_list(st, Val("l", r))
        self.oos(f"sorted({v.tag})", node)

    def opaque_sorted(self, args, kwargs, st, node):
        v = self.as_val(args[0], st, node)
        if v.tag != "l":
            self.oos("sorted(key=) of non-list", node)
        r = fresh("sorted_key", ListS)
        if self.opts.get("abstract_comprehensions"):
            return self.mk_list(st, Val("l", r))
        x = z3.Const("x!srt", Any)
        st.assume(z3.Length(r) == z3.Length(v.e))
        st.assume(z3.ForAll([x], z3.Contains(r, z3.Unit(x)) == z3.Contains(v.e, z3.Unit(x))))
        return self.mk_list(st, Val("l", r))

    def b_max(self, args, kwargs, st, node):
        return self._minmax(args, st, node, True)

    def b_min(self, args, kwargs, st, node):
        return self._minmax(args, st, node, False)

    def _minmax(self, args, st, node, is_max):
        if len(args) == 1 and isinstance(args[0], Tup):
            args = args[0].items
        if len(args) < 2:
            self.oos("max/min of a sequence", node)
        cur = self.need_int(self.as_val(args[0], st, node), st, node)
        for a in args[1:]:
            x = self.need_int(self.as_val(a, st, node), st, node)
            cur = z3.If(x > cur, x, cur) if is_max else z3.If(x < cur, x, cur)
        return VInt(cur)

    def b_abs(self, args, kwargs, st, node):
        x = self.need_int(self.as_val(args[0], st, node), st, node)
        return VInt(z3.If(x < 0, -x, x))

    def b_cast(self, args, kwargs, st, node):
        return args[1]

    def b_id(self, args, kwargs, st, node):
        return VInt(fresh("id", IntS))

    def b_isinstance(self, args, kwargs, st, node):
        x, t = args
        ts = t.items if isinstance(t, Tup) else [t]
        cs = [self.isinstance1(x, tt, st, node) for tt in ts]
        return VBool(z3.simplify(z3.Or(*cs)))

    def isinstance1(self, x, t, st, node):
        if isinstance(x, Ref):
            c = st.cell(x)
            if c.kind != "obj":
                want = {"dict": "dict", "list": "list", "set": "set"}
                if isinstance(t, Builtin):
                    return z3.BoolVal(want.get(t.name) == c.kind or (t.name == "object"))
                if isinstance(t, ExtRef):
                    nm = t.dotted.split(".")[-1]
                    return z3.BoolVal({"Mapping": "dict", "Dict": "dict", "List": "list", "Sequence": "list", "Set": "set", "MutableMapping": "dict"}.get(nm) == c.kind)
                return z3.BoolVal(False)
            if isinstance(t, ClassRef):
                cref = self.class_of(c)
                if cref is not None:
                    return z3.BoolVal(t.name in self.class_chain(cref))
                if isinstance(c.cls, str):
                    return z3.BoolVal(c.cls == t.name) if c.cls == t.name else z3.Function("isinstance." + t.name, Any, BoolS)(self.as_val(x, st, node).any())
                return z3.Function("isinstance." + t.name, Any, BoolS)(self.as_val(x, st, node).any())
            if isinstance(t, Builtin):
                return z3.BoolVal(t.name == "object")
            return z3.BoolVal(False)
        if isinstance(x, Tup):
            return z3.BoolVal(isinstance(t, Builtin) and t.name == "tuple")
        if isinstance(x, Exc):
            if isinstance(t, ClassRef):
                r = self.exc_matches(x, [t.name])
                if r is None:  # exception of unknown class (raised by an opaque callee / merged exits)
                    return fresh("exc_isinstance_" + t.name, BoolS)
                return z3.BoolVal(bool(r))
        v = self.as_val(x, st, node)
        if isinstance(t, Builtin):
            tag = {"dict": "d", "list": "l", "str": "s", "bool": "b", "set": "st", "frozenset": "st"}.get(t.name)
            if t.name == "int":
                return z3.Or(v.is_tag("i"), v.is_tag("b"))
            if t.name == "tuple":
                return fresh("is_tuple", BoolS) if v.tag in ("any", "l") else z3.BoolVal(False)
            if t.name in ("float", "bytes"):
                return z3.And(v.is_tag("o"), z3.Function("isinstance." + t.name, Any, BoolS)(v.any()))
            if t.name == "object":
                return z3.BoolVal(True)
            if tag is None:
                self.oos(f"isinstance(_, {t.name})", node)
            return v.is_tag(tag)
        if isinstance(t, (ClassRef, ExtRef)):
            nm = t.name if isinstance(t, ClassRef) else t.dotted.split(".")[-1]
            alias = {"Mapping": "d", "Dict": "d", "List": "l", "MutableMapping": "d"}.get(nm)
            if alias:
                return v.is_tag(alias)
            if isinstance(t, ClassRef) and t.node is not None and source.class_is_enum(t.node):
                return z3.And(v.is_tag("s"), z3.PrefixOf(z3.StringVal(f"<{nm}."), v.payload("s"))) if v.tag in ("s", "any") else z3.BoolVal(False)
            if v.tag in ("o", "any"):
                return z3.And(v.is_tag("o"), z3.Function("isinstance." + nm, Any, BoolS)(v.any()))
            return z3.BoolVal(False)
        self.oos(f"isinstance second argument {t!r}", node)

    def b_hasattr(self, args, kwargs, st, node):
        x, n = args
        if isinstance(x, Ref) and isinstance(n, Val) and n.tag == "s" and z3.is_string_value(z3.simplify(n.e)):
            c = st.cell(x)
            nm = z3.simplify(n.e).as_string()
            if c.kind == "obj" and nm in c.fields:
                return VBool(True)
            if c.kind == "obj" and self.class_of(c) is not None and not c.lazy:
                return VBool(self.find_method(self.class_of(c), nm) is not None)
        if isinstance(n, Val) and n.tag == "s" and z3.is_string_value(z3.simplify(n.e)):
            # deterministic: an uninterpreted predicate of the object, per attribute name
            return VBool(z3.Function("hasattr." + z3.simplify(n.e).as_string(), Any, BoolS)(self.as_val(x, st, node).any()))
        return VBool(fresh("hasattr", BoolS))

    def b_getattr(self, args, kwargs, st, node):
        x, n = args[0], args[1]
        if isinstance(n, Val) and n.tag == "s" and z3.is_string_value(z3.simplify(n.e)):
            nm = z3.simplify(n.e).as_string()
            if isinstance(x, Ref) and st.cell(x).kind == "obj":
                c = st.cell(x)
                if nm in c.fields or c.lazy:
                    return self.getattr(x, nm, st, node)
                if len(args) > 2:
                    return args[2]
            if isinstance(x, Val) and x.tag in ("any", "o"):
                f = z3.Function("attr." + nm, Any, Any)
                if len(args) > 2:
                    has = fresh("hasattr", BoolS)
                    return self.ite_slot(has, Val("any", f(x.any())), args[2], st, node)
                return Val("any", f(x.any()))
        self.oos("getattr with dynamic name", node)

    def b_callable(self, args, kwargs, st, node):
        return VBool(fresh("callable", BoolS))

    def b_type(self, args, kwargs, st, node):
        return Val("any", z3.Function("py.type", Any, Any)(self.as_val(args[0], st, node).any()))

    def b_range(self, args, kwargs, st, node):
        A = [self.need_int(self.as_val(a, st, node), st, node) for a in args]
        if len(A) == 1:
            return ("range", z3.IntVal(0), A[0])
        if len(A) == 2:
            return ("range", A[0], A[1])
        self.oos("range with step", node)

    def b_enumerate(self, args, kwargs, st, node):
        return ("enumerate", args[0])

    def b_any(self, args, kwargs, st, node):
        return self._anyall(args, st, node, True)

    def b_all(self, args, kwargs, st, node):
        return self._anyall(args, st, node, False)

    def _anyall(self, args, st, node, is_any):
        a = args[0]
        if isinstance(a, Tup):
            cs = [self.truth(x, st, node) for x in a.items]
            if not cs:
                return VBool(not is_any)
            return VBool(z3.Or(*cs) if is_any else z3.And(*cs))
        v = self.as_val(a, st, node)
        l = self.need(v, "l", st, node)
        i = z3.Const("i!aa", IntS)
        body = truthy(Val("any", l[i]))
        rng = z3.And(i >= 0, i < z3.Length(l))
        return VBool(z3.Exists([i], z3.And(rng, body)) if is_any else z3.ForAll([i], z3.Implies(rng, body)))

    def b_next(self, args, kwargs, st, node):
        a = args[0]
        if isinstance(a, Tup):
            if a.items:
                return a.items[0]
            if len(args) > 1:
                return args[1]
            self.may_raise(st, True, Exc("StopIteration"), node)
            return VNone
        v = self.as_val(a, st, node)
        l = self.need(v, "l", st, node)
        if len(args) > 1:
            return self.ite_slot(z3.Length(l) > 0, from_any(l[0]), args[1], st, node)
        self.may_raise(st, z3.Length(l) == 0, Exc("StopIteration"), node)
        return from_any(l[0])

    def b_iter(self, args, kwargs, st, node):
        return args[0]

    def b_zip(self, args, kwargs, st, node):
        if all(isinstance(a, Tup) for a in args):
            n = min(len(a.items) for a in args)
            return Tup([Tup([a.items[k] for a in args]) for k in range(n)])
        self.oos("zip of symbolic sequences", node)

    def b_print(self, args, kwargs, st, node):
        return VNone

    def b_super(self, args, kwargs, st, node):
        self.oos("super() outside a direct method call", node)
