"""Specification helper functions usable inside contract clauses.

Each helper has a native definition (used by replay / the run-time monitor) and a symbolic twin (used by pyvc);
``selfcheck`` cross-checks the two on random inputs at start-up."""
from __future__ import annotations

import z3

from .sym import ABSENT, Any, DictS, EMPTY_DICT, ListS, StrS, Val, VBool, acc, ctor, recog


# native ---------------------------------------------------------------------------------------------
def implies(a, b):
    return (not a) or bool(b)


def dict_set(d, k, v):
    out = dict(d)
    out[k] = v
    return out


def dict_merge(a, b):
    out = dict(a)
    out.update(b)
    return out


def dict_without(d, k):
    out = dict(d)
    out.pop(k, None)
    return out


def sub_dict(d, key):
    """d[key] if it is a dict, else {} (the 'headers'/'params'/'cookies' sub-map of request args)."""
    v = d.get(key)
    return dict(v) if isinstance(v, dict) else {}


def remove_first(xs, x):
    out = list(xs)
    if x in out:
        out.remove(x)
    return out


def distinct(xs):
    return len(set(xs)) == len(xs)


NATIVE = {k: v for k, v in globals().items() if callable(v) and not k.startswith("_") and k not in ("Val", "VBool", "acc", "ctor", "recog")}


# symbolic -------------------------------------------------------------------------------------------
def _d(ex, v, st, node):
    return ex.need(ex.as_val(v, st, node), "d", st, node)


def s_implies(ex, args, kwargs, st, node):
    a, b = args
    return VBool(z3.Implies(ex.truth(a, st, node), ex.truth(b, st, node)))


def s_dict_set(ex, args, kwargs, st, node):
    d, k, v = args
    ks = ex.need(ex.as_val(k, st, node), "s", st, node)
    return Val("d", z3.Store(_d(ex, d, st, node), ks, ex.as_val(v, st, node).any()))


def s_dict_merge(ex, args, kwargs, st, node):
    a, b = args
    return Val("d", ex.dict_merge(_d(ex, a, st, node), _d(ex, b, st, node)))


def s_dict_without(ex, args, kwargs, st, node):
    d, k = args
    ks = ex.need(ex.as_val(k, st, node), "s", st, node)
    return Val("d", z3.Store(_d(ex, d, st, node), ks, ABSENT))


def s_sub_dict(ex, args, kwargs, st, node):
    d, k = args
    ks = ex.need(ex.as_val(k, st, node), "s", st, node)
    cur = z3.Select(_d(ex, d, st, node), ks)
    return Val("d", z3.If(recog("d")(cur), acc("d")(cur), EMPTY_DICT))


def s_remove_first(ex, args, kwargs, st, node):
    xs, x = args
    l = ex.need(ex.as_val(xs, st, node), "l", st, node)
    u = z3.Unit(ex.as_val(x, st, node).any())
    i = z3.IndexOf(l, u, 0)
    n = z3.Length(l)
    return Val("l", z3.If(i < 0, l, z3.Concat(z3.Extract(l, z3.IntVal(0), i), z3.Extract(l, i + 1, n - i - 1))))


def s_distinct(ex, args, kwargs, st, node):
    l = ex.need(ex.as_val(args[0], st, node), "l", st, node)
    i, j = z3.Const("i!dst", z3.IntSort()), z3.Const("j!dst", z3.IntSort())
    return VBool(z3.ForAll([i, j], z3.Implies(z3.And(0 <= i, i < j, j < z3.Length(l)), l[i] != l[j])))


SYMBOLIC = {
    "implies": s_implies, "dict_set": s_dict_set, "dict_merge": s_dict_merge, "dict_without": s_dict_without,
    "sub_dict": s_sub_dict, "remove_first": s_remove_first, "distinct": s_distinct,
}


# ---- typed-container predicates ---------------------------------------------------------------------
def is_str_dict(d):
    return isinstance(d, dict) and all(isinstance(k, str) and isinstance(v, str) for k, v in d.items())


def s_is_str_dict(ex, args, kwargs, st, node):
    v = ex.as_val(args[0], st, node)
    k = z3.Const("k!isd", StrS)
    d = v.payload("d")
    return VBool(z3.And(v.is_tag("d"), z3.ForAll([k], z3.Or(z3.Select(d, k) == ABSENT, recog("s")(z3.Select(d, k))))))


# ---- uninterpreted functions (abstract behaviour of protocol methods / callbacks) -----------------------
UF_TABLE = {}  # native: name -> python callable, installed by the replay harness


def uf(name, *args):
    return UF_TABLE[name](*args)


def s_uf(ex, args, kwargs, st, node):
    nm = z3.simplify(ex.as_val(args[0], st, node).e).as_string()
    vals = [ex.as_val(a, st, node).any() for a in args[1:]]
    from .sym import from_any
    if not vals:
        return from_any(z3.Const(nm, Any))
    f = z3.Function(nm, *([Any] * len(vals)), Any)
    return from_any(f(*vals))


# ---- ghost log of external (opaque) calls -----------------------------------------------------------------
CALL_LOG = []  # native: list of (name, args, kwargs, result) recorded by the replay harness


def call_count(name):
    return sum(1 for c in CALL_LOG if c[0] == name)


def call_kwargs(name, idx):
    return [c for c in CALL_LOG if c[0] == name][idx][2]


def call_arg(name, idx, pos):
    return [c for c in CALL_LOG if c[0] == name][idx][1][pos]


def call_result(name, idx):
    return [c for c in CALL_LOG if c[0] == name][idx][3]


def _cname(ex, a, st, node):
    return z3.simplify(ex.as_val(a, st, node).e).as_string()


def _same_callee(logged, nm):
    """a logged callee is named by its full qualified name; a clause may name it fully, by `Class.method` / `module.func`, or by its last component"""
    return logged == nm or logged.split(":")[-1] == nm or logged.endswith("." + nm)


def s_call_count(ex, args, kwargs, st, node):
    from .sym import VInt
    nm = _cname(ex, args[0], st, node)
    import os as _os
    if _os.environ.get("PYVC_DEBUG_LOG"):
        print("LOG", nm, [c.name for c in st.log])
    return VInt(sum(1 for c in st.log if _same_callee(c.name, nm)))


def _nth(ex, args, st, node):
    nm = _cname(ex, args[0], st, node)
    idx = z3.simplify(ex.as_val(args[1], st, node).e).as_long()
    recs = [c for c in st.log if _same_callee(c.name, nm)]
    if idx >= len(recs):
        from .state import OutOfSubset
        raise OutOfSubset(f"clause refers to call #{idx} of {nm}, only {len(recs)} on this path (guard with call_count)")
    return recs[idx]


def s_call_kwargs(ex, args, kwargs, st, node):
    rec = _nth(ex, args, st, node)
    from .sym import dict_merge_term
    e = EMPTY_DICT
    for k, v in rec.kwargs.items():
        if k == "**":
            e = dict_merge_term(e, ex.need(v, "d", st, node))
        else:
            e = z3.Store(e, z3.StringVal(k), v.any())
    return Val("d", e)


def s_call_arg(ex, args, kwargs, st, node):
    rec = _nth(ex, args, st, node)
    pos = z3.simplify(ex.as_val(args[2], st, node).e).as_long()
    return rec.args[pos]


def s_call_result(ex, args, kwargs, st, node):
    return _nth(ex, args, st, node).result


SYMBOLIC.update({"is_str_dict": s_is_str_dict, "uf": s_uf, "call_count": s_call_count, "call_kwargs": s_call_kwargs,
                 "call_arg": s_call_arg, "call_result": s_call_result})


def uf_dict(name, *args):
    return UF_TABLE[name](*args)


def s_uf_dict(ex, args, kwargs, st, node):
    nm = z3.simplify(ex.as_val(args[0], st, node).e).as_string()
    vals = [ex.as_val(a, st, node).any() for a in args[1:]]
    f = z3.Function(nm, *([Any] * len(vals)), DictS)
    return Val("d", f(*vals))


SYMBOLIC.update({"uf_dict": s_uf_dict})


# ---- environment (os.environ is an unknown but fixed map) -------------------------------------------------
def env_int(name, default):
    import os
    return int(os.environ.get(name, default))


def s_env_int(ex, args, kwargs, st, node):
    from .sym import VInt
    k = ex.need(ex.as_val(args[0], st, node), "s", st, node)
    d = ex.need_int(ex.as_val(args[1], st, node), st, node)
    is_set = z3.Function("env.set", StrS, z3.BoolSort())(k)
    val = z3.Function("env.val", StrS, StrS)(k)
    return VInt(z3.If(is_set, z3.StrToInt(val), d))


SYMBOLIC.update({"env_int": s_env_int})


def env_is_int(name):
    import os
    v = os.environ.get(name)
    return v is None or (v.isascii() and v.isdigit())


def s_env_is_int(ex, args, kwargs, st, node):
    k = ex.need(ex.as_val(args[0], st, node), "s", st, node)
    is_set = z3.Function("env.set", StrS, z3.BoolSort())(k)
    val = z3.Function("env.val", StrS, StrS)(k)
    return VBool(z3.Or(z3.Not(is_set), z3.InRe(val, z3.Plus(z3.Range("0", "9")))))


SYMBOLIC.update({"env_is_int": s_env_is_int})


def uf_list(name, *args):
    return UF_TABLE[name](*args)


def s_uf_list(ex, args, kwargs, st, node):
    nm = z3.simplify(ex.as_val(args[0], st, node).e).as_string()
    vals = [ex.as_val(a, st, node).any() for a in args[1:]]
    f = z3.Function(nm, *([Any] * len(vals)), ListS)
    return Val("l", f(*vals))


SYMBOLIC.update({"uf_list": s_uf_list})


def is_str_list(xs):
    return isinstance(xs, (list, tuple)) and all(isinstance(x, str) for x in xs)


def s_is_str_list(ex, args, kwargs, st, node):
    v = ex.as_val(args[0], st, node)
    i = z3.Const("i!isl", z3.IntSort())
    l = v.payload("l")
    return VBool(z3.And(v.is_tag("l"), z3.ForAll([i], z3.Implies(z3.And(0 <= i, i < z3.Length(l)), recog("s")(l[i])))))


def is_int_list(xs):
    return isinstance(xs, (list, tuple)) and all(isinstance(x, int) and not isinstance(x, bool) for x in xs)


def s_is_int_list(ex, args, kwargs, st, node):
    v = ex.as_val(args[0], st, node)
    i = z3.Const("i!iil", z3.IntSort())
    l = v.payload("l")
    return VBool(z3.And(v.is_tag("l"), z3.ForAll([i], z3.Implies(z3.And(0 <= i, i < z3.Length(l)), recog("i")(l[i])))))


SYMBOLIC.update({"is_str_list": s_is_str_list, "is_int_list": s_is_int_list})


# ---- registry coverage (C11) ---------------------------------------------------------------------------------------
def forall_key_codes_in(registry, codes):
    """every code of every client entry of `registry` occurs in the list `codes`"""
    return all(c in codes for v in registry.values() if isinstance(v, list) for c in v)


def s_forall_key_codes_in(ex, args, kwargs, st, node):
    from .sym import ISetS
    reg = ex.need(ex.as_val(args[0], st, node), "d", st, node)
    res = ex.need(ex.as_val(args[1], st, node), "l", st, node)
    S = z3.Function("py.iset_of_list", ListS, ISetS)
    k = z3.Const("k!fk", StrS)
    v = z3.Select(reg, k)
    return VBool(z3.ForAll([k], z3.Implies(recog("l")(v), z3.IsSubset(S(acc("l")(v)), S(res)))))


def values_prefix_in_set(registry, n, s):
    """every code of the first n entries (in key order) of `registry` is in the set s"""
    vals = list(registry.values())[:n]
    return all(c in s for v in vals if isinstance(v, list) for c in v)


def s_values_prefix_in_set(ex, args, kwargs, st, node):
    from .sym import ISetS
    reg = ex.need(ex.as_val(args[0], st, node), "d", st, node)
    n = ex.need_int(ex.as_val(args[1], st, node), st, node)
    sv = ex.as_val(args[2], st, node)
    S = z3.Function("py.iset_of_list", ListS, ISetS)
    ks = z3.Function("py.keys", DictS, ListS)(reg)
    j = z3.Const("j!vp", z3.IntSort())
    v = z3.Select(reg, acc("s")(ks[j]))
    return VBool(z3.ForAll([j], z3.Implies(z3.And(0 <= j, j < n, recog("l")(v)), z3.IsSubset(S(acc("l")(v)), sv.payload("sti")))))


def set_from_values_prefix(registry, n, s):
    """converse of values_prefix_in_set: every member of the set s is a code of one of the first n entries (in key order) of `registry`"""
    vals = [v for v in list(registry.values())[:n] if isinstance(v, list)]
    return all(any(c in v for v in vals) for c in s)


def s_set_from_values_prefix(ex, args, kwargs, st, node):
    from .sym import ISetS
    reg = ex.need(ex.as_val(args[0], st, node), "d", st, node)
    n = ex.need_int(ex.as_val(args[1], st, node), st, node)
    sv = ex.as_val(args[2], st, node)
    S = z3.Function("py.iset_of_list", ListS, ISetS)
    ks = z3.Function("py.keys", DictS, ListS)(reg)
    cc = z3.Const("c!sv", z3.IntSort())
    j = z3.Const("j!sv", z3.IntSort())
    v = z3.Select(reg, acc("s")(ks[j]))
    return VBool(z3.ForAll([cc], z3.Implies(z3.IsMember(cc, sv.payload("sti")),
                                            z3.Exists([j], z3.And(0 <= j, j < n, recog("l")(v), z3.IsMember(cc, S(acc("l")(v))))))))


def codes_all_registered(registry, codes):
    """every code in the list `codes` is a code of some client entry of `registry` (nothing stale, nothing invented)"""
    return all(any(isinstance(v, list) and c in v for v in registry.values()) for c in codes)


def s_codes_all_registered(ex, args, kwargs, st, node):
    from .sym import ISetS
    reg = ex.need(ex.as_val(args[0], st, node), "d", st, node)
    res = ex.need(ex.as_val(args[1], st, node), "l", st, node)
    S = z3.Function("py.iset_of_list", ListS, ISetS)
    cc = z3.Const("c!cr", z3.IntSort())
    k = z3.Const("k!cr", StrS)
    v = z3.Select(reg, k)
    return VBool(z3.ForAll([cc], z3.Implies(z3.IsMember(cc, S(res)), z3.Exists([k], z3.And(recog("l")(v), z3.IsMember(cc, S(acc("l")(v))))))))


SYMBOLIC.update({"set_from_values_prefix": s_set_from_values_prefix, "codes_all_registered": s_codes_all_registered})


def int_lists_dict(registry):
    return all(isinstance(v, list) and all(isinstance(c, int) and not isinstance(c, bool) for c in v) for v in registry.values())


def s_int_lists_dict(ex, args, kwargs, st, node):
    reg = ex.need(ex.as_val(args[0], st, node), "d", st, node)
    k = z3.Const("k!il", StrS)
    m = z3.Const("m!il", z3.IntSort())
    v = z3.Select(reg, k)
    return VBool(z3.ForAll([k, m], z3.Implies(v != ABSENT, z3.And(recog("l")(v), z3.Implies(z3.And(0 <= m, m < z3.Length(acc("l")(v))), recog("i")(acc("l")(v)[m]))))))


SYMBOLIC.update({"forall_key_codes_in": s_forall_key_codes_in, "values_prefix_in_set": s_values_prefix_in_set, "int_lists_dict": s_int_lists_dict})


# ---- identifiers (C20) ---------------------------------------------------------------------------------------------------
def is_ascii_identifier(s):
    import re as _re
    return isinstance(s, str) and _re.fullmatch(r"[A-Za-z_][A-Za-z0-9_]*", s) is not None


def s_is_ascii_identifier(ex, args, kwargs, st, node):
    from . import stdlib_model as M
    v = ex.as_val(args[0], st, node)
    return VBool(z3.And(v.is_tag("s"), M.is_identifier_ascii(v.payload("s"))))


def is_keyword(s):
    import keyword as _k
    return _k.iskeyword(s)


def s_is_keyword(ex, args, kwargs, st, node):
    from . import stdlib_model as M
    return M.iskeyword(ex, ex.need(ex.as_val(args[0], st, node), "s", st, node), st)


SYMBOLIC.update({"is_ascii_identifier": s_is_ascii_identifier, "is_keyword": s_is_keyword})


def no_none_values(d):
    return isinstance(d, dict) and all(v is not None for v in d.values())


def s_no_none_values(ex, args, kwargs, st, node):
    from .sym import NONE
    v = ex.as_val(args[0], st, node)
    k = z3.Const("k!nn", StrS)
    return VBool(z3.And(v.is_tag("d"), z3.ForAll([k], z3.Select(v.payload("d"), k) != NONE)))


def same_keys_where_not_none(res, src):
    """res has exactly the keys of src whose value is not None"""
    return set(res) == {k for k, v in src.items() if v is not None}


def s_same_keys_where_not_none(ex, args, kwargs, st, node):
    from .sym import NONE
    r = ex.need(ex.as_val(args[0], st, node), "d", st, node)
    s_ = ex.need(ex.as_val(args[1], st, node), "d", st, node)
    k = z3.Const("k!sk", StrS)
    return VBool(z3.ForAll([k], (z3.Select(r, k) != ABSENT) == z3.And(z3.Select(s_, k) != ABSENT, z3.Select(s_, k) != NONE)))


SYMBOLIC.update({"no_none_values": s_no_none_values, "same_keys_where_not_none": s_same_keys_where_not_none})


# ---- primary response (C05) -------------------------------------------------------------------------------------------
def _prio(code):
    return {"200": 6, "201": 5, "202": 4, "204": 3}.get(code, 2 if isinstance(code, str) and code.startswith("2") else (1 if code == "default" else 0))


def best_priority_response(responses, result):
    """result is None iff there is no response; otherwise it is one of them and no response has a higher-priority status code
    (200 > 201 > 202 > 204 > other 2xx > default > anything else)"""
    if not responses:
        return result is None
    return any(result is r for r in responses) and all(_prio(r.status_code) <= _prio(result.status_code) for r in responses)


def s_best_priority_response(ex, args, kwargs, st, node):
    rs = ex.need(ex.as_val(args[0], st, node), "l", st, node)
    res = ex.as_val(args[1], st, node).any()
    from .sym import NONE
    code = z3.Function("attr.status_code", Any, Any)

    def prio(c):
        s_ = acc("s")(c)
        iss = recog("s")(c)
        return z3.If(z3.And(iss, s_ == z3.StringVal("200")), 6, z3.If(z3.And(iss, s_ == z3.StringVal("201")), 5, z3.If(z3.And(iss, s_ == z3.StringVal("202")), 4,
               z3.If(z3.And(iss, s_ == z3.StringVal("204")), 3, z3.If(z3.And(iss, z3.PrefixOf(z3.StringVal("2"), s_)), 2, z3.If(z3.And(iss, s_ == z3.StringVal("default")), 1, 0))))))
    i = z3.Const("i!bp", z3.IntSort())
    n = z3.Length(rs)
    nonempty = z3.And(z3.Exists([i], z3.And(0 <= i, i < n, rs[i] == res)),
                      z3.ForAll([i], z3.Implies(z3.And(0 <= i, i < n), prio(code(rs[i])) <= prio(code(res)))))
    return VBool(z3.If(n == 0, res == NONE, nonempty))


SYMBOLIC.update({"best_priority_response": s_best_priority_response})


def codes_are_str(rs):
    return all(isinstance(r.status_code, str) for r in rs)


def prefix_has_no(rs, n, code):
    return all(r.status_code != code for r in rs[:n])


def prefix_has_no_2xx(rs, n):
    return all(not r.status_code.startswith("2") for r in rs[:n])


def has_none_of_preferred(rs):
    return all(r.status_code not in ("200", "201", "202", "204") for r in rs)


def has_no_2xx(rs):
    return all(not r.status_code.startswith("2") for r in rs)


def _code_terms(ex, arg, st, node):
    rs = ex.need(ex.as_val(arg, st, node), "l", st, node)
    code = z3.Function("attr.status_code", Any, Any)
    i = z3.Const("i!cd", z3.IntSort())
    return rs, code, i


def s_codes_are_str(ex, args, kwargs, st, node):
    rs, code, i = _code_terms(ex, args[0], st, node)
    return VBool(z3.ForAll([i], z3.Implies(z3.And(0 <= i, i < z3.Length(rs)), recog("s")(code(rs[i])))))


def s_prefix_has_no(ex, args, kwargs, st, node):
    rs, code, i = _code_terms(ex, args[0], st, node)
    n = ex.need_int(ex.as_val(args[1], st, node), st, node)
    c = ex.as_val(args[2], st, node).any()
    return VBool(z3.ForAll([i], z3.Implies(z3.And(0 <= i, i < n, i < z3.Length(rs)), code(rs[i]) != c)))


def s_prefix_has_no_2xx(ex, args, kwargs, st, node):
    rs, code, i = _code_terms(ex, args[0], st, node)
    n = ex.need_int(ex.as_val(args[1], st, node), st, node)
    return VBool(z3.ForAll([i], z3.Implies(z3.And(0 <= i, i < n, i < z3.Length(rs)), z3.Not(z3.PrefixOf(z3.StringVal("2"), acc("s")(code(rs[i])))))))


def s_has_none_of_preferred(ex, args, kwargs, st, node):
    rs, code, i = _code_terms(ex, args[0], st, node)
    body = z3.And(*[code(rs[i]) != ctor("s")(z3.StringVal(c)) for c in ("200", "201", "202", "204")])
    return VBool(z3.ForAll([i], z3.Implies(z3.And(0 <= i, i < z3.Length(rs)), body)))


def s_has_no_2xx(ex, args, kwargs, st, node):
    rs, code, i = _code_terms(ex, args[0], st, node)
    return VBool(z3.ForAll([i], z3.Implies(z3.And(0 <= i, i < z3.Length(rs)), z3.Not(z3.PrefixOf(z3.StringVal("2"), acc("s")(code(rs[i])))))))


SYMBOLIC.update({"codes_are_str": s_codes_are_str, "prefix_has_no": s_prefix_has_no, "prefix_has_no_2xx": s_prefix_has_no_2xx,
                 "has_none_of_preferred": s_has_none_of_preferred, "has_no_2xx": s_has_no_2xx})


def all_objects(xs):
    return all(x is not None and not isinstance(x, (str, int, float, bool, list, dict, set)) for x in xs)


def s_all_objects(ex, args, kwargs, st, node):
    l = ex.need(ex.as_val(args[0], st, node), "l", st, node)
    i = z3.Const("i!ao", z3.IntSort())
    return VBool(z3.ForAll([i], z3.Implies(z3.And(0 <= i, i < z3.Length(l)), recog("o")(l[i]))))


SYMBOLIC.update({"all_objects": s_all_objects})


# ---- allOf merging (C02) ---------------------------------------------------------------------------------------------------
def required_covered(components, n, merged_required):
    """every name required by one of the first n allOf components is in merged_required"""
    return all(r in merged_required for c in components[:n] for r in (c.required or []))


def s_required_covered(ex, args, kwargs, st, node):
    comps = ex.need(ex.as_val(args[0], st, node), "l", st, node)
    n = ex.need_int(ex.as_val(args[1], st, node), st, node)
    merged = ex.need(ex.as_val(args[2], st, node), "st", st, node)
    req = z3.Function("attr.required", Any, Any)
    S = z3.Function("py.sset_of_list", ListS, z3.ArraySort(StrS, z3.BoolSort()))
    j = z3.Const("j!rc", z3.IntSort())
    r = req(comps[j])
    return VBool(z3.ForAll([j], z3.Implies(z3.And(0 <= j, j < n, j < z3.Length(comps), recog("l")(r), z3.Length(acc("l")(r)) > 0),
                                           z3.IsSubset(S(acc("l")(r)), merged))))


def own_required_covered(node, merged_required):
    return all(r in merged_required for r in node.get("required", []))


def s_own_required_covered(ex, args, kwargs, st, node_):
    nd = ex.need(ex.as_val(args[0], st, node_), "d", st, node_)
    merged = ex.need(ex.as_val(args[1], st, node_), "st", st, node_)
    r = z3.Select(nd, z3.StringVal("required"))
    S = z3.Function("py.sset_of_list", ListS, z3.ArraySort(StrS, z3.BoolSort()))
    return VBool(z3.Implies(z3.And(recog("l")(r), z3.Length(acc("l")(r)) > 0), z3.IsSubset(S(acc("l")(r)), merged)))


SYMBOLIC.update({"required_covered": s_required_covered, "own_required_covered": s_own_required_covered})


def subset_of_list_in_set(xs, s):
    return all(x in s for x in (xs or []))


def s_subset_of_list_in_set(ex, args, kwargs, st, node):
    v = ex.as_val(args[0], st, node)
    merged = ex.need(ex.as_val(args[1], st, node), "st", st, node)
    S = z3.Function("py.sset_of_list", ListS, z3.ArraySort(StrS, z3.BoolSort()))
    l = v.payload("l")
    return VBool(z3.Implies(z3.And(v.is_tag("l"), z3.Length(l) > 0), z3.IsSubset(S(l), merged)))


def set_grows(old_s, new_s):
    return set(old_s) <= set(new_s)


def s_set_grows(ex, args, kwargs, st, node):
    a = ex.need(ex.as_val(args[0], st, node), "st", st, node)
    b = ex.need(ex.as_val(args[1], st, node), "st", st, node)
    return VBool(z3.IsSubset(a, b))


SYMBOLIC.update({"subset_of_list_in_set": s_subset_of_list_in_set, "set_grows": s_set_grows})


# ---- pointwise image of a map under "text stays, anything else through a named function" (header rendering) --------------------
def text_image_of(res, src, fname):
    """res has exactly the keys of src, and res[k] is src[k] when that is a str, else <fname>(src[k])"""
    return (isinstance(res, dict) and set(res) == set(src)
            and all(res[k] == (v if isinstance(v, str) else UF_TABLE[fname](v)) for k, v in src.items()))


def s_text_image_of(ex, args, kwargs, st, node):
    from .sym import Any as AnyS
    rv = ex.as_val(args[0], st, node)
    s_ = ex.need(ex.as_val(args[1], st, node), "d", st, node)
    nm = z3.simplify(ex.as_val(args[2], st, node).e).as_string()
    f = z3.Function(nm, AnyS, AnyS)
    k = z3.Const("k!ti", StrS)
    r = rv.payload("d")
    sv = z3.Select(s_, k)
    return VBool(z3.And(rv.is_tag("d"), z3.ForAll([k], z3.Select(r, k) == z3.If(sv == ABSENT, ABSENT, z3.If(recog("s")(sv), sv, f(sv))))))


SYMBOLIC.update({"text_image_of": s_text_image_of})
