"""Per-function driver: build the entry state from the signature + contract, execute the real body, and turn
each exit into obligations.  Also: discharge (z3 in forked workers, cvc5 CLI for z3's unknowns)."""
from __future__ import annotations

import ast
import re
import hashlib
import multiprocessing as mp
import os
import subprocess
import tempfile
import time
import traceback

import z3

from . import source, sym
from .contracts import Contract
from .exec import Obligation, Outcome
from .state import Cell, ClassRef, Exc, OutOfSubset, Ref, State, Tup
from .stmts import Exec
from .sym import Any, BoolS, DictS, IntS, ListS, SetS, StrS, Val, VNone, fresh


class FunctionReport:
    def __init__(self, qual):
        self.qual = qual
        self.sha = None
        self.lines = None
        self.obligations: list[Obligation] = []
        self.error = None  # OutOfSubset / extraction failure => undecided
        self.assumptions: list[str] = []
        self.opaque: list[str] = []
        self.exits = 0
        self.inputs = {}  # name -> z3 const (for model decoding)


def _ann_kind(ann, ex: Exec):
    """annotation -> 'int'|'str'|'bool'|'dict'|'list'|'set'|'obj:<Class>'|'any'"""
    if ann is None:
        return "any"
    if isinstance(ann, ast.Constant) and isinstance(ann.value, str):
        try:
            ann = ast.parse(ann.value, mode="eval").body
        except SyntaxError:
            return "any"
    if isinstance(ann, ast.Name):
        n = ann.id
        if n in ("int", "str", "bool"):
            return n
        if n in ("dict", "Dict"):
            return "dict"
        if n in ("list", "List"):
            return "list"
        if n in ("set", "Set"):
            return "set"
        r = ex.resolve_global(n)
        if isinstance(r, ClassRef) and r.node is not None and not source.class_is_enum(r.node):
            return ("obj", r)
        return "any"
    if isinstance(ann, ast.Subscript):
        base = ann.value
        bn = base.id if isinstance(base, ast.Name) else (base.attr if isinstance(base, ast.Attribute) else "")
        if bn in ("dict", "Dict", "Mapping", "MutableMapping"):
            return "dict"
        if bn in ("list", "List", "Sequence"):
            return "list"
        if bn in ("set", "Set"):
            return "set"
        return "any"
    return "any"


def make_input(kind, name, st: State, ex: Exec):
    if isinstance(kind, tuple) and kind[0] == "obj":
        return st.new(Cell("obj", fields={}, cls=kind[1], lazy=True, path=name))
    if kind == "int":
        return Val("i", z3.Const(name, IntS))
    if kind == "str":
        return Val("s", z3.Const(name, StrS))
    if kind == "bool":
        return Val("b", z3.Const(name, BoolS))
    if kind == "dict":
        return st.new(Cell("dict", val=Val("d", z3.Const(name, DictS))))
    if kind == "list":
        return st.new(Cell("list", val=Val("l", z3.Const(name, ListS))))
    if kind == "set":
        return st.new(Cell("set", val=Val("st", z3.Const(name, SetS))))
    if kind == "intset":
        return st.new(Cell("set", val=Val("sti", z3.Const(name, sym.ISetS))))
    if kind == "obj":
        return st.new(Cell("obj", fields={}, cls=None, lazy=True, path=name))
    if kind == "none":
        return VNone
    if kind == "opaque":
        return Val("o", z3.Const(name, IntS))
    if isinstance(kind, str) and kind.startswith("obj:"):
        r = ex.resolve_global(kind[4:])
        if not isinstance(r, ClassRef):  # class imported by the contract file rather than by the verified module
            for cl in ex.contract.requires_ + ex.contract.ensures_ + ex.contract.raises_:
                cm = source.load_module(cl.module) if cl.module else None
                if cm is not None:
                    saved = ex.mod
                    ex.mod = cm
                    try:
                        r = ex.resolve_global(kind[4:])
                    finally:
                        ex.mod = saved
                    if isinstance(r, ClassRef):
                        break
        return st.new(Cell("obj", fields={}, cls=r if isinstance(r, ClassRef) else kind[4:], lazy=True, path=name))
    return Val("any", z3.Const(name, Any))


def verify_function(contract: Contract, specs=None, variant=None) -> FunctionReport:
    """variant: name of an entry of contract.opts['variants'] = {name: {"shape": {...}, "assume": fn}} — a case
    split on the *inputs* (e.g. the concrete class of a collaborator); every variant is verified separately and
    obligation ids carry the variant name."""
    rep = FunctionReport(contract.qual + (f"[{variant}]" if variant else ""))
    vopts = contract.opts.get("variants", {}).get(variant, {}) if variant else {}
    if contract.abstract:
        rep.error = None
        rep.assumptions = [f"ASSUMED CONTRACT {contract.qual}: {contract.assumed}"]
        return rep
    try:
        mod, cls, fn = source.find_function(contract.qual)
    except LookupError as e:
        rep.error = f"extraction failed: {e}"
        return rep
    rep.sha = source.sha(mod, fn)
    rep.lines = (fn.lineno, fn.end_lineno)
    ex = Exec(contract, specs)
    ex.mod, ex.cls = mod, cls
    ex.local_names = {n.id for n in ast.walk(fn) if isinstance(n, ast.Name) and isinstance(n.ctx, ast.Store)}
    ex.loop_ids = {}
    k = 0
    for n in ast.walk(fn):
        if isinstance(n, (ast.For, ast.AsyncFor, ast.While)):
            ex.loop_ids[id(n)] = k
            k += 1
    # loops in source order
    loops = sorted([n for n in ast.walk(fn) if isinstance(n, (ast.For, ast.AsyncFor, ast.While))], key=lambda n: (n.lineno, n.col_offset))
    ex.loop_ids = {id(n): i for i, n in enumerate(loops)}
    rets = sorted([n for n in ast.walk(fn) if isinstance(n, ast.Return)], key=lambda n: (n.lineno, n.col_offset))
    rais = sorted([n for n in ast.walk(fn) if isinstance(n, ast.Raise)], key=lambda n: (n.lineno, n.col_offset))
    stmt_ids = {id(n): i for i, n in enumerate(rets)}
    stmt_ids.update({id(n): i for i, n in enumerate(rais)})
    st = State()
    try:
        a = fn.args
        params = [x for x in a.posonlyargs + a.args + a.kwonlyargs]
        types = contract.opts.get("types", {})
        is_static = any(isinstance(d, ast.Name) and d.id == "staticmethod" for d in fn.decorator_list)
        for idx, p in enumerate(params):
            if cls is not None and idx == 0 and not is_static and p.arg in ("self", "cls"):
                cref = ClassRef(mod, cls, f"{mod.name}:{cls.name}")
                if p.arg == "cls":
                    st.vars[p.arg] = cref
                else:
                    st.vars[p.arg] = st.new(Cell("obj", fields={}, cls=cref, lazy=True, path="self"))
                continue
            kind = types.get(p.arg) or _ann_kind(p.annotation, ex)
            st.vars[p.arg] = make_input(kind, p.arg, st, ex)
        if a.vararg is not None:
            st.vars[a.vararg.arg] = make_input(types.get(a.vararg.arg, "list"), a.vararg.arg, st, ex)
        if a.kwarg is not None:
            st.vars[a.kwarg.arg] = make_input("dict", a.kwarg.arg, st, ex)
        region_locals = set()
        if contract.opts.get("start_at_loop") is not None or contract.opts.get("region_for_target") is not None or contract.opts.get("region_if") is not None:
            for nme, kind in types.items():
                if nme not in st.vars:
                    st.vars[nme] = make_input(kind, nme, st, ex)
                    # a local of the enclosing function that the region may rebind: in a postcondition its name denotes the value at
                    # the region's exit (`old.<name>` the value at entry), unlike a parameter, which denotes the object passed in
                    region_locals.add(nme)
        # declared shapes of nested input structure:  {"context.recursion_depth": "int", ...}
        shape = dict(contract.opts.get("shape", {}))
        shape.update(vopts.get("shape", {}))
        for path, kind in shape.items():
            parts = path.split(".")
            slot = st.vars[parts[0]]
            for ppart in parts[1:-1]:
                slot = ex.getattr(slot, ppart, st, None)
            if not isinstance(slot, Ref):
                raise OutOfSubset(f"shape path {path}: not an object")
            st.wcell(slot).fields[parts[-1]] = make_input(kind, path, st, ex)
        for al_a, al_b in contract.opts.get("alias", ()):  # declared aliasing between input paths
            def walk(path):
                parts = path.split(".")
                slot = st.vars[parts[0]]
                for ppart in parts[1:-1]:
                    slot = ex.getattr(slot, ppart, st, None)
                return slot, parts[-1]
            sa, fa = walk(al_a)
            sb, fb = walk(al_b)
            st.wcell(sb).fields[fb] = ex.getattr(sa, fa, st, None)
        for _src, gname in contract.opts.get("iter_source", {}).items():
            gv = Val("l", z3.Const(gname, ListS))
            st.vars["__ghost_" + gname] = gv
            st.vars[gname] = gv
            rep.assumptions.append(f"{contract.qual}: `{_src}` yields exactly the sequence `{gname}` (assumed dependency contract)")
        for _n, _slot in st.vars.items():
            if isinstance(_slot, Val) and _slot.tag == "any":
                st.assume(_slot.e != sym.ABSENT)  # `absent` encodes a missing dict entry; it is never the value of a variable
        params_bound = dict(st.vars)
        ex.params_bound = params_bound
        for cl in contract.requires_:
            if any(p_ not in params_bound for p_ in cl.params):
                continue  # mentions a region-local name: assumed when the region is entered
            st.assume(ex.eval_clause(cl, params_bound, st, None, {}))
        if vopts.get("assume") is not None:
            from .contracts import Clause
            st.assume(ex.eval_clause(Clause("variant_" + variant, vopts["assume"], "requires"), params_bound, st, None, {}))
        ex.entry_pre = st.fork()
        ex.entry_pre.vars = dict(params_bound)
        rep.inputs = _collect_inputs(st)
        site = contract.qual + (f"[{variant}]" if variant else "")
        ex.fn_site = site
        rep.obligations.append(Obligation(f"{site}::cover:pre", "cover", list(st.pc), z3.BoolVal(True), {}, expect="sat"))
        body = source.strip_docstring(fn.body)
        sal = contract.opts.get("start_at_loop")
        tgt = contract.opts.get("region_for_target")
        if tgt is not None:
            # statement contract on ONE top-level for-loop, found by its target variable name (robust against edits elsewhere)
            matching = sorted((s_ for s_ in ast.walk(fn) if isinstance(s_, (ast.For, ast.AsyncFor)) and ast.unparse(s_.target) == tgt), key=lambda s_: s_.lineno)
            occ = contract.opts.get("region_occurrence", 0)  # which of several loops with this target (source order)
            loopnode = matching[occ] if occ < len(matching) else None
            if loopnode is None:
                raise OutOfSubset(f"region_for_target={tgt}: no such for-loop")
            body = [loopnode]
            if contract.opts.get("region_body_only"):
                # one arbitrary iteration: the loop target is an unknown element; falling off the body (or `continue`) is the exit "end"
                body = list(loopnode.body)
                for n_ in ast.walk(loopnode.target):
                    if isinstance(n_, ast.Name) and n_.id not in st.vars:
                        st.vars[n_.id] = make_input(types.get(n_.id, "any"), n_.id, st, ex)
                ex.region_body_only = True
                params_bound = dict(st.vars)
                ex.params_bound = params_bound
                ex.entry_pre = st.fork()
                ex.entry_pre.vars = dict(params_bound)
                for cl in contract.requires_:
                    if any(p_ not in params_bound for p_ in cl.params):
                        continue
                    st.assume(ex.eval_clause(cl, params_bound, st, None, {}))
            rep.assumptions.append(f"{contract.qual}: only the `for {tgt} in ...` region is verified (statement contract; the rest of the function is "
                                   f"dropped for this obligation; locals {sorted(types)} are inputs)")
        elif contract.opts.get("region_if") is not None:
            # statement contract on one branch of ONE if-statement, found by the text of its test: {"test": "<source of the test>", "part": "body"|"orelse"}
            rif = contract.opts["region_if"]
            ifnode = next((s_ for s_ in ast.walk(fn) if isinstance(s_, ast.If) and ast.unparse(s_.test) == rif["test"]), None)
            if ifnode is None:
                raise OutOfSubset(f"region_if={rif['test']!r}: no such if-statement")
            body = list(ifnode.body if rif.get("part", "body") == "body" else ifnode.orelse)
            ex.region_body_only = True
            rep.assumptions.append(f"{contract.qual}: only the `{rif.get('part', 'body')}` branch of `if {rif['test']}` is verified (statement contract; the rest of "
                                   f"the function is dropped for this obligation; locals {sorted(types)} are inputs)")
        elif sal is not None:
            # statement contract (DESIGN §2.5): verify from the k-th loop on; the prelude is dropped and every local the
            # remaining statements read is an input declared in opts['types']
            idx = next((i for i, s_ in enumerate(body) if any(ex.loop_ids.get(id(n)) == sal for n in ast.walk(s_))), None)
            if idx is None:
                raise OutOfSubset(f"start_at_loop={sal}: no such top-level loop")
            body = body[idx:]
            rep.assumptions.append(f"{contract.qual}: verified from loop {sal} onward (prelude dropped; locals {sorted(types)} are inputs)")
        if contract.opts.get("no_swallow"):
            st.vars["__swallowed"] = sym.VBool(z3.BoolVal(False))
        outs = ex.exec_block(body, st)
        rep.exits = len(outs)
        normal_pcs = []
        counts = {}
        for o in outs:
            if o.sig in ("break", "continue") and getattr(ex, "region_body_only", False):
                o.sig = "next"
            if o.sig in ("break", "continue"):
                raise OutOfSubset("break/continue outside loop")
            ln = getattr(o.node, "lineno", None)
            if o.sig in ("return", "next"):
                base = f"ret{stmt_ids.get(id(o.node), '?')}" if o.sig == "return" else "end"
            elif isinstance(o.node, ast.Raise):
                base = f"raise{stmt_ids.get(id(o.node), '?')}"
            else:
                og = (o.payload.origin or "").split(":")[-1].split("(")[0][:40]
                base = f"exc:{o.payload.cls or 'unknown'}:{og}"
            counts[base] = counts.get(base, 0) + 1
            exit_id = base if counts[base] == 1 else f"{base}#{counts[base]}"
            s2 = o.state
            if o.sig in ("return", "next"):
                normal_pcs.append(z3.And(*s2.pc) if s2.pc else z3.BoolVal(True))
                res = o.payload if (o.sig == "return" and o.payload is not None) else VNone
                extra = {"result": res}
                for gname_ in ex.ghost_names():
                    extra[gname_] = s2.ghost.get(gname_, Val("l", sym.EMPTY_LIST))
                if contract.opts.get("no_swallow"):
                    sw = s2.vars.get("__swallowed")
                    g = z3.Not(sw.e) if isinstance(sw, Val) else z3.BoolVal(True)
                    rep.obligations.append(Obligation(f"{site}::no-swallow@{exit_id}", "post", list(s2.pc), g,
                                                      {"exit": exit_id, "clause": "no_exception_swallowed", "line": ln}))
                ind_ = contract.opts.get("independent_of")
                if ind_ is not None and ind_.get("result") and o.sig == "return":
                    # the RESULT varies with the declared sources only through the declassified functions
                    rv = ex.as_val(res, s2, o.node) if not isinstance(res, Val) else res
                    g = ex.ind_setup(ind_, o.node)(rv.e)
                    rep.obligations.append(Obligation(f"{site}::indep:return@{exit_id}", "post", list(s2.pc), g,
                                                      {"exit": exit_id, "clause": "result_independent_of_" + "_".join(re.sub(r"\W+", "_", x) for x in ind_["sources"]), "line": ln}))
                for cl in contract.ensures_:
                    if getattr(cl, "only_exit", None) and not base.startswith(cl.only_exit):
                        continue
                    g = ex.eval_clause(cl, _post_bound(cl, params_bound, extra, s2, region_locals), s2, ex.entry_pre, extra)
                    rep.obligations.append(Obligation(f"{site}::post:{cl.name}@{exit_id}", "post", list(s2.pc), g,
                                                      {"exit": exit_id, "clause": cl.name, "line": ln, "props": cl.props}, aux=cl.aux))
            else:
                exc: Exc = o.payload
                info = {"exit": exit_id, "exc": exc.cls, "origin": exc.origin, "line": ln}
                if contract.opts.get("nothrow"):
                    rep.obligations.append(Obligation(f"{site}::nothrow@{exit_id}", "nothrow", list(s2.pc), z3.BoolVal(False), info))
                    continue
                ro = contract.opts.get("raises_only")
                if ro:
                    m = ex.exc_matches(exc, list(ro))
                    g = z3.BoolVal(bool(m)) if m is not None else z3.BoolVal(False)
                    rep.obligations.append(Obligation(f"{site}::raises-only@{exit_id}", "raises-only", list(s2.pc), g, info))
                exv = exc.ref if exc.ref is not None else exc
                extra = {"exc": exv}
                for gname_ in ex.ghost_names():
                    extra[gname_] = s2.ghost.get(gname_, Val("l", sym.EMPTY_LIST))
                for cl in contract.raises_:
                    if getattr(cl, "only_exit", None) and not base.startswith(cl.only_exit):
                        continue  # e.g. only_exit="raise": the clause is about the function's own `raise` statements, not exceptions of its callees
                    g = ex.eval_clause(cl, _post_bound(cl, params_bound, extra, s2, region_locals), s2, ex.entry_pre, extra)
                    rep.obligations.append(Obligation(f"{site}::raises:{cl.name}@{exit_id}", "raises", list(s2.pc), g, dict(info, clause=cl.name, props=cl.props), aux=cl.aux))
        all_pcs = [z3.And(*o.state.pc) if o.state.pc else z3.BoolVal(True) for o in outs]
        if all_pcs:
            rep.obligations.append(Obligation(f"{site}::cover:some-exit", "cover", [z3.Or(*all_pcs)], z3.BoolVal(True), {}, expect="sat"))
        rep.obligations.extend(ex.obligations)
        if ex.axioms:
            for ob in rep.obligations:
                ob.pc = list(ex.axioms) + list(ob.pc)
    except OutOfSubset as e:
        rep.error = f"out of subset: {e}"
    except RecursionError:
        rep.error = "engine recursion limit"
    rep.assumptions = sorted(set(ex.assumptions) | set(rep.assumptions))
    rep.opaque = sorted(ex.opaque_callees)
    if ex.abstracted:
        rep.assumptions = rep.assumptions + [f"{contract.qual}: {len(ex.abstracted)} expression(s)/statement(s) outside the subset abstracted "
                                             f"as unknown may-raise values (none mentions a tracked name): " +
                                             "; ".join(f"L{a}: {b}" for a, b, _ in ex.abstracted[:8])]
    return rep


def _post_bound(cl, params_bound, extra, s2=None, region_locals=()):
    """clause parameters: the function's parameters denote the objects passed in (entry slots, post heap); any other name is a local
    of the function evaluated at the exit (used by statement / region contracts)"""
    if s2 is None:
        return params_bound
    b = {k: v for k, v in s2.vars.items() if not k.startswith("__")}
    b.update({k: v for k, v in params_bound.items() if k not in region_locals or k not in s2.vars})
    if getattr(cl, "kind", "") in ("ensures", "raises"):
        for p_ in cl.params:
            if p_ in s2.vars and p_ in getattr(cl, "_locals_now", ()):
                b[p_] = s2.vars[p_]
    return b


def _collect_inputs(st: State):
    """z3 constants that stand for the inputs (by name)."""
    out = {}
    for n, slot in st.vars.items():
        if isinstance(slot, Val) and slot.e is not None and z3.is_const(slot.e):
            out[n] = slot.e
        elif isinstance(slot, Ref):
            c = st.cell(slot)
            if c.kind != "obj" and z3.is_const(c.val.e):
                out[n] = c.val.e
    return out


# ---------------------------------------------------------------------------------------------------
# discharge

_TASKS: list = []


def _consts_of(f):
    seen, out, work = set(), {}, [f]
    while work:
        t = work.pop()
        if t.get_id() in seen:
            continue
        seen.add(t.get_id())
        if z3.is_const(t) and t.decl().kind() == z3.Z3_OP_UNINTERPRETED:
            out[t.decl().name()] = t
        elif z3.is_app(t):
            work.extend(t.children())
        elif z3.is_quantifier(t):
            work.append(t.body())
    return out


def _uf_apps(f, limit=60):
    """ground applications of uninterpreted functions (attr.*, call.*, plugin_effect, ...) occurring in f"""
    seen, out, work = set(), [], [f]
    while work and len(out) < limit:
        t = work.pop()
        if t.get_id() in seen:
            continue
        seen.add(t.get_id())
        if z3.is_quantifier(t):
            continue
        if z3.is_app(t):
            if t.num_args() > 0 and t.decl().kind() == z3.Z3_OP_UNINTERPRETED and not t.decl().name().startswith("py."):
                if all(z3.is_const(a) or z3.is_app(a) for a in t.children()):
                    out.append(t)
            work.extend(t.children())
    return out


def _short(t):
    s = t.sexpr().replace("\n", " ")
    return " ".join(s.split())[:160]


def _solve(idx_timeout):
    idx, timeout_ms, want_model = idx_timeout
    ob: Obligation = _TASKS[idx]
    t0 = time.time()
    res = {"id": ob.id, "verdict": "unknown", "backend": "z3-5.1.0(py)", "time_s": 0.0, "model": None, "reason": ""}
    try:
        f = ob.formula()
        # portfolio: z3's model search on nested array/datatype formulas is seed-sensitive (measured: the same
        # satisfiable query is `unknown` after 4 s by default and `sat` in 10 ms with another phase selection).
        # (array.extensional=false finds models fastest but they can violate extensionality: measured spurious
        # refutation of an equality of two pointwise-equal arrays — not used.)
        portfolio = [({}, 0.4), ({"smt.phase_selection": 0}, 0.2), ({"smt.auto_config": False, "smt.case_split": 3}, 0.2),
                     ({"smt.random_seed": 7}, 0.2)]
        r = z3.unknown
        s = None
        for cfg, share in portfolio:
            s = z3.Solver()
            s.set("timeout", max(200, int(timeout_ms * share)))
            for k_, v_ in cfg.items():
                s.set(k_, v_)
            s.add(f)
            r = s.check()
            if r != z3.unknown:
                res["config"] = cfg
                if r == z3.sat and cfg.get("smt.array.extensional") is False:
                    res["weak_model"] = True
                break
        res["time_s"] = round(time.time() - t0, 4)
        if r == z3.unsat:
            res["verdict"] = "unsat"
        elif r == z3.sat:
            res["verdict"] = "sat"
            if want_model:
                m = s.model()
                vals = {}
                for name, c in _consts_of(f).items():
                    if "!" in name and not name.startswith("ret_"):
                        continue
                    try:
                        vals[name] = _jsonable(sym.decode_any(m, c))
                    except Exception as e:  # noqa
                        vals[name] = f"<undecodable: {e}>"
                apps = {}
                for t_ in _uf_apps(f):
                    try:
                        apps[_short(t_)] = _jsonable(sym.decode_any(m, t_))
                    except Exception:  # noqa
                        pass
                vals["__apps__"] = apps
                res["model"] = vals
        else:
            res["reason"] = s.reason_unknown()
            try:
                res["smt2"] = s.to_smt2()
            except Exception:
                pass
            if ob.expect == "unsat":
                # quantified facts defeated the solver: retry with the universally quantified conjuncts replaced by their instances at the goal's
                # skolem constants and the string literals of the query.  unsat of the weaker query is a proof; sat only yields a CANDIDATE input
                # (the dropped facts may exclude it) which counts for nothing unless it replays on the real code.
                wf = _instantiated(f)
                if wf is not None:
                    s2 = z3.Solver()
                    s2.set("timeout", max(500, int(timeout_ms * 0.5)))
                    s2.add(wf)
                    r2 = s2.check()
                    if r2 == z3.unsat:
                        res.update(verdict="unsat", backend="z3-5.1.0(py, quantifier instances)")
                    elif r2 == z3.sat and want_model:
                        m = s2.model()
                        vals = {}
                        for name, c in _consts_of(wf).items():
                            if "!" in name and not name.startswith("ret_"):
                                continue
                            try:
                                vals[name] = _jsonable(sym.decode_any(m, c))
                            except Exception as e:  # noqa
                                vals[name] = f"<undecodable: {e}>"
                        vals["__apps__"] = {}
                        res.update(verdict="sat", backend="z3-5.1.0(py, quantifier instances)", model=vals, candidate=True)
                    res["time_s"] = round(time.time() - t0, 4)
    except Exception as e:  # noqa
        res["verdict"] = "error"
        res["reason"] = f"{type(e).__name__}: {e}\n{traceback.format_exc()[-800:]}"
    return res


def _instantiated(f, max_terms=10):
    """f with its top-level universally quantified conjuncts (one bound variable) replaced by instances, negated universals skolemised; None when
    f has no such conjunct"""
    conj = []

    def flat(e):
        if z3.is_and(e):
            for c_ in e.children():
                flat(c_)
        else:
            conj.append(e)
    flat(f)
    univ, ground, sk = [], [], []
    for c_ in conj:
        if z3.is_quantifier(c_) and c_.is_forall() and c_.num_vars() == 1:
            univ.append(c_)
        elif z3.is_not(c_) and z3.is_quantifier(c_.arg(0)) and c_.arg(0).is_forall():
            q = c_.arg(0)
            ks = [z3.FreshConst(q.var_sort(i), "sk") for i in range(q.num_vars())]
            sk.extend(ks)
            ground.append(z3.Not(z3.substitute_vars(q.body(), *reversed(ks))))
        else:
            ground.append(c_)
    if not univ:
        return None
    lits = {}

    def walk(e, depth=0):
        if depth > 60 or len(lits) > 40:
            return
        if z3.is_string_value(e):
            lits[e.as_string()] = e
        for ch in (e.children() if z3.is_app(e) else []):
            walk(ch, depth + 1)
    for g in ground + [q.body() for q in univ]:
        walk(g)
    out = list(ground)
    for q in univ:
        srt = q.var_sort(0)
        terms = [k for k in sk if k.sort() == srt] + [v for v in list(lits.values())[:max_terms] if v.sort() == srt]
        for t_ in terms:
            out.append(z3.substitute_vars(q.body(), t_))
    return z3.And(*out)


def _jsonable(v):
    if isinstance(v, dict):
        return {str(k): _jsonable(x) for k, x in v.items()}
    if isinstance(v, (list, tuple)):
        return [_jsonable(x) for x in v]
    if isinstance(v, set):
        return {"__set__": sorted(_jsonable(x) for x in v)}
    if isinstance(v, sym.Opaque):
        return {"__opaque__": v.ident}
    if isinstance(v, sym.Absent):
        return {"__absent__": True}
    return v


def _cvc5(smt2, timeout_s):
    with tempfile.NamedTemporaryFile("w", suffix=".smt2", delete=False) as f:
        f.write(smt2)
        path = f.name
    try:
        p = subprocess.run(["/usr/bin/cvc5", "--strings-exp", "--dt-nested-rec", f"--tlimit={int(timeout_s * 1000)}", path],
                           capture_output=True, text=True, timeout=timeout_s + 5)
        out = p.stdout.strip().splitlines()
        return out[0] if out else "unknown"
    except Exception:
        return "unknown"
    finally:
        os.unlink(path)


def _child(conn, task):
    try:
        conn.send(_solve(task))
    except BaseException as e:  # noqa
        try:
            conn.send({"verdict": "error", "reason": f"{type(e).__name__}: {e}", "time_s": 0, "backend": "z3(error)"})
        except Exception:  # noqa
            pass
    finally:
        conn.close()


def _run_guarded(tasks, procs):
    """One forked process per obligation, at most `procs` at a time, each under a HARD wall-clock limit: z3's own timeout is a soft limit that
    some quantifier-heavy queries ignore (measured: one obligation ran for 30 minutes with a 10 s timeout).  A process that exceeds
    2 x its soft budget + 20 s is killed and its obligation is reported `unknown` (never a verdict)."""
    ctx = mp.get_context("fork")
    results = [None] * len(tasks)
    pending = list(range(len(tasks)))
    running = {}  # index -> (process, parent_conn, deadline)
    while pending or running:
        while pending and len(running) < procs:
            k = pending.pop(0)
            pc, cc = ctx.Pipe(duplex=False)
            pr = ctx.Process(target=_child, args=(cc, tasks[k]))
            pr.start()
            cc.close()
            running[k] = (pr, pc, time.time() + 2 * tasks[k][1] / 1000.0 + 20)
        done = []
        for k, (pr, pc, deadline) in running.items():
            if pc.poll(0):
                try:
                    results[k] = pc.recv()
                except EOFError:
                    results[k] = {"verdict": "unknown", "reason": "solver process died", "time_s": 0, "backend": "z3(process died)"}
                done.append(k)
            elif not pr.is_alive():
                if pc.poll(0.2):  # the result may have been written between the two tests above
                    try:
                        results[k] = pc.recv()
                    except EOFError:
                        results[k] = {"verdict": "unknown", "reason": "solver process died", "time_s": 0, "backend": "z3(process died)"}
                else:
                    results[k] = {"verdict": "unknown", "reason": f"solver process exited with code {pr.exitcode}", "time_s": 0, "backend": "z3(process exited)"}
                done.append(k)
            elif time.time() > deadline:
                pr.terminate()
                pr.join(2)
                if pr.is_alive():
                    pr.kill()
                results[k] = {"verdict": "unknown", "reason": "hard wall-clock limit exceeded (solver ignored its timeout); process killed", "time_s": round(2 * tasks[k][1] / 1000.0 + 20, 1),
                              "backend": "z3(killed)"}
                done.append(k)
        for k in done:
            pr, pc, _ = running.pop(k)
            pc.close()
            pr.join(1)
        if not done:
            time.sleep(0.005)
    return results


def discharge(obligations: list[Obligation], timeout_s=10, procs=None, cvc5_timeout_s=20):
    """Returns {obligation id: result dict}.  z3 first; cvc5 on the SMT-LIB dump of z3's unknowns."""
    global _TASKS
    _TASKS = obligations
    procs = procs or min(16, max(1, os.cpu_count() or 1))
    results = {}
    if not obligations:
        return results
    tasks = [(k, int((min(3, timeout_s) if obligations[k].kind == "cover" else timeout_s) * 1000), True) for k in range(len(obligations))]
    rs = _run_guarded(tasks, min(procs, len(obligations)))
    for ob, r in zip(obligations, rs):
        if r["verdict"] == "unknown" and r.get("smt2"):
            v = _cvc5(r["smt2"], cvc5_timeout_s)
            if v in ("unsat", "sat"):
                r["verdict"] = v
                r["backend"] = "cvc5-1.0.3(cli)"
        r.pop("smt2", None)
        r["expect"] = ob.expect
        r["kind"] = ob.kind
        r["aux"] = ob.aux
        r["info"] = ob.info
        if ob.expect == "unsat":
            r["status"] = {"unsat": "proved", "sat": "refuted"}.get(r["verdict"], "unknown")
        else:
            r["status"] = {"sat": "proved", "unsat": "vacuous"}.get(r["verdict"], "unknown")
        results[ob.id] = r
    return results
