"""Native evaluation of sidecar contracts on the REAL functions: used (a) to replay solver counter-models and
(b) as the bounded stand-in (enumerated finite domains).  Never counted as proved."""
from __future__ import annotations

import asyncio
import copy
import inspect
import types

from . import spec
from .contracts import Contract


class Old(types.SimpleNamespace):
    pass


def _call(fn, *a, **k):
    r = fn(*a, **k)
    if inspect.isawaitable(r):
        return asyncio.run(_await(r))
    return r


async def _await(r):
    return await r


def _safe_deepcopy(v):
    try:
        return copy.deepcopy(v)
    except Exception:
        return v


def eval_clause(cl, bound: dict, old: Old | None, extra: dict):
    kw = {}
    for p in cl.params:
        if p == "old":
            kw[p] = old
        elif p in extra:
            kw[p] = extra[p]
        elif p in bound:
            kw[p] = bound[p]
        else:
            raise KeyError(f"clause {cl.name}: parameter {p} not bound")
    try:
        return bool(cl.fn(**kw)), None
    except Exception as e:  # an exception inside a clause makes it false (same convention as the symbolic side)
        return False, f"{type(e).__name__}: {e}"


class MonitorResult:
    def __init__(self):
        self.pre_ok = True
        self.failed = []      # [(clause name, detail)]
        self.raised = None
        self.result = None
        self.evaluated = 0

    @property
    def ok(self):
        return not self.failed


def run_contract(c: Contract, real_fn, bound: dict, call_log=None, old_extra=None) -> MonitorResult:
    """bound: formal name -> actual (including self).  real_fn is called as real_fn(**bound_without_self) bound to self
    by the caller (pass a closure).  call_log: list populated by the harness' recording stubs."""
    res = MonitorResult()
    for cl in c.requires_:
        ok, _ = eval_clause(cl, bound, None, {})
        if not ok:
            res.pre_ok = False
            return res
    old = Old(**{k: _safe_deepcopy(v) for k, v in bound.items()})
    if old_extra:
        for k, v in old_extra.items():
            setattr(old, k, v)
    spec.CALL_LOG[:] = []
    try:
        res.result = real_fn()
    except Exception as e:  # noqa
        res.raised = e
    if call_log is not None:
        spec.CALL_LOG[:] = list(call_log)
    if res.raised is None:
        for cl in c.ensures_:
            ok, why = eval_clause(cl, bound, old, {"result": res.result})
            res.evaluated += 1
            if not ok:
                res.failed.append((cl.name, why or "postcondition false"))
    else:
        if c.opts.get("nothrow"):
            res.failed.append(("nothrow", f"raised {type(res.raised).__name__}: {res.raised}"))
        ro = c.opts.get("raises_only")
        if ro and type(res.raised).__name__ not in ro and not any(b.__name__ in ro for b in type(res.raised).__mro__):
            res.failed.append(("raises-only", f"raised {type(res.raised).__name__}: {res.raised}"))
        for cl in c.raises_:
            ok, why = eval_clause(cl, bound, old, {"exc": res.raised})
            res.evaluated += 1
            if not ok:
                res.failed.append((cl.name, why or f"exceptional postcondition false ({type(res.raised).__name__}: {res.raised})"))
    return res
