"""Extraction: the verified text is the real source of /repo, re-read with ``ast`` on every run.

What extraction drops (fixed, reported in evidence): docstrings, decorators (@staticmethod/@classmethod/
@dataclass are interpreted, others ignored), type comments, and — at execution time — calls on ``logger``/
``logging``/``warnings``/``print`` (evaluated as no-ops); ``await e`` is evaluated as ``e`` (no interleaving).
"""
from __future__ import annotations

import ast
import hashlib
import os

REPO_SRC = os.environ.get("PYVC_REPO_SRC", "/repo/src")
EXTRA_ROOTS: list[str] = []  # roots of emitted packages (E obligations: the emitted code itself is verified)


class ModuleInfo:
    def __init__(self, name, path):
        self.name = name
        self.path = path
        with open(path, "r", encoding="utf-8") as f:
            self.text = f.read()
        self.tree = ast.parse(self.text)
        self.functions = {}
        self.classes = {}
        self.assigns = {}
        self.imports = {}  # local name -> ("mod", dotted) | ("attr", dotted_module, name)
        self.star = []     # modules imported with `from x import *`
        self._index()

    def _index(self):
        pkg = self.name.rsplit(".", 1)[0] if not self.path.endswith("__init__.py") else self.name
        for node in self.tree.body:
            self._index_stmt(node, pkg)

    def _index_stmt(self, node, pkg):
        if isinstance(node, (ast.FunctionDef, ast.AsyncFunctionDef)):
            self.functions[node.name] = node
        elif isinstance(node, ast.ClassDef):
            self.classes[node.name] = node
        elif isinstance(node, ast.Assign):
            for t in node.targets:
                if isinstance(t, ast.Name):
                    self.assigns[t.id] = node.value
        elif isinstance(node, ast.AnnAssign) and isinstance(node.target, ast.Name) and node.value is not None:
            self.assigns[node.target.id] = node.value
        elif isinstance(node, ast.Import):
            for a in node.names:
                self.imports[a.asname or a.name.split(".")[0]] = ("mod", a.name if a.asname else a.name.split(".")[0])
        elif isinstance(node, ast.ImportFrom):
            base = node.module or ""
            if node.level:
                parts = pkg.split(".")
                if node.level > 1:
                    parts = parts[: -(node.level - 1)]
                base = ".".join(parts + ([node.module] if node.module else []))
            for a in node.names:
                if a.name == "*":
                    self.star.append(base)
                    continue
                self.imports[a.asname or a.name] = ("attr", base, a.name)
        elif isinstance(node, (ast.If, ast.Try)):
            for sub in ast.iter_child_nodes(node):
                if isinstance(sub, ast.stmt):
                    self._index_stmt(sub, pkg)


_cache: dict[str, ModuleInfo | None] = {}


VERIF_ROOT = os.path.dirname(os.path.dirname(os.path.abspath(__file__)))


def module_path(dotted):
    if dotted.split(".")[0] in ("contracts", "pyvc", "oracles"):
        base = os.path.join(VERIF_ROOT, *dotted.split("."))
        if os.path.isfile(base + ".py"):
            return base + ".py"
        if os.path.isfile(os.path.join(base, "__init__.py")):
            return os.path.join(base, "__init__.py")
        return None
    for root in [REPO_SRC] + EXTRA_ROOTS:
        base = os.path.join(root, *dotted.split("."))
        if os.path.isfile(base + ".py"):
            return base + ".py"
        if os.path.isfile(os.path.join(base, "__init__.py")):
            return os.path.join(base, "__init__.py")
    return None


def load_module(dotted) -> ModuleInfo | None:
    if dotted not in _cache:
        p = module_path(dotted)
        _cache[dotted] = ModuleInfo(dotted, p) if p else None
    return _cache[dotted]


def clear_cache():
    _cache.clear()


def find_function(qual):
    """'pkg.mod:Class.method' or 'pkg.mod:func' -> (ModuleInfo, ClassDef|None, FunctionDef)."""
    qual = qual.split("#")[0]  # "mod:func#label": a second (region) contract on the same function
    modname, _, path = qual.partition(":")
    mod = load_module(modname)
    if mod is None:
        raise LookupError(f"module {modname} not found under {REPO_SRC}")
    parts = path.split(".")
    if len(parts) == 1:
        fn = mod.functions.get(parts[0])
        if fn is None:
            raise LookupError(f"{qual}: no such function")
        return mod, None, fn
    cls = mod.classes.get(parts[0])
    if cls is None:
        raise LookupError(f"{qual}: no such class")
    found = [node for node in cls.body if isinstance(node, (ast.FunctionDef, ast.AsyncFunctionDef)) and node.name == parts[1]]
    if found:
        # several definitions of one name (typing.overload stubs followed by the implementation): the last one is the method
        return mod, cls, found[-1]
    raise LookupError(f"{qual}: no such method")


def segment(mod: ModuleInfo, node) -> str:
    return ast.get_source_segment(mod.text, node) or ""


def sha(mod: ModuleInfo, node) -> str:
    return hashlib.sha256(segment(mod, node).encode()).hexdigest()[:16]


def strip_docstring(body):
    if body and isinstance(body[0], ast.Expr) and isinstance(body[0].value, ast.Constant) and isinstance(body[0].value.value, str):
        return body[1:]
    return body


def class_fields(cls: ast.ClassDef):
    """dataclass-style fields: [(name, default_expr|None)] in declaration order."""
    out = []
    for node in cls.body:
        if isinstance(node, ast.AnnAssign) and isinstance(node.target, ast.Name):
            out.append((node.target.id, node.value))
    return out


def class_is_dataclass(cls: ast.ClassDef):
    for d in cls.decorator_list:
        n = d.func if isinstance(d, ast.Call) else d
        if (isinstance(n, ast.Name) and n.id == "dataclass") or (isinstance(n, ast.Attribute) and n.attr == "dataclass"):
            return True
    return False


def class_is_enum(cls: ast.ClassDef):
    for b in cls.bases:
        n = b.id if isinstance(b, ast.Name) else (b.attr if isinstance(b, ast.Attribute) else "")
        if n in ("Enum", "IntEnum", "StrEnum", "str, Enum"):
            return True
    return False


def class_bases(cls: ast.ClassDef):
    out = []
    for b in cls.bases:
        if isinstance(b, ast.Name):
            out.append(b.id)
        elif isinstance(b, ast.Attribute):
            out.append(b.attr)
    return out
