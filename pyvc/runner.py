"""Property-level driver: generate obligations from /repo's current tree, discharge, triage (replay / known findings /
baseline ledger), run bounded stand-ins, write evidence, return the exit code.

exit 0 held | 1 VIOLATION (line printed) | 2 undecided | 3 checker fault.  unknown / timeout / traceback never map to 1."""
from __future__ import annotations

import importlib
import json
import os
import re
import sys
import time
import traceback

from . import contracts as pc
from . import source, verify
from .contracts import Contract

ROOT = os.path.dirname(os.path.dirname(os.path.abspath(__file__)))
TRUSTED_BASE = [
    "pyvc (this repository's VC generator: translation of the Python subset to SMT, /verif/pyvc) — mitigated by the canary, "
    "replay of every refutation on the real code, and seeded-change runs",
    "z3 5.1.0 (unsat is believed; no proof objects checked); cvc5 1.0.3 for z3's unknowns",
    "CPython semantics of the verified subset: ints mathematical, str = SMT-LIB String (code points <= 0x2FFFF), "
    "dict = canonical array with 'absent', await without interleaving, no aliasing beyond declared",
]


def load_known():
    p = os.path.join(ROOT, "known_findings.json")
    if not os.path.exists(p):
        return []
    return json.load(open(p))


def load_baseline(pid):
    p = os.path.join(ROOT, "baseline", f"{pid}.json")
    if not os.path.exists(p):
        return {}
    return json.load(open(p))


class Report:
    def __init__(self, pid, tier, seed):
        self.pid, self.tier, self.seed = pid, tier, seed
        self.functions = []
        self.results = {}
        self.violations = []      # (obligation id / check name, replay path, has_input)
        self.undecided = []
        self.faults = []
        self.known_lines = []
        self.bounded = []
        self.extra = []
        self.assumptions = set()
        self.samples = []
        self.t0 = time.time()


def canary():
    """Engine self-check: a deliberately false postcondition on a real function must be refuted with a model that
    replays natively; a proved canary means the engine is unsound (exit 3)."""
    from pyvc.contracts import Contract as C, REGISTRY
    saved = dict(REGISTRY)
    try:
        c = C("pyopenapi_gen.core.http_status_codes:is_client_error", props=["canary"])

        @c.ensures
        def canary_false(code, result):
            return result == (400 <= code and code <= 500)
        rep = verify.verify_function(c)
        if rep.error:
            return f"canary not executable: {rep.error}"
        res = verify.discharge(rep.obligations, timeout_s=10, procs=1)
        r = [v for k, v in res.items() if "canary_false" in k]
        if not r or r[0]["status"] != "refuted":
            return f"canary obligation was {r[0]['status'] if r else 'not generated'} — engine unsound"
        code = r[0]["model"].get("code")
        from pyopenapi_gen.core.http_status_codes import is_client_error
        if not isinstance(code, int) or is_client_error(code) == (400 <= code <= 500):
            return f"canary counter-model {code!r} does not replay"
        return None
    finally:
        REGISTRY.clear()
        REGISTRY.update(saved)


def run_property(pm, tier="quick", seed=0, update_baseline=False):
    pid = pm.ID
    rep = Report(pid, tier, seed)
    source.clear_cache()
    for m in pm.CONTRACT_MODULES:
        importlib.import_module(m)
    fault = canary()
    if fault:
        rep.faults.append(fault)
    timeout_s = getattr(pm, "TIMEOUT", {"quick": 12, "thorough": 60})[tier]
    # 1. obligations ------------------------------------------------------------------------------
    obligations = []
    own = {}
    for q, c in list(pc.REGISTRY.items()):
        if pid not in c.props:
            continue
        if c.abstract:
            rep.assumptions.add(f"ASSUMED CONTRACT {q}: {c.assumed}")
            continue
        for v in (list(c.opts.get("variants", {})) or [None]):
            try:
                fr = verify.verify_function(c, variant=v)
            except Exception as e:  # engine crash: checker fault, never a violation
                rep.faults.append(f"{q}[{v}]: engine exception {type(e).__name__}: {e}\n{traceback.format_exc()[-600:]}")
                continue
            rep.functions.append({"function": fr.qual, "sha256_16": fr.sha, "lines": fr.lines, "obligations": len(fr.obligations),
                                  "error": fr.error, "opaque_callees": fr.opaque})
            for a in fr.assumptions:
                rep.assumptions.add(a)
            if fr.opaque:
                nonpure = [o for o in fr.opaque]
                rep.assumptions.add(f"{fr.qual}: opaque callees assumed not to mutate arguments/tracked state: {', '.join(nonpure)}")
            for o in c.opts.get("pure", ()):
                rep.assumptions.add(f"{q}: callee {o} assumed pure and non-raising")
            for o in c.opts.get("nothrow_calls", ()):
                rep.assumptions.add(f"{q}: callee {o} assumed non-raising")
            if fr.error:
                rep.undecided.append((fr.qual, fr.error))
                continue
            for ob in fr.obligations:
                if ob.info.get("props") is not None and pid not in ob.info["props"]:
                    continue  # clause belongs to another property of the same contract
                own[ob.id] = (c, v)
                obligations.append(ob)
    results = verify.discharge(obligations, timeout_s=timeout_s) if obligations else {}
    # E obligations: pyvc on the code EMITTED for the shape corpus (proved for all run-time values, bounded in spec shapes)
    rep.emitted = None
    if hasattr(pm, "EMITTED"):
        try:
            em = pm.EMITTED(tier, seed)
            import types as _types
            for ob in em["obligations"]:
                own[ob.id] = (_types.SimpleNamespace(qual="emitted"), None)
                obligations.append(ob)
            results.update(em["results"])
            rep.emitted = {k: v for k, v in em.items() if k not in ("obligations", "results")}
            known_skips = set(load_baseline(pid).get("__skipped__", []))
            rep.skipped_now = sorted({(pr if "UNMATCHED-OP" in pr else (pr.split(": ", 2)[0] + ": " + pr.split(": ", 2)[1] if pr.count(": ") >= 2 else pr)) for pr in em.get("problems", [])})
            for pr in em.get("problems", []):
                if "UNMATCHED-OP" in pr:
                    # exact structural check with a concrete witness (document + operation): no method of the emitted client issues it
                    if pr not in known_skips:
                        oid_ = "emitted:" + pr.replace(" UNMATCHED-OP", "")
                        rp_ = write_replay(pid, oid_, {"verdict": "native(structural)", "model": {"problem": pr}, "reason": pr}, {"confirmed": True, "detail": pr})
                        if not _is_known([k for k in load_known() if k.get("property") == pid and k.get("status", "open") == "open"], oid_):
                            rep.violations.append((oid_, rp_, True))
                    continue
                key = pr.split(": ", 2)[0] + ": " + pr.split(": ", 2)[1] if pr.count(": ") >= 2 else pr
                if key not in known_skips and not update_baseline:
                    rep.undecided.append(("emitted", pr))
        except Exception as e:  # noqa
            rep.faults.append(f"emitted-code verification crashed: {type(e).__name__}: {e}\n{traceback.format_exc()[-800:]}")
    rep.results = results
    # 2. triage -----------------------------------------------------------------------------------
    baseline = load_baseline(pid)
    known = [k for k in load_known() if k.get("property") == pid and k.get("status", "open") == "open"]
    os.makedirs(os.path.join(ROOT, "replays"), exist_ok=True)
    by_id = {o.id: o for o in obligations}
    for oid, r in results.items():
        ob = by_id[oid]
        if r["status"] == "proved":
            continue
        if ob.kind == "cover":
            if r["status"] == "vacuous":
                rep.faults.append(f"vacuous: {oid} is unsatisfiable (contradictory precondition / unreachable exit)")
            continue  # cover unknown: noted in evidence only
        if r["status"] == "error":
            rep.faults.append(f"{oid}: solver error {r['reason'][:300]}")
            continue
        c, variant = own[oid]
        kf = next((k for k in known if k.get("obligation") and re.search(k["obligation"], oid)), None)
        if ob.aux:
            rep.undecided.append((oid, f"auxiliary obligation {r['status']} (never a violation)"))
            continue
        if r["status"] == "refuted":
            outcome = None
            hook = getattr(pm, "REPLAY", {}).get(c.qual) or generic_replay(c)
            if hook is not None and r.get("model") is not None:
                try:
                    outcome = hook(variant, r["model"], ob)
                except Exception as e:  # noqa
                    outcome = {"confirmed": None, "detail": f"replay hook failed: {type(e).__name__}: {e}"}
            rp = write_replay(pid, oid, r, outcome)
            if kf is not None:
                continue  # reported below through its witness
            if outcome and outcome.get("confirmed") is True:
                rep.violations.append((oid, rp, True))
            elif outcome and outcome.get("confirmed") is False:
                # spurious counter-model: try the bounded search of this property for a real witness before giving up
                rep.undecided.append((oid, "counter-model does not replay on the real code (engine imprecision / weak callee contract)"))
            elif r.get("candidate"):
                rep.undecided.append((oid, "solver unknown with quantified facts; the candidate input of the instantiated query could not be replayed"))
            else:
                # exits may be renumbered by an edit: the clause counts as proved at baseline if it was proved on EVERY exit there
                stem = oid.split("@")[0] + "@"
                same_clause = [v_ for k_, v_ in baseline.items() if k_.startswith(stem) and isinstance(v_, str)]
                if baseline.get(oid) == "proved" or (same_clause and all(v_ == "proved" for v_ in same_clause)):
                    rep.violations.append((oid, rp, False))
                else:
                    rep.undecided.append((oid, "refuted, not concretisable, not proved at baseline"))
        else:  # unknown
            if kf is not None:
                continue
            rep.undecided.append((oid, f"solver unknown ({r['reason'][:80]}); baseline={baseline.get(oid, 'n/a')}"))
    # obligations that existed (proved) at baseline but were not generated now: the function left the verified shape
    if baseline and not update_baseline:
        missing = [k for k, v in baseline.items() if v == "proved" and k not in results and "::cover" not in k and k != "__skipped__"]
        for k in missing[:50]:
            rep.undecided.append((k, "obligation of the baseline ledger was not regenerated (function changed shape / left the subset)"))
    # 3. finite exhaustive side checks and bounded stand-ins --------------------------------------------
    for fn in getattr(pm, "EXTRA", []):
        try:
            for e in fn(tier, seed):
                rep.extra.append(e)
                if e.get("status") == "violated" and not _is_known(known, e["id"]):
                    rp = write_replay(pid, e["id"], {"verdict": "native", "model": e.get("witness"), "reason": e.get("detail", "")}, {"confirmed": True, "detail": e.get("detail")})
                    rep.violations.append((e["id"], rp, True))
                elif e.get("status") == "fault":
                    rep.faults.append(f"{e['id']}: {e.get('detail')}")
                elif e.get("status") == "undecided":
                    rep.undecided.append((e["id"], e.get("detail", "")))  # the side condition of a proof no longer holds syntactically: not a violation
        except Exception as e:  # noqa
            rep.faults.append(f"extra check {fn.__name__}: {type(e).__name__}: {e}\n{traceback.format_exc()[-600:]}")
    for fn in getattr(pm, "BOUNDED", []):
        try:
            b = fn(tier, seed)
            rep.bounded.append({k: v for k, v in b.items() if k != "failures"})
            seen_ids = set()
            for f in b.get("failures", []):
                if _is_known(known, f["id"]) or f["id"] in seen_ids:
                    continue
                seen_ids.add(f["id"])
                rp = write_replay(pid, f["id"], {"verdict": "native(bounded)", "model": f.get("input"), "reason": f.get("detail", "")}, {"confirmed": True, "detail": f.get("detail")})
                rep.violations.append((f["id"], rp, True))
        except Exception as e:  # noqa
            rep.faults.append(f"bounded check {fn.__name__}: {type(e).__name__}: {e}\n{traceback.format_exc()[-600:]}")
    # 4. known findings: replay each witness ------------------------------------------------------------
    for k in known:
        w = getattr(pm, "WITNESS", {}).get(k["id"])
        still = None
        if w is not None:
            try:
                still = w(k)
            except Exception as e:  # noqa
                rep.faults.append(f"known-finding witness {k['id']} crashed: {type(e).__name__}: {e}")
                continue
        if still is False:
            rep.known_lines.append(f"NOTE: known finding {k['id']} no longer reproduces (fixed?) — {k['what']}")
        else:
            rep.known_lines.append(f"KNOWN-FINDING: property={pid} {k['id']}: {k['what']}")
    if update_baseline:
        os.makedirs(os.path.join(ROOT, "baseline"), exist_ok=True)
        led = {k: v["status"] for k, v in sorted(results.items())}
        if getattr(rep, "skipped_now", None):
            led["__skipped__"] = rep.skipped_now
        json.dump(led, open(os.path.join(ROOT, "baseline", f"{pid}.json"), "w"), indent=0, sort_keys=True)
    return finish(pm, rep, obligations)


def generic_replay(c):
    """Replay for plain functions / static methods whose parameters are all simple values in the model: call the real function on
    the model's inputs and evaluate the sidecar contract natively."""
    if not hasattr(c, "requires_") or getattr(c, "qual", "").startswith("emitted"):
        return None

    def hook(variant, model, ob):
        import importlib
        import inspect
        from . import monitor
        modname, _, path = c.qual.partition(":")
        obj = importlib.import_module(modname)
        for part in path.split("."):
            obj = getattr(obj, part)
        sig = inspect.signature(obj)
        import itertools
        pools = []
        names = []
        for nme, prm in sig.parameters.items():
            if nme in ("self", "cls"):
                return {"confirmed": None, "detail": "method with receiver: no generic replay"}
            names.append(nme)
            dotted = {k[len(nme) + 1:]: v for k, v in model.items() if isinstance(k, str) and k.startswith(nme + ".")}
            if nme not in model and dotted:
                # an object parameter described field by field in the counter-model: build a real instance (best effort), else not concretisable
                built = _build_object(obj, nme, dotted)
                if built is None:
                    return {"confirmed": None, "detail": f"object parameter {nme} not concretisable from the counter-model"}
                pools.append([built])
                continue
            if nme in model:
                v = model[nme]
                if isinstance(v, dict) and ("__opaque__" in v or "__set__" in v or "__absent__" in v):
                    return {"confirmed": None, "detail": f"parameter {nme} not concretisable"}
                pools.append([v])
            else:
                # the formula does not constrain this parameter: every value is a counterexample for the solver — sample a few
                ann = str(prm.annotation)
                pools.append(["", "a", "1a", "$", "class", "²"] if "str" in ann else ([0, 1, -1, 404, 500] if "int" in ann else [None]))
        clause = ob.info.get("clause")
        tried = 0
        import copy as _copy
        for combo in itertools.islice(itertools.product(*pools), 60):
            bound = {k_: _copy.deepcopy(v_) for k_, v_ in zip(names, combo)}
            res = monitor.run_contract(c, lambda: monitor._call(obj, **bound), dict(bound))
            if not res.pre_ok:
                continue  # not an input the contract speaks about
            tried += 1
            failed = [f for f in res.failed if clause is None or f[0] == clause or ob.kind in ("nothrow", "raises-only")]
            if failed:
                return {"confirmed": True, "detail": f"native call {path}({bound!r}) -> {res.result!r} raised={res.raised!r} failed={res.failed}", "inputs": bound}
        if tried == 0:
            return {"confirmed": None, "detail": "no concretised input satisfies the precondition: counter-model not concretisable"}
        return {"confirmed": False, "detail": f"{tried} native call(s) on the counter-model inputs satisfy the contract"}
    return hook


def _build_object(fn, pname, fields):
    """an instance of the parameter's annotated class with the fields the counter-model mentions (enum members written `<Class.MEMBER>` are looked
    up in the function's module); None when that is not possible"""
    import re as _re
    import typing
    try:
        hints = typing.get_type_hints(fn)
    except Exception:  # noqa
        hints = {}
    cls = hints.get(pname)
    if not isinstance(cls, type):
        return None
    try:
        inst = cls()
    except Exception:  # noqa
        return None
    g = getattr(fn, "__globals__", {})

    def conv(v):
        if isinstance(v, str):
            m = _re.fullmatch(r"<(\w+)\.(\w+)>", v)
            if m and isinstance(g.get(m.group(1)), type):
                try:
                    return g[m.group(1)][m.group(2)]
                except Exception:  # noqa
                    return v
            return v
        if isinstance(v, list):
            return [conv(x) for x in v]
        if isinstance(v, dict):
            if "__opaque__" in v or "__absent__" in v:
                raise ValueError("opaque")
            if "__set__" in v:
                return {conv(x) for x in v["__set__"]}
            return {k: conv(x) for k, x in v.items() if k != "__default__"}
        return v
    try:
        for k, v in fields.items():
            if "." in k:
                return None
            setattr(inst, k, conv(v))
    except Exception:  # noqa
        return None
    return inst


def _is_known(known, ident):
    return any(k.get("check") and re.search(k["check"], ident) for k in known)


def write_replay(pid, oid, r, outcome):
    safe = re.sub(r"[^A-Za-z0-9_.\-\[\]]+", "_", oid)[:150]
    path = os.path.join(ROOT, "replays", f"{pid}-{safe}.json")
    json.dump({"property": pid, "obligation": oid, "solver_verdict": r.get("verdict"), "backend": r.get("backend"),
               "model": r.get("model"), "solver_reason": r.get("reason"), "info": r.get("info"), "replay": outcome,
               "repo_head": _head()}, open(path, "w"), indent=1, default=str)
    return path


def _head():
    try:
        import subprocess
        return subprocess.run(["git", "-C", "/repo", "rev-parse", "HEAD"], capture_output=True, text=True).stdout.strip()
    except Exception:
        return "?"


def finish(pm, rep: Report, obligations):
    pid = rep.pid
    res = rep.results
    proof_obs = [o for o in obligations if o.kind != "cover" and not o.aux]
    discharged = sum(1 for o in proof_obs if res[o.id]["status"] == "proved")
    covers = [o for o in obligations if o.kind == "cover"]
    solver_time = round(sum(r["time_s"] for r in res.values()), 3)
    backends = {}
    for r in res.values():
        backends[r.get("backend", "?")] = backends.get(r.get("backend", "?"), 0) + 1
    samples = []
    for o in proof_obs[:3]:
        samples.append({"obligation": o.id, "kind": o.kind, "status": res[o.id]["status"], "solver_time_s": res[o.id]["time_s"],
                        "smt_formula_head": o.formula().sexpr()[:600]})
    extra_total = len(rep.extra)
    extra_ok = sum(1 for e in rep.extra if e.get("status") == "holds")
    level = getattr(pm, "LEVEL", "proof")
    all_discharged = discharged == len(proof_obs) and extra_ok == extra_total
    if level == "proof" and (not all_discharged or not proof_obs):
        level = "other"
    cov = {
        "obligations": len(proof_obs) + extra_total,
        "discharged": discharged + extra_ok,
        "checker_cmd": "python -m pyvc: z3 5.1.0 Python API Solver.check() per obligation in forked workers "
                       "(portfolio of 4 configurations within the budget), /usr/bin/cvc5 --strings-exp --dt-nested-rec on the "
                       "SMT-LIB dump of z3's unknowns",
        "trusted_base": TRUSTED_BASE + list(getattr(pm, "TRUSTED", [])),
        "explanation": getattr(pm, "EXPLANATION", ""),
        "functions_under_contract": rep.functions,
        "smt_obligations": len(proof_obs), "smt_discharged": discharged,
        "cover_obligations": len(covers), "covers_confirmed_sat": sum(1 for o in covers if res[o.id]["status"] == "proved"),
        "covers_unknown": [o.id for o in covers if res[o.id]["status"] == "unknown"],
        "finite_exhaustive_checks": rep.extra,
        "backends": backends, "solver_time_s": solver_time,
        "not_discharged": [{"obligation": o.id, "status": res[o.id]["status"], "aux": o.aux} for o in obligations
                           if o.kind != "cover" and res[o.id]["status"] != "proved"][:100],
        "undecided": [{"what": a, "why": b} for a, b in rep.undecided][:100],
        "bounded": rep.bounded,
        "emitted_code": getattr(rep, "emitted", None),
        "known_findings_replayed": rep.known_lines,
        "samples": samples,
        "evaluations": len(res) + extra_total + sum(b.get("evaluations", 0) for b in rep.bounded),
        "distinct_nontrivial": discharged + extra_ok + sum(b.get("distinct_nontrivial", 0) for b in rep.bounded),
        "rule": "one evaluation = one SMT obligation generated from the current source (distinct by obligation id; non-trivial = "
                "not a cover obligation), one entry of a finite exhaustive table check, or one input of a bounded stand-in "
                "(distinct by input value)",
    }
    ev = {"property_id": pid, "tier": rep.tier, "seed": rep.seed, "level": level, "coverage": cov,
          "assumptions": sorted(rep.assumptions) + list(getattr(pm, "ASSUMPTIONS", [])),
          "wall_s": round(time.time() - rep.t0, 2), "violations": len(rep.violations)}
    os.makedirs(os.path.join(ROOT, "evidence"), exist_ok=True)
    json.dump(ev, open(os.path.join(ROOT, "evidence", f"{pid}.json"), "w"), indent=1, default=str)
    for line in rep.known_lines:
        print(line)
    print(f"[{pid}] functions={len(rep.functions)} obligations={len(proof_obs)} discharged={discharged} covers={len(covers)} "
          f"extra={extra_ok}/{extra_total} bounded={len(rep.bounded)} undecided={len(rep.undecided)} faults={len(rep.faults)} "
          f"solver_s={solver_time} wall_s={ev['wall_s']}")
    if rep.faults:
        for f in rep.faults:
            print("CHECKER-FAULT:", f)
    if rep.violations:
        for oid, rp, has_input in rep.violations:
            print(f"VIOLATION property={pid} replay={rp}" + ("" if has_input else " no-failing-input-found"))
            print(f"  failed obligation: {oid}")
        return 1
    if rep.faults:
        return 3
    if rep.undecided:
        for a, b in rep.undecided[:20]:
            print(f"UNDECIDED: {a}: {b}")
        return 2
    return 0
