from __future__ import annotations

import argparse
import importlib
import json
import os
import sys


def main():
    ap = argparse.ArgumentParser()
    ap.add_argument("prop")
    ap.add_argument("--tier", default=os.environ.get("VERIF_TIER", "quick"))
    ap.add_argument("--update-baseline", action="store_true")
    ap.add_argument("--replay")
    a = ap.parse_args()
    seed = int(os.environ.get("VERIF_SEED", "0") or 0)
    if a.replay:
        d = json.load(open(a.replay))
        print(json.dumps(d, indent=1)[:6000])
        return 0
    import logging
    logging.disable(logging.CRITICAL)
    import warnings
    warnings.simplefilter("ignore")
    from pyvc import runner
    pm = importlib.import_module(f"props.{a.prop}")
    try:
        return runner.run_property(pm, a.tier, seed, update_baseline=a.update_baseline)
    except Exception as e:  # noqa — a crash of the checker is exit 3, never a violation
        import traceback
        traceback.print_exc()
        print(f"CHECKER-FAULT: {type(e).__name__}: {e}")
        return 3


if __name__ == "__main__":
    sys.exit(main())
