#!/bin/sh
# Offline build of the 3.12 overlay venv used by every check (z3-solver, cvc5, crosshair, jsonschema
# from the wheelhouse; the repo's own deps come from /venv through a .pth).
set -e
cd "$(dirname "$0")"
if [ ! -x .venv/bin/python ] || ! .venv/bin/python -c 'import z3, cvc5' 2>/dev/null; then
  rm -rf .venv
  /venv/bin/python -m venv .venv
  SP=$(.venv/bin/python -c 'import sysconfig; print(sysconfig.get_paths()["purelib"])')
  echo "import site; site.addsitedir('/venv/lib/python3.12/site-packages')" > "$SP/zz_repo_deps.pth"
  PIP_NO_INDEX=1 .venv/bin/python -m pip install -q --no-index --find-links /opt/veriftools/wheels \
      z3-solver cvc5 jsonschema crosshair-tool icontract deal 2>&1 | grep -v '^WARNING' || true
fi
.venv/bin/python -c 'import z3, cvc5, jsonschema; print("venv ok: z3", z3.get_version_string())'
