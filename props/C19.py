"""C19 — output depends on the document's meaning, not its rendering."""
from __future__ import annotations

import ast
import copy
import json
import os
import random
import re
import shutil

ID = "C19"
LEVEL = "other"
CONTRACT_MODULES = ["contracts.responses", "contracts.cycle", "contracts.allof", "contracts.opsparse"]
EXPLANATION = ("No contract states 'two runs agree' for the whole loader; the property is decided through order-independent postconditions of the "
               "functions that could depend on entry order: both primary-response selectors are proved to pick the best-priority response "
               "whatever the order of the `responses` entries; the allOf merge is proved per member independent of member order. The rendering "
               "clause (JSON vs. YAML block / flow / unquoted status codes) and the permutation clause (components.schemas, paths, properties) "
               "are checked by generating each corpus document in several renderings / orders and comparing a normalised manifest of the result "
               "(set of models with their fields, set of operations with their signatures).")
TRUSTED = ["yaml.safe_load(json text) == json.loads(json text); PyYAML / json are dependencies", "the two-run relation itself is only checked in bounded form"]


def manifest(root, pkg):
    """normalised description of a generated package: {model class: sorted fields}, {tag client: {method: signature}}"""
    from props import pkgcheck
    base = os.path.join(root, *pkg.split("."))
    models, ops = {}, {}
    mdir = os.path.join(base, "models")
    if os.path.isdir(mdir):
        for f in sorted(os.listdir(mdir)):
            if f.endswith(".py") and f != "__init__.py":
                for cls in [c for c in pkgcheck.parse(os.path.join(mdir, f)).body if isinstance(c, ast.ClassDef)]:
                    # a field is its name, its annotation and its default (a default that differs between two runs is a different field)
                    models[cls.name] = sorted(f"{x.target.id}: {ast.unparse(x.annotation)}" + (f" = {ast.unparse(x.value)}" if x.value is not None else "")
                                              for x in cls.body if isinstance(x, ast.AnnAssign) and isinstance(x.target, ast.Name))
    edir = os.path.join(base, "endpoints")
    if os.path.isdir(edir):
        for f in sorted(os.listdir(edir)):
            if f.endswith(".py") and f != "__init__.py":
                for cls in [c for c in pkgcheck.parse(os.path.join(edir, f)).body if isinstance(c, ast.ClassDef) and not c.name.endswith("Protocol")]:
                    ops[cls.name] = {x.name: ast.unparse(x.args) + " -> " + (ast.unparse(x.returns) if x.returns else "") for x in cls.body
                                     if isinstance(x, ast.AsyncFunctionDef) and not x.name.startswith("_")}
    return {"models": models, "operations": ops}


def _permute(d, rnd):
    d = copy.deepcopy(d)

    def shuffle_dict(x):
        items = list(x.items())
        if rnd is None:
            items.reverse()
        else:
            rnd.shuffle(items)
        return dict(items)
    d["paths"] = shuffle_dict({p: shuffle_dict(v) for p, v in d["paths"].items()})
    for item in d["paths"].values():
        for op in item.values():
            if isinstance(op, dict) and "responses" in op:
                op["responses"] = shuffle_dict(op["responses"])
    if "schemas" in (d.get("components") or {}):
        sch = {k: (dict(v, properties=shuffle_dict(v["properties"])) if isinstance(v, dict) and "properties" in v else v) for k, v in d["components"]["schemas"].items()}
        d["components"]["schemas"] = shuffle_dict(sch)
    return d


def _yaml_renderings(d):
    import yaml
    block = yaml.safe_dump(d, default_flow_style=False, sort_keys=False)
    flow = yaml.safe_dump(d, default_flow_style=True, sort_keys=False, width=10000)
    # unquoted status codes: `'200':` -> `200:`
    import re
    unq = re.sub(r"^(\s*)'(\d{3})':", r"\1\2:", block, flags=re.M)
    return {"yaml-block": block, "yaml-flow": flow, "yaml-unquoted-status": unq}


SHAPES = ["params-all-locations", "multi-2xx", "schema-graph", "two-tags", "default-with-content", "path-forms", "opid-collision-overlapping-tags",
          "tag-spellings", "tag-majority-spelling", "tag-spelling-set-1-6", "tag-spelling-set-0-4-7", "tag-spelling-set-2-8-9", "response-kinds"]


def _local_docs():
    """documents specific to this property (not part of the shared corpus, whose emitted methods are verified elsewhere)"""
    ok = {"200": {"description": "ok"}}
    R = "#/components/parameters/"
    shared = {
        "openapi": "3.0.3", "info": {"title": "shared", "version": "1"},
        "paths": {
            "/pets": {"get": {"operationId": "listPets", "tags": ["pets"], "parameters": [{"$ref": R + "Fields"}, {"$ref": R + "Limit"}], "responses": ok}},
            "/orders": {"get": {"operationId": "listOrders", "tags": ["orders"], "parameters": [{"$ref": R + "Fields"}, {"$ref": R + "Tenant"}], "responses": ok}},
            "/users": {"parameters": [{"$ref": R + "Tenant"}], "get": {"operationId": "listUsers", "tags": ["users"], "parameters": [{"$ref": R + "Limit"}], "responses": ok}},
        },
        "components": {"parameters": {
            "Fields": {"name": "fields", "in": "query", "schema": {"type": "array", "items": {"type": "string", "enum": ["id", "name", "created"]}}},
            "Limit": {"name": "limit", "in": "query", "schema": {"type": "integer"}},
            "Tenant": {"name": "X-Tenant", "in": "header", "required": True, "schema": {"type": "string"}},
        }, "schemas": {}},
    }
    S = "#/components/schemas/"
    acyclic = {
        "openapi": "3.0.3", "info": {"title": "acyclic", "version": "1"},
        "paths": {
            "/a": {"post": {"operationId": "makeA", "tags": ["a"], "requestBody": {"required": True, "content": {"application/json": {"schema": {"$ref": S + "A"}}}},
                            "responses": {"201": {"description": "c", "content": {"application/json": {"schema": {"$ref": S + "B"}}}}, "404": {"description": "n"}}}},
            "/b/{id}": {"get": {"operationId": "getB", "tags": ["b"], "parameters": [{"name": "id", "in": "path", "required": True, "schema": {"type": "string"}}],
                                "responses": {"200": {"description": "o", "content": {"application/json": {"schema": {"type": "array", "items": {"$ref": S + "C"}}}}}}}},
        },
        "components": {"schemas": {
            "A": {"type": "object", "required": ["b"], "properties": {"b": {"$ref": S + "B"}, "tags": {"type": "array", "items": {"type": "string"}}, "kind": {"type": "string", "enum": ["x", "y"]}}},
            "B": {"allOf": [{"$ref": S + "C"}, {"type": "object", "required": ["n"], "properties": {"n": {"type": "integer"}, "inner": {"type": "object", "properties": {"z": {"type": "boolean"}}}}}]},
            "C": {"type": "object", "required": ["id"], "properties": {"id": {"type": "string", "format": "uuid"}, "when": {"type": "string", "format": "date-time"}, "extra": {"type": "object", "additionalProperties": {"type": "integer"}}}},
            "D": {"oneOf": [{"$ref": S + "A"}, {"$ref": S + "C"}]},
        }},
    }
    # several referrers of ONE schema, each with its own annotations next to the `$ref` (3.1 style siblings: default / description / example / nullable):
    # whatever the generator does with such siblings, it must not depend on which referrer is parsed last
    siblings = {
        "openapi": "3.0.3", "info": {"title": "siblings", "version": "1"},
        "paths": {"/o": {"get": {"operationId": "getOrder", "tags": ["o"], "responses": {"200": {"description": "o", "content": {"application/json": {"schema": {"$ref": S + "Order"}}}},
                                                                                       "201": {"description": "i", "content": {"application/json": {"schema": {"$ref": S + "Invoice"}}}}}}}},
        "components": {"schemas": {
            "Status": {"type": "string", "enum": ["draft", "new", "paid"], "description": "shared status"},
            "Money": {"type": "object", "properties": {"amount": {"type": "integer", "default": 0}, "currency": {"type": "string"}}},
            "Order": {"type": "object", "properties": {"status": {"$ref": S + "Status", "default": "draft", "description": "order status"},
                                                        "total": {"$ref": S + "Money", "description": "order total", "nullable": True},
                                                        "zeta": {"$ref": S + "Status", "default": "paid", "example": "paid"}}},
            "Invoice": {"type": "object", "properties": {"status": {"$ref": S + "Status", "default": "new", "description": "invoice status"},
                                                          "total": {"$ref": S + "Money", "description": "invoice total"}}},
            "Archive": {"type": "object", "properties": {"alpha": {"$ref": S + "Status", "default": "new"}, "last": {"$ref": S + "Status"}}},
        }},
    }
    # same-named inline enums / inline objects inside ANONYMOUS parents (allOf members of two subtypes), and an inline enum on a schema of a reference cycle:
    # whatever names the generator derives for them must not depend on the order of components.schemas
    inline_names = {
        "openapi": "3.0.3", "info": {"title": "inline-names", "version": "1"},
        "paths": {"/c": {"get": {"operationId": "getCat", "tags": ["z"], "responses": {"200": {"description": "o", "content": {"application/json": {"schema": {"$ref": S + "Cat"}}}},
                                                                                     "201": {"description": "d", "content": {"application/json": {"schema": {"$ref": S + "Dog"}}}},
                                                                                     "202": {"description": "p", "content": {"application/json": {"schema": {"$ref": S + "Pet"}}}}}}}},
        "components": {"schemas": {
            "Base": {"type": "object", "required": ["id"], "properties": {"id": {"type": "string"}}},
            "Cat": {"allOf": [{"$ref": S + "Base"}, {"type": "object", "properties": {"size": {"type": "string", "enum": ["s", "m"]}, "home": {"type": "object", "properties": {"room": {"type": "string"}}}}}]},
            "Dog": {"allOf": [{"$ref": S + "Base"}, {"type": "object", "properties": {"size": {"type": "string", "enum": ["s", "m"]}, "home": {"type": "object", "properties": {"room": {"type": "string"}}}}}]},
            "Pet": {"type": "object", "properties": {"kind": {"type": "string", "enum": ["cat", "dog"]}, "owner": {"$ref": S + "Owner"}}},
            "Owner": {"type": "object", "properties": {"name": {"type": "string"}, "pets": {"type": "array", "items": {"$ref": S + "Pet"}}}},
        }},
    }
    # inline (not $ref'd) request bodies and responses that carry the SAME `title` but different schemas, on several operations: whatever names the generator
    # derives for them must not let the order of `paths` decide which operation gets which fields
    def _body(props_):
        return {"required": True, "content": {"application/json": {"schema": {"type": "object", "title": "Search Request", "properties": props_}}}}
    titled = {
        "openapi": "3.0.3", "info": {"title": "titled", "version": "1"},
        "paths": {
            "/pets/search": {"post": {"operationId": "searchPets", "tags": ["s"], "requestBody": _body({"species": {"type": "string"}, "limit": {"type": "integer"}}),
                                      "responses": {"200": {"description": "o", "content": {"application/json": {"schema": {"type": "object", "title": "Result", "properties": {"pets": {"type": "array", "items": {"type": "string"}}}}}}}}}},
            "/owners/search": {"post": {"operationId": "searchOwners", "tags": ["s"], "requestBody": _body({"city": {"type": "string"}, "active": {"type": "boolean"}}),
                                        "responses": {"200": {"description": "o", "content": {"application/json": {"schema": {"type": "object", "title": "Result", "properties": {"owners": {"type": "array", "items": {"type": "integer"}}}}}}}}}},
            "/vets/search": {"post": {"operationId": "searchVets", "tags": ["s"], "requestBody": _body({"clinic": {"type": "string"}}), "responses": ok}},
        },
        "components": {"schemas": {}},
    }
    return {"local:shared-component-parameters": shared, "local:acyclic-graph": acyclic, "local:ref-siblings": siblings, "local:inline-names": inline_names,
            "local:titled-inline-bodies": titled}


def bounded_renderings_and_orders(tier, seed):
    from props import corpus, gen_harness as G
    rnd = random.Random(seed)
    docs = {n: d for n, f, d in corpus.shapes(tier, seed) if n in SHAPES or tier == "thorough"}
    docs.update(_local_docs())
    n, failures = 0, []
    for name, d in docs.items():
        root = G.scratch("c19")
        try:
            variants = {"json": dict(spec=d)}
            for k, text in _yaml_renderings(d).items():
                variants[k] = dict(spec=None, yaml_text=text)
            if not _has_collisions(name):
                variants["reversed"] = dict(spec=_permute(d, None))
                for k in range(2 if tier == "quick" else 5):
                    variants[f"permuted-{k}"] = dict(spec=_permute(d, rnd))
            mans = {}
            for vname, kw in variants.items():
                sub = os.path.join(root, vname.replace("-", "_"))
                os.makedirs(sub)
                err = G.generate(kw.get("spec"), sub, "cli", yaml_text=kw.get("yaml_text"), spec_name="spec.yaml" if kw.get("yaml_text") else "spec.json")
                n += 1
                mans[vname] = ("ERROR " + f"{type(err).__name__}: {str(err)[:120]}") if err is not None else manifest(sub, "cli")
            ref = mans["json"]
            cyc = _on_cycle(d)
            for vname, m in mans.items():
                if m == ref:
                    continue
                kind = "rendering" if vname.startswith("yaml") else "order"
                vid = vname if kind == "rendering" else "permutation"
                if isinstance(m, str) or isinstance(ref, str):
                    failures.append({"id": f"bounded:{kind}:{name}:{vid}:generation", "detail": f"{name} / {vname}: {_diff(ref, m)}"[:500], "input": {"shape": name, "variant": vname}})
                    continue
                for sect in ("models", "operations"):
                    for k in sorted(set(ref[sect]) | set(m[sect])):
                        a, b = ref[sect].get(k), m[sect].get(k)
                        if a == b:
                            continue
                        base_k = re.sub(r"(_|\d+)$", "", k)
                        siblings = [x for x in set(ref[sect]) | set(m[sect]) if x != k and re.sub(r"(_|\d+)$", "", x) == base_k]
                        if sect == "models" and a is not None and b is not None and (not a or not b) and k in cyc:
                            what = "all-fields-lost-on-reference-cycle"
                        elif sect == "models" and a is not None and b is not None and _strip_suffixes(a) == _strip_suffixes(b) and _underscored(a, b):
                            what = "numbered-sibling-swap"  # the same fields up to WHICH of X_ / X2 a referrer is typed with (X_ : a class name that had to be escaped)
                        elif sect == "models" and (a is None or b is None) and (k.endswith("_") or any(x.endswith("_") for x in siblings)):
                            what = "numbered-sibling-swap"  # X_ and X2 exist in one order, only one of them (or X2 and X3) in the other
                        elif a is None or b is None:
                            what = "missing"
                        else:
                            what = "differs"
                        failures.append({"id": f"bounded:{kind}:{name}:{vid}:{sect}.{k}:{what}", "detail": f"{name} / {vname}: {sect}.{k}: {a} != {b}"[:500],
                                         "input": {"shape": name, "variant": vname}})
        finally:
            shutil.rmtree(root, ignore_errors=True)
    return {"function": "generate_client on each document as JSON, block YAML, flow YAML, YAML with unquoted status codes, and with permuted paths / schemas / "
                        "properties / responses: normalised manifests (models+fields, operations+signatures) must be equal", "backend": "bounded",
            "bound": f"{len(docs)} corpus documents x (4 renderings + full reversal + {2 if tier == 'quick' else 5} random permutations, seed {seed}; permutations skipped for documents with name collisions)", "evaluations": n,
            "distinct_nontrivial": n, "exhaustive": False, "failures": failures}


def _strip_suffixes(fields):
    """field list with the numeric / underscore suffixes of class names removed (Id_, Id2, Id3 -> Id)"""
    return sorted(re.sub(r"\b([A-Z][A-Za-z0-9]*?)(?:_|\d+)\b", r"\1", f) for f in fields)


def _underscored(a, b):
    """the two field lists differ only in class names one of which is an escaped name (ends with an underscore: Id_, Type_, Class_)"""
    ta = set(re.findall(r"\b[A-Z][A-Za-z0-9]*_?(?![A-Za-z0-9_])", " ".join(a)))
    tb = set(re.findall(r"\b[A-Z][A-Za-z0-9]*_?(?![A-Za-z0-9_])", " ".join(b)))
    return any(t.endswith("_") for t in ta ^ tb)


def _has_collisions(name):
    """the permutation clause is stated for documents without name collisions (suffix assignment is order dependent by design)"""
    return any(w in name for w in ("collision", "collide", "dup", "clash", "same-name"))


def _on_cycle(d):
    """names of component schemas that lie on a $ref cycle of the raw document"""
    sch = (d.get("components") or {}).get("schemas") or {}

    def refs(x, out):
        if isinstance(x, dict):
            r = x.get("$ref")
            if isinstance(r, str) and r.startswith("#/components/schemas/"):
                out.add(r.rsplit("/", 1)[1])
            for v in x.values():
                refs(v, out)
        elif isinstance(x, list):
            for v in x:
                refs(v, out)
        return out
    g = {k: refs(v, set()) for k, v in sch.items()}
    cyc = set()
    for k in g:
        seen, todo = set(), list(g[k])
        while todo:
            n = todo.pop()
            if n == k:
                cyc.add(k)
                break
            if n not in seen and n in g:
                seen.add(n)
                todo.extend(g[n])
    from pyopenapi_gen.core.utils import NameSanitizer
    return cyc | {NameSanitizer.sanitize_class_name(c) for c in cyc}


def _diff(a, b):
    if isinstance(a, str) or isinstance(b, str):
        return f"{a if isinstance(a, str) else 'ok'} vs {b if isinstance(b, str) else 'ok'}"
    out = []
    for sect in ("models", "operations"):
        for k in sorted(set(a[sect]) | set(b[sect])):
            if a[sect].get(k) != b[sect].get(k):
                out.append(f"{sect}.{k}: {a[sect].get(k)} != {b[sect].get(k)}")
    return "; ".join(out)[:500]


BOUNDED = [bounded_renderings_and_orders]

MANIFEST = {
    "category": "other",
    "text": "Order independence is proved for the two response selectors and the allOf member merge; rendering independence and permutation invariance of the "
            "whole pipeline are compared on corpus documents in 4 renderings and random permutations.",
    "note": "PyYAML/json equivalence assumed. Dedup suffixing is order dependent by design (the statement excludes name collisions).",
    "technique": "contract-based deductive verification of order-independent postconditions (z3) + bounded comparison of normalised manifests",
}


def _witness_order(k):
    """{User:{g:UserGroup,n}, UserGroup:{members:[User]}}: User first -> 0 fields; UserGroup first -> 2 fields"""
    from pyopenapi_gen.core.loader.loader import load_ir_from_spec
    R = "#/components/schemas/"
    user = {"type": "object", "properties": {"g": {"$ref": R + "UserGroup"}, "n": {"type": "string"}}}
    group = {"type": "object", "properties": {"members": {"type": "array", "items": {"$ref": R + "User"}}}}

    def fields(sch):
        ir = load_ir_from_spec({"openapi": "3.0.0", "info": {"title": "t", "version": "1"}, "paths": {}, "components": {"schemas": sch}})
        return sorted(ir.schemas["User"].properties or {})
    return fields({"User": user, "UserGroup": group}) != fields({"UserGroup": group, "User": user})


def _witness_duplicate_registration(k):
    """{Id: string, Rec: {id: $ref Id}}: Rec.id is typed Id2 in one order of components.schemas and Id_ in the other (Id is registered and emitted twice)"""
    import shutil
    from props import gen_harness as G
    S = "#/components/schemas/"
    sch = {"Id": {"type": "string"}, "Rec": {"type": "object", "required": ["id"], "properties": {"id": {"$ref": S + "Id"}}}}

    def man(order):
        d = {"openapi": "3.0.3", "info": {"title": "w", "version": "1"}, "paths": {"/r": {"get": {"operationId": "getR", "tags": ["r"], "responses": {
            "200": {"description": "o", "content": {"application/json": {"schema": {"$ref": S + "Rec"}}}}}}}}, "components": {"schemas": {n_: sch[n_] for n_ in order}}}
        root = G.scratch("c19w")
        try:
            if G.generate(d, root, "cli") is not None:
                return None
            return manifest(root, "cli")["models"]
        finally:
            shutil.rmtree(root, ignore_errors=True)
    a, b = man(["Id", "Rec"]), man(["Rec", "Id"])
    return a is not None and b is not None and a != b


WITNESS = {"F-C19-cycle-order-dependent-fields": _witness_order, "F-C19-duplicate-registration-order": _witness_duplicate_registration}
