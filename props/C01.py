"""C01 — every accepted spec yields a package that compiles and imports."""
from __future__ import annotations

import os
import re

from props import pkgcheck

ID = "C01"
LEVEL = "other"
CONTRACT_MODULES = ["contracts.status", "contracts.aliases", "contracts.decollision"]
EXPLANATION = ("No contract decides 'imports resolve for every document' (it is a property of the composition of ~40 text builders with the "
               "import system). Decided deductively: (a) the alias-generation loops define one class per 4xx/5xx code and the emitted handlers "
               "(verified per shape under C06) import an alias only for such codes; (b) the class-name and module-stem de-collision region of "
               "ModelsEmitter.emit never records a name that is already taken (site assertions proved for all schema lists) — so no model file "
               "overwrites another. Everything else is the bounded stand-in: every corpus package is compiled, imported in a fresh interpreter "
               "with the generator blocked, and every __all__ name is resolved.")
TRUSTED = ["NameSanitizer functions return str (their own properties are C20)", "import tracking for arbitrary type strings is NOT under contract (bounded only)"]


def _sig(out):
    lines = [l for l in out.strip().splitlines() if l.strip()]
    last = lines[-1] if lines else "?"
    return re.sub(r"/\S+/", "", last)[:110]


def bounded_corpus_imports(tier, seed):
    from props import corpus, corpus_run
    base, gens = corpus_run.generate_corpus(tier, seed, layouts=corpus.LAYOUTS)
    n, failures = 0, []
    try:
        for g in gens:
            n += 1
            if g.error:
                continue  # a visible generation failure is not a C01 violation ("whenever generation returns without error")
            for f, msg in pkgcheck.compile_errors(g):
                failures.append({"id": f"bounded:compile:{g.name.split('@')[0]}:{os.path.basename(f)}:{msg.split('(')[0].strip()}", "detail": f"{g.name}: {f}: {msg}", "input": {"shape": g.name}})
            ok, out = pkgcheck.import_check(g, block_generator=True)
            if not ok:
                failures.append({"id": f"bounded:import:{g.name.split('@')[0]}:{_sig(out)}", "detail": f"{g.name}: {out[-500:]}", "input": {"shape": g.name, "package": g.pkg}})
    finally:
        corpus_run.cleanup(base)
    return {"function": "generate_client over the shape corpus x layouts: py_compile of every emitted file; import of every module and resolution of "
                        "every __all__ name in a fresh interpreter with pyopenapi_gen blocked", "backend": "bounded enumeration",
            "bound": f"{len(gens)} generated packages ({tier} corpus x layouts: depth 1, depth 3, shared core)", "evaluations": n, "distinct_nontrivial": n,
            "exhaustive": False, "failures": failures}


BOUNDED = [bounded_corpus_imports]


def _witness(shape, needle):
    def w(k):
        from props import corpus_run
        base, gens = corpus_run.generate_corpus("quick", 0, only=[shape])
        try:
            for g in gens:
                if g.error:
                    return None
                if pkgcheck.compile_errors(g):
                    return True
                ok, out = pkgcheck.import_check(g)
                return (not ok) and needle in out
        finally:
            corpus_run.cleanup(base)
    return w


WITNESS = {
    "F-C01-optional-self-reference": _witness("optional-self-ref", "unsupported operand type(s) for |: 'str' and 'NoneType'"),
    "F-C01-field-shadows-type": _witness("shadowing-field-names", "unsupported operand type(s) for |"),
    "F-C01-mutual-object-refs-circular-import": _witness("mutual-object-refs", "partially initialized module"),
}

MANIFEST = {
    "category": "other",
    "text": "Two mechanisms the property anchors are proved (alias classes exist for every status an endpoint raises; de-collision never reuses a "
            "class name or module stem); the end-to-end claim is checked on the shape corpus x layouts with a fresh, generator-free interpreter.",
    "note": "Import tracking completeness is not provable with function contracts (type strings are produced by many sites): bounded only. Three "
            "known findings are recorded with their failing shape and error signature.",
    "technique": "contract-based deductive verification (site assertions / loop invariants, z3) + bounded corpus (compile, import, __all__)",
}
