"""E obligations: pyvc run on the EMITTED endpoint methods of every corpus package, against contracts computed from the raw
OpenAPI document by an oracle written from the property statements (proved for all run-time values, bounded in spec shapes)."""
from __future__ import annotations

import ast
import keyword
import os
import re

from pyvc import source, verify
from pyvc.contracts import Clause, Contract

HTTP_METHODS = ("get", "put", "post", "delete", "options", "head", "patch", "trace")


def raw_ops(doc):
    out = []
    for path, item in doc.get("paths", {}).items():
        plevel = item.get("parameters", [])
        for m in HTTP_METHODS:
            if m not in item:
                continue
            o = item[m]
            params = {(p["name"], p["in"]): p for p in plevel}
            params.update({(p["name"], p["in"]): p for p in o.get("parameters", [])})
            body = o.get("requestBody")
            out.append({"method": m.upper(), "path": path, "tags": o.get("tags") or ["default"], "operationId": o.get("operationId"),
                        "params": [{"name": p["name"], "in": p["in"], "required": bool(p.get("required")) or p["in"] == "path"} for p in params.values()],
                        "body": None if body is None else {"required": bool(body.get("required")), "types": list(body.get("content", {}))},
                        "responses": o.get("responses", {})})
    return out


def ref_arg_name(name):
    """reference derivation of the Python argument name of a parameter (snake case; keyword -> trailing underscore)"""
    s = re.sub(r"([a-z0-9])([A-Z])", r"\1_\2", name)
    s = re.sub(r"[^0-9a-zA-Z]+", "_", s).strip("_").lower()
    if not s:
        return None
    if s[0].isdigit():
        s = "_" + s
    import builtins
    if keyword.iskeyword(s) or s in dir(builtins):
        s += "_"
    return s


def norm_path(p):
    return re.sub(r"\{[^}]*\}", "{}", p)


class EmittedMethod:
    def __init__(self, gen, modname, cls, fn, http_method, path_tmpl, url_parts):
        self.gen, self.modname, self.cls, self.fn = gen, modname, cls, fn
        self.http_method, self.path_tmpl, self.url_parts = http_method, path_tmpl, url_parts
        self.args = [a.arg for a in fn.args.args[1:]] + [a.arg for a in fn.args.kwonlyargs]

    @property
    def qual(self):
        return f"{self.modname}:{self.cls.name}.{self.fn.name}"


def emitted_methods(gen):
    """every public coroutine / async generator of every <Tag>Client class of the emitted endpoints package"""
    out = []
    ep_dir = os.path.join(gen.pkg_dir, "endpoints")
    for f in sorted(os.listdir(ep_dir)):
        if not f.endswith(".py") or f == "__init__.py":
            continue
        modname = f"{gen.pkg}.endpoints.{f[:-3]}"
        import warnings
        with warnings.catch_warnings():
            warnings.simplefilter("ignore")
            tree = ast.parse(open(os.path.join(ep_dir, f)).read())
        for cls in tree.body:
            if not isinstance(cls, ast.ClassDef) or cls.name.endswith("Protocol"):
                continue
            for fn in cls.body:
                if not isinstance(fn, ast.AsyncFunctionDef) or fn.name.startswith("_"):
                    continue
                if any(isinstance(d, ast.Name) and d.id == "overload" for d in fn.decorator_list):
                    continue
                calls = [c for c in ast.walk(fn) if isinstance(c, ast.Call) and ast.unparse(c.func) == "self._transport.request"]
                http_method, path_tmpl, parts = None, None, None
                if calls and calls[0].args and isinstance(calls[0].args[0], ast.Constant):
                    http_method = calls[0].args[0].value
                for st in ast.walk(fn):
                    if isinstance(st, ast.Assign) and isinstance(st.targets[0], ast.Name) and st.targets[0].id == "url" and isinstance(st.value, ast.JoinedStr):
                        parts = []
                        for v in st.value.values:
                            parts.append(("lit", v.value) if isinstance(v, ast.Constant) else ("var", ast.unparse(v.value)))
                        if parts and parts[0] == ("var", "self.base_url"):
                            path_tmpl = "".join(p[1] if p[0] == "lit" else "{" + p[1] + "}" for p in parts[1:])
                        break
                out.append(EmittedMethod(gen, modname, cls, fn, http_method, path_tmpl, parts))
    return out


def match_ops(gen):
    """-> (pairs [(EmittedMethod, raw op)], problems [str]) : every (op, tag) must be matched by exactly one method of that tag's
    client (C07), by HTTP method + path template"""
    ops = raw_ops(gen.doc)
    ems = emitted_methods(gen)
    pairs, problems = [], []
    used = set()
    by_key = {}
    for em in ems:
        if em.http_method is None or em.path_tmpl is None:
            continue  # multi-content dispatchers delegate to private implementations; handled through those
        by_key.setdefault((em.http_method, norm_path(em.path_tmpl)), []).append(em)
    for o in ops:
        cands = by_key.get((o["method"], norm_path(o["path"])), [])
        if not cands:
            problems.append(f"UNMATCHED-OP no emitted method issues {o['method']} {o['path']}")
            continue
        for em in cands:
            pairs.append((em, o))
    return pairs, problems


# ---- clause text generation ------------------------------------------------------------------------------------------
def _url_expr(em, o, argmap):
    """f-string over the op's own path template with each {p} replaced by the serialised argument of p"""
    out = 'f"{self.base_url}'
    for piece in re.split(r"(\{[^}]*\})", o["path"]):
        if piece.startswith("{") and piece.endswith("}"):
            a = argmap.get((piece[1:-1], "path"))
            if a is None:
                return None
            out += "{ser(" + a + ")}"
        else:
            out += piece.replace("{", "{{").replace("}", "}}").replace('"', '\\"')
    return out + '"'


def _map_expr(o, where, argmap):
    e = "{}"
    for p in o["params"]:
        if p["in"] != where:
            continue
        a = argmap.get((p["name"], where))
        if a is None:
            return None
        entry = "{%r: ser(%s)}" % (p["name"], a)
        if not p["required"]:
            entry = f"({entry} if {a} is not None else {{}})"
        e = f"dict_merge({e}, {entry})"
    return e


def build_contract(em: EmittedMethod, o, props=("C04", "C06")):
    argmap = {}
    unmatched = []
    for p in o["params"]:
        a = ref_arg_name(p["name"])
        if a in em.args:
            argmap[(p["name"], p["in"])] = a
        else:
            unmatched.append(p["name"])
    if unmatched:
        return None, f"parameters {unmatched} have no argument under the reference name (naming is C20's subject)"
    body_args = [a for a in em.args if a not in argmap.values()]
    sig = ", ".join(["self"] + em.args)
    c = Contract(em.qual, props=list(props), functional_opaque=["DataclassSerializer.serialize", "serialize"], track_calls=True,
                 dependency_post={"self._transport.request": __import__("oracles.request", fromlist=["x"]).status_is_int},
                 nothrow_calls=["DataclassSerializer.serialize", "serialize"])
    url = _url_expr(em, o, argmap)
    q = _map_expr(o, "query", argmap)
    h = _map_expr(o, "header", argmap)
    ck = _map_expr(o, "cookie", argmap)
    conj = [f'call_arg(U, 0, 0) == {o["method"]!r}']
    if url:
        conj.append(f"call_arg(U, 0, 1) == {url}")
    if q is not None:
        conj.append(f'same_map(sent("params"), {q})')
    if h is not None:
        conj.append(f'same_map(sent("headers"), {h})')
    if ck is not None:
        conj.append(f'same_map(sent("cookies"), {ck})')
    if o["body"] is not None and len(o["body"]["types"]) == 1 and len(body_args) == 1:
        ct, b = o["body"]["types"][0], body_args[0]
        if ct == "application/json":
            conj.append(f'sent("json") == ser({b})')  # an omitted optional body: serialize(None) is None (assumed, C16)
        elif ct == "multipart/form-data":
            conj.append(f'sent("files") == ser({b})')
        elif ct == "application/x-www-form-urlencoded":
            conj.append(f'sent("data") == ser({b})')
        else:
            conj.append(f'(sent("data") == {b} or sent("content") == {b})')
    elif o["body"] is not None and len(o["body"]["types"]) > 1:
        # several request media types: one keyword argument per variant (body / files / data). Whatever `content_type` says, a variant argument
        # that is the only one supplied goes on the wire under its own keyword (serialised; multipart files may be passed as they are)
        variant = {"application/json": ("body", "json"), "multipart/form-data": ("files", "files"), "application/x-www-form-urlencoded": ("data", "data")}
        present = [(variant[ct][0], variant[ct][1]) for ct in o["body"]["types"] if ct in variant and variant[ct][0] in em.args]
        for arg, kw in present:
            others = " and ".join(f"{a2} is None" for a2, _ in present if a2 != arg) or "True"
            conj.append(f'(not ({arg} is not None and {others}) or sent({kw!r}) == ser({arg}) or sent({kw!r}) == {arg})')
    elif o["body"] is None:
        conj.append('sent("json") is None and sent("data") is None and sent("files") is None')
    body = " and ".join(conj)
    src_ok = f"def c04_request({sig}, result):\n    return call_count(U) == 1 and {body}\n"
    src_exc = f"def c04_request_exc({sig}, exc):\n    return call_count(U) == 0 or (call_count(U) == 1 and {body})\n"
    src_ret = (f"def c06_return({sig}, result):\n    sc = call_result(U, 0).status_code\n    return call_count(U) == 1 and 200 <= sc and sc < 300\n")
    src_raise = (f"def c06_raise({sig}, exc):\n    if call_count(U) == 0:\n        return True\n    return error_is_classed(exc, call_result(U, 0))\n")
    if o["body"] is None or not o["body"]["required"]:
        # nothing the caller may leave out is required: the call never fails before its request is issued (an optional body left as None is omitted,
        # not an error — also for operations with several request media types)
        src_sends = f"def c04_optional_body_sends({sig}, exc):\n    return call_count(U) == 1\n"
        cl_ = Clause.from_source("c04_optional_body_sends", src_sends, "raises", module="oracles.request", props=["C04"])
        cl_.only_exit = "raise"  # the method's own `raise` statements (an exception of the transport itself is the transport's)
        c.raises_.append(cl_)
    c.ensures_.append(Clause.from_source("c04_request", src_ok, "ensures", module="oracles.request", props=["C04"]))
    c.raises_.append(Clause.from_source("c04_request_exc", src_exc, "raises", module="oracles.request", props=["C04"]))
    c.ensures_.append(Clause.from_source("c06_return", src_ret, "ensures", module="oracles.request", props=["C06"]))
    c.raises_.append(Clause.from_source("c06_raise", src_raise, "raises", module="oracles.request", props=["C06"]))
    return c, None


def verify_emitted(gens, pid, timeout_s=10):
    """-> dict(obligations=[(id, status, info)], problems=[...], methods=n).  Obligation ids: <shape>::<Class.method>::<clause>@<exit>"""
    from pyvc import contracts as pc
    obs, owner, problems, nmeth = [], {}, [], 0
    saved_roots = list(source.EXTRA_ROOTS)
    saved_reg = dict(pc.REGISTRY)
    try:
        for g in gens:
            if g.error:
                continue
            source.EXTRA_ROOTS[:] = [g.root]
            source.clear_cache()
            pairs, probs = match_ops(g)
            problems += [f"{g.name}: {p}" for p in probs]
            for em, o in pairs:
                c, why = build_contract(em, o)
                if c is None:
                    problems.append(f"{g.name}: {em.cls.name}.{em.fn.name}: {why}")
                    continue
                nmeth += 1
                try:
                    fr = verify.verify_function(c)
                except Exception as e:  # noqa
                    problems.append(f"{g.name}: {em.qual}: engine exception {type(e).__name__}: {e}")
                    continue
                finally:
                    pc.REGISTRY.pop(c.qual, None)
                if fr.error:
                    problems.append(f"{g.name}: {em.qual}: {fr.error}")
                    continue
                for ob in fr.obligations:
                    if ob.kind == "cover":
                        continue
                    if ob.info.get("props") is not None and pid not in ob.info["props"]:
                        continue
                    ob.id = f"{g.name}::" + ob.id.split(":", 1)[1]
                    ob.info["shape"] = g.name
                    ob.info["op"] = f"{o['method']} {o['path']}"
                    obs.append(ob)
    finally:
        source.EXTRA_ROOTS[:] = saved_roots
        source.clear_cache()
        pc.REGISTRY.clear()
        pc.REGISTRY.update(saved_reg)
    res = verify.discharge(obs, timeout_s=timeout_s) if obs else {}
    return {"obligations": obs, "results": res, "problems": problems, "methods": nmeth}
