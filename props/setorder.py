"""Exact syntactic census for C09: every place of the generator's source where the iteration order of a `set` could reach a result.

A set's iteration order depends on PYTHONHASHSEED for str elements, so a generator that is to emit byte-identical output for the same input may
iterate a set only where the order cannot matter.  The census infers set-typed expressions from the source alone (literals, set() / frozenset() calls,
set operators and methods, `Set[...]` / `set[...]` annotations on locals, parameters, attributes, dataclass fields and return types, dict-of-set
annotations) and lists every ORDER-SENSITIVE use of one:

    for x in S: <body that does more than feed order-insensitive sinks>      list(S)  tuple(S)  sep.join(S)  enumerate(S)  next(iter(S))  S.pop()
    [f(x) for x in S]  (list / generator / dict comprehension not directly consumed by sorted / set / frozenset / any / all / sum / min / max / len)

Inference is by name within one function (and `self.<attr>` within one class); it is a census of the syntactic forms above, not a type checker: a set
that reaches a loop through an untyped helper is not seen (the bounded two-run comparison of C09 is the net below it)."""
from __future__ import annotations

import ast
import os

INSENSITIVE_CONSUMERS = {"sorted", "set", "frozenset", "any", "all", "sum", "min", "max", "len"}
SET_METHODS_RETURNING_SET = {"union", "intersection", "difference", "symmetric_difference", "copy"}
# statements a loop body may consist of without the visiting order mattering: feeding other sets / commutative registries, logging, guards
INSENSITIVE_CALLS = {"add", "update", "discard", "add_import", "add_relative_import", "add_plain_import", "add_typing_imports_for_type", "add_conditional_import",
                     "debug", "info", "warning", "error", "mark_generated_module", "setdefault"}


def _ann_is_set(ann):
    if ann is None:
        return False
    t = ast.unparse(ann).replace("typing.", "")
    head = t.split("[")[0].strip().strip('"\'')
    return head in ("Set", "set", "FrozenSet", "frozenset", "AbstractSet", "MutableSet")


def _ann_is_dict_of_set(ann):
    if ann is None:
        return False
    t = ast.unparse(ann).replace("typing.", "").replace(" ", "")
    for head in ("Dict[", "dict[", "DefaultDict[", "defaultdict[", "Mapping[", "MutableMapping["):
        if t.startswith(head):
            inner = t[len(head):-1]
            # value type = text after the first top-level comma
            depth, k = 0, None
            for i, ch in enumerate(inner):
                if ch == "[":
                    depth += 1
                elif ch == "]":
                    depth -= 1
                elif ch == "," and depth == 0:
                    k = i
                    break
            if k is not None:
                v = inner[k + 1:]
                return v.split("[")[0] in ("Set", "set", "FrozenSet", "frozenset")
    return False


class _Scope:
    def __init__(self, set_returning, class_attrs=None, class_dict_attrs=None):
        self.sets, self.dicts_of_sets = set(), set()
        self.set_returning = set_returning
        self.class_attrs = class_attrs or set()
        self.class_dict_attrs = class_dict_attrs or set()

    def key(self, e):
        if isinstance(e, ast.Name):
            return e.id
        if isinstance(e, ast.Attribute) and isinstance(e.value, ast.Name) and e.value.id == "self":
            return "self." + e.attr
        return None

    def is_dict_of_sets(self, e):
        k = self.key(e)
        return k is not None and (k in self.dicts_of_sets or (k.startswith("self.") and k[5:] in self.class_dict_attrs))

    def is_set(self, e):
        if isinstance(e, (ast.Set, ast.SetComp)):
            return True
        k = self.key(e)
        if k is not None and (k in self.sets or (k.startswith("self.") and k[5:] in self.class_attrs)):
            return True
        if isinstance(e, ast.Call):
            f = e.func
            if isinstance(f, ast.Name) and f.id in ("set", "frozenset"):
                return True
            if isinstance(f, ast.Name) and f.id in self.set_returning:
                return True
            if isinstance(f, ast.Attribute):
                if f.attr in SET_METHODS_RETURNING_SET and self.is_set(f.value):
                    return True
                if f.attr in self.set_returning and f.attr not in ("get", "copy"):
                    return True
                if f.attr in ("get", "pop", "setdefault") and self.is_dict_of_sets(f.value):
                    return True
                if f.attr == "keys" and False:
                    return False
        if isinstance(e, ast.BinOp) and isinstance(e.op, (ast.BitOr, ast.BitAnd, ast.Sub, ast.BitXor)) and (self.is_set(e.left) or self.is_set(e.right)):
            return True
        if isinstance(e, ast.Subscript) and self.is_dict_of_sets(e.value):
            return True
        if isinstance(e, ast.IfExp):
            return self.is_set(e.body) or self.is_set(e.orelse)
        if isinstance(e, ast.BoolOp):
            return any(self.is_set(v) for v in e.values)
        return False


def _body_insensitive(body):
    """a loop body whose effect cannot depend on the visiting order: only feeds sets / commutative registries, logs, or guards such statements"""
    for st in body:
        if isinstance(st, (ast.Pass, ast.Continue)):
            continue
        if isinstance(st, ast.Expr) and isinstance(st.value, ast.Call) and isinstance(st.value.func, ast.Attribute) and st.value.func.attr in INSENSITIVE_CALLS:
            continue
        if isinstance(st, ast.Expr) and isinstance(st.value, ast.Constant):
            continue
        if isinstance(st, ast.AugAssign) and isinstance(st.op, ast.BitOr):
            continue
        if isinstance(st, ast.Assign) and all(isinstance(t, ast.Name) for t in st.targets) and (
                isinstance(st.value, (ast.Name, ast.Attribute, ast.Subscript, ast.Constant))
                or (isinstance(st.value, ast.Call) and isinstance(st.value.func, ast.Attribute) and st.value.func.attr == "get")):
            continue  # a per-iteration local read (no effect that outlives the iteration)
        if isinstance(st, ast.If) and _body_insensitive(st.body) and _body_insensitive(st.orelse):
            continue
        if isinstance(st, ast.For) and _body_insensitive(st.body) and not st.orelse:
            continue
        return False
    return True


def _collect_class_attrs(cls):
    sets, dicts = set(), set()
    for n in ast.walk(cls):
        if isinstance(n, ast.AnnAssign):
            tgt = n.target
            name = tgt.id if isinstance(tgt, ast.Name) else (tgt.attr if isinstance(tgt, ast.Attribute) and isinstance(tgt.value, ast.Name) and tgt.value.id == "self" else None)
            if name:
                if _ann_is_set(n.annotation):
                    sets.add(name)
                elif _ann_is_dict_of_set(n.annotation):
                    dicts.add(name)
        elif isinstance(n, ast.Assign) and len(n.targets) == 1:
            tgt = n.targets[0]
            if isinstance(tgt, ast.Attribute) and isinstance(tgt.value, ast.Name) and tgt.value.id == "self":
                v = n.value
                if isinstance(v, (ast.Set, ast.SetComp)) or (isinstance(v, ast.Call) and isinstance(v.func, ast.Name) and v.func.id in ("set", "frozenset")):
                    sets.add(tgt.attr)
                elif isinstance(v, ast.Call) and isinstance(v.func, ast.Name) and v.func.id == "defaultdict" and v.args and isinstance(v.args[0], ast.Name) and v.args[0].id in ("set", "frozenset"):
                    dicts.add(tgt.attr)
    return sets, dicts


def set_returning_functions(trees):
    out = set()
    for tree in trees.values():
        for n in ast.walk(tree):
            if isinstance(n, (ast.FunctionDef, ast.AsyncFunctionDef)) and _ann_is_set(n.returns):
                out.add(n.name)
    return out


def _parents(tree):
    par = {}
    for n in ast.walk(tree):
        for c in ast.iter_child_nodes(n):
            par[c] = n
    return par


def sites_in_function(fn, scope, par, src_lines):
    """order-sensitive uses of a set-typed expression inside one function -> [(lineno, kind, text)]"""
    out = []
    # 1. flow-insensitive inference of set-typed names
    for a in list(fn.args.args) + list(fn.args.kwonlyargs):
        if _ann_is_set(a.annotation):
            scope.sets.add(a.arg)
        elif _ann_is_dict_of_set(a.annotation):
            scope.dicts_of_sets.add(a.arg)
    for _ in range(3):
        for n in ast.walk(fn):
            if isinstance(n, ast.AnnAssign):
                k = scope.key(n.target)
                if k and (_ann_is_set(n.annotation) or (n.value is not None and scope.is_set(n.value))):
                    scope.sets.add(k)
                elif k and _ann_is_dict_of_set(n.annotation):
                    scope.dicts_of_sets.add(k)
            elif isinstance(n, ast.Assign):
                for tgt in n.targets:
                    k = scope.key(tgt)
                    if k and scope.is_set(n.value):
                        scope.sets.add(k)
                    elif k and isinstance(n.value, ast.Call) and isinstance(n.value.func, ast.Name) and n.value.func.id == "defaultdict" and n.value.args and isinstance(
                            n.value.args[0], ast.Name) and n.value.args[0].id in ("set", "frozenset"):
                        scope.dicts_of_sets.add(k)
            elif isinstance(n, (ast.For, ast.comprehension)):
                # for k, v in d.items() with d a dict of sets: v is a set
                it, tgt = n.iter, n.target
                if isinstance(it, ast.Call) and isinstance(it.func, ast.Attribute) and it.func.attr == "items" and scope.is_dict_of_sets(it.func.value):
                    if isinstance(tgt, ast.Tuple) and len(tgt.elts) == 2 and isinstance(tgt.elts[1], ast.Name):
                        scope.sets.add(tgt.elts[1].id)
                if isinstance(it, ast.Call) and isinstance(it.func, ast.Attribute) and it.func.attr == "values" and scope.is_dict_of_sets(it.func.value) and isinstance(tgt, ast.Name):
                    scope.sets.add(tgt.id)

    def consumed_insensitively(node):
        p = par.get(node)
        return isinstance(p, ast.Call) and isinstance(p.func, ast.Name) and p.func.id in INSENSITIVE_CONSUMERS and node in p.args

    def text(n):
        return src_lines[n.lineno - 1].strip()[:160]
    for n in ast.walk(fn):
        if isinstance(n, ast.For) and scope.is_set(n.iter):
            if not _body_insensitive(n.body):
                out.append((n.lineno, "for-loop over a set", text(n)))
        elif isinstance(n, (ast.ListComp, ast.GeneratorExp, ast.DictComp)):
            if any(scope.is_set(g.iter) for g in n.generators) and not consumed_insensitively(n):
                out.append((n.lineno, "comprehension over a set", text(n)))
        elif isinstance(n, ast.Call):
            f = n.func
            if isinstance(f, ast.Name) and f.id in ("list", "tuple", "enumerate", "iter") and n.args and scope.is_set(n.args[0]) and not consumed_insensitively(n):
                out.append((n.lineno, f"{f.id}() of a set", text(n)))
            elif isinstance(f, ast.Attribute) and f.attr == "join" and n.args and scope.is_set(n.args[0]):
                out.append((n.lineno, "join over a set", text(n)))
            elif isinstance(f, ast.Attribute) and f.attr == "pop" and not n.args and scope.is_set(f.value):
                out.append((n.lineno, "pop() from a set", text(n)))
        elif isinstance(n, ast.Starred) and scope.is_set(n.value):
            out.append((n.lineno, "unpacking of a set", text(n)))
    return out


def census(src_root):
    """-> {"<module>:<qualified function>": [(kind, normalised line text)]} over every module below src_root"""
    trees, lines = {}, {}
    for dp, dn, fs in os.walk(src_root):
        dn[:] = [d for d in dn if d != "__pycache__"]
        for f in sorted(fs):
            if f.endswith(".py"):
                p = os.path.join(dp, f)
                try:
                    txt = open(p, encoding="utf-8").read()
                    trees[p] = ast.parse(txt)
                    lines[p] = txt.splitlines()
                except (SyntaxError, UnicodeDecodeError):
                    continue
    set_ret = set_returning_functions(trees)
    out = {}
    for p, tree in trees.items():
        rel = os.path.relpath(p, src_root)[:-3].replace(os.sep, ".")
        par = _parents(tree)

        def visit(body, prefix, cattrs, cdicts):
            for n in body:
                if isinstance(n, ast.ClassDef):
                    s_, d_ = _collect_class_attrs(n)
                    visit(n.body, prefix + n.name + ".", s_, d_)
                elif isinstance(n, (ast.FunctionDef, ast.AsyncFunctionDef)):
                    found = sites_in_function(n, _Scope(set_ret, cattrs, cdicts), par, lines[p])
                    if found:
                        out[f"{rel}:{prefix}{n.name}"] = sorted({(k, t) for _ln, k, t in found})
        visit(tree.body, "", set(), set())
    return out
