"""Generate the shape corpus with the CURRENT /repo tree (public API) into scratch directories, in parallel."""
from __future__ import annotations

import ast
import json
import multiprocessing as mp
import os
import shutil
import tempfile

from props import corpus
from props import gen_harness as G


def _gen_one(arg):
    name, d, root, pkg, core = arg
    import logging
    import warnings
    logging.disable(logging.CRITICAL)
    warnings.simplefilter("ignore")
    import io
    import contextlib
    buf = io.StringIO()
    with contextlib.redirect_stdout(buf), contextlib.redirect_stderr(buf):
        err = G.generate(d, root, pkg, core_package=core)
    return name, (None if err is None else f"{type(err).__name__}: {str(err)[:300]}")


class Generated:
    def __init__(self, name, feat, doc, root, pkg, core, error):
        self.name, self.feat, self.doc, self.root, self.pkg, self.core, self.error = name, feat, doc, root, pkg, core, error

    @property
    def pkg_dir(self):
        return os.path.join(self.root, *self.pkg.split("."))

    @property
    def core_pkg(self):
        return self.core or self.pkg + ".core"

    def py_files(self):
        out = []
        for base in {self.pkg_dir, os.path.join(self.root, *self.core_pkg.split("."))}:
            for dp, dn, fs in os.walk(base):
                dn[:] = [x for x in dn if x != "__pycache__"]
                out += [os.path.join(dp, f) for f in fs if f.endswith(".py")]
        return sorted(set(out))


def generate_corpus(tier="quick", seed=0, layouts=None, only=None):
    base = tempfile.mkdtemp(prefix="corpus_", dir=os.environ.get("TMPDIR"))
    shp = corpus.shapes(tier, seed)
    if only:
        shp = [s for s in shp if s[0] in only]
    layouts = layouts or [corpus.LAYOUTS[0]]
    jobs, metas = [], []
    for i, (name, feat, d) in enumerate(shp):
        for j, (pkg, core) in enumerate(layouts if feat.get("layouts") or j_all(tier, i) else layouts[:1]):
            root = os.path.join(base, f"s{i}_{j}")
            os.makedirs(root)
            jobs.append((f"{name}@{pkg}", d, root, pkg, core))
            metas.append((f"{name}@{pkg}", feat, d, root, pkg, core))
    ctx = mp.get_context("fork")
    with ctx.Pool(min(16, max(1, len(jobs)))) as pool:
        res = dict(pool.map(_gen_one, jobs, chunksize=1))
    return base, [Generated(n, f, d, r, p, c, res[n]) for (n, f, d, r, p, c) in metas]


def j_all(tier, i):
    # in the quick tier every 4th shape is additionally generated in the deeper / shared-core layouts
    return tier == "thorough" or i % 4 == 0


def cleanup(base):
    shutil.rmtree(base, ignore_errors=True)
