"""C02 — schema-to-model structure fidelity (no silently lost fields)."""
from __future__ import annotations

import itertools
import json
import random

ID = "C02"
LEVEL = "other"
CONTRACT_MODULES = ["contracts.cycle", "contracts.allof", "contracts.decollision"]
EXPLANATION = ("Proved: one arbitrary iteration of the allOf member loop of _process_all_of merges the member's `required` names into the result "
               "and never drops an earlier one (so the final set covers own + every member's requirements); the field loop of "
               "DataclassGenerator.generate never binds two properties to one Python field. The rest of the statement (field set per model "
               "independent of cycles, naming and declaration order; structural kind of each field) is checked by the bounded stand-in: every "
               "document of a small-scope graph enumeration is loaded and each named object schema's property set / required set is compared "
               "with an independent reference resolver, in every declaration order.")
TRUSTED = ["the callback _parse_schema_func is _parse_schema (depth-balance contract)", "the reference resolver of the bounded stand-in (props/C02.py) reads the raw document"]
REF = "#/components/schemas/"


def ref_fields(raw, name, seen=()):
    """reference: (property names, required names) of a named object schema incl. allOf inheritance"""
    node = raw[name]
    props, req = list(node.get("properties", {})), set(node.get("required", []))
    for m in node.get("allOf", []):
        if "$ref" in m:
            t = m["$ref"].split("/")[-1]
            if t not in seen:
                p2, r2 = ref_fields(raw, t, seen + (name,))
                props += [p for p in p2 if p not in props]
                req |= r2
        else:
            props += [p for p in m.get("properties", {}) if p not in props]
            req |= set(m.get("required", []))
    return props, req


def _edge(kind, target):
    r = {"$ref": REF + target}
    return {"prop": r, "array": {"type": "array", "items": r}, "map": {"type": "object", "additionalProperties": r},
            "oneOf": {"oneOf": [r, {"type": "string"}]}, "inline": {"type": "object", "properties": {"inner": r}}}[kind]


def _edge_key(raw):
    """shape of a generated graph document: the kinds of its reference edges, e.g. 'cross:array+self:map'"""
    out = []
    for a, node in raw.items():
        for pn, p in (node.get("properties") or {}).items():
            if not (pn.startswith("e") and pn[1:].isdigit()):
                continue
            tgt = str(p).split(REF)[1].split("'")[0]
            kind = "prop" if "$ref" in p else ("array" if p.get("type") == "array" else "map" if "additionalProperties" in p else "oneOf" if "oneOf" in p else "inline")
            out.append(("self" if a == tgt else "cross") + ":" + kind)
    if any("additionalProperties" in node and "$ref" in str(node["additionalProperties"]) for node in raw.values()):
        out.append("schema-level-additionalProperties")
    return "+".join(sorted(out))


def documents(tier, seed):
    rnd = random.Random(seed)
    name_sets = [["User", "UserGroup"], ["A", "B"]] if tier == "quick" else [["User", "UserGroup", "Org"], ["A", "B", "C"], ["Tree", "Node", "Leaf"]]
    kinds = ["prop", "array", "map", "oneOf", "inline"]
    for names in name_sets:
        pairs = [(a, b) for a in names for b in names]
        combos = list(itertools.product(pairs, kinds))
        picks = list(itertools.combinations(combos, 2))
        rnd.shuffle(picks)
        for pick in picks[: (250 if tier == "quick" else 3000)]:
            raw = {n: {"type": "object", "properties": {"id": {"type": "string"}, "n": {"type": "integer"}}, "required": ["id"]} for n in names}
            for k, ((a, b), kind) in enumerate(pick):
                raw[a]["properties"][f"e{k}"] = _edge(kind, b)
            for order in itertools.permutations(names):
                yield {n: raw[n] for n in order}
    # allOf inheritance incl. members that only declare `required`
    base = {"Base": {"type": "object", "properties": {"id": {"type": "string"}, "name": {"type": "string"}, "kind": {"type": "string"}}, "required": ["kind"]},
            "Mixin": {"required": ["id", "name"]},
            "Strict": {"allOf": [{"$ref": REF + "Base"}, {"required": ["id", "name"]}]},
            "Strict2": {"allOf": [{"$ref": REF + "Base"}, {"$ref": REF + "Mixin"}, {"type": "object", "properties": {"extra": {"type": "integer"}}, "required": ["extra"]}]},
            "SelfMap": {"type": "object", "properties": {"a": {"type": "string"}, "b": {"type": "integer"}}, "additionalProperties": {"$ref": REF + "SelfMap"}},
            "SelfArrMap": {"type": "object", "properties": {"a": {"type": "string"}}, "additionalProperties": {"type": "array", "items": {"$ref": REF + "SelfArrMap"}}}}
    for order in itertools.permutations(list(base))if tier != "quick" else [list(base), list(reversed(list(base)))]:
        yield {n: base[n] for n in order}


def bounded_field_sets(tier, seed):
    import logging
    logging.disable(logging.CRITICAL)
    from pyopenapi_gen.core.loader.loader import load_ir_from_spec
    from pyopenapi_gen.core.utils import NameSanitizer
    n, failures, seen_fail = 0, [], set()
    for raw in documents(tier, seed):
        n += 1
        doc = {"openapi": "3.0.0", "info": {"title": "t", "version": "1"}, "paths": {}, "components": {"schemas": raw}}
        try:
            ir = load_ir_from_spec(doc)
        except Exception as e:  # noqa
            failures.append({"id": "bounded:load-failed", "detail": f"{type(e).__name__}: {str(e)[:150]}", "input": {"schemas": list(raw)}})
            continue
        for name in raw:
            if raw[name].get("type") != "object" and "allOf" not in raw[name]:
                continue
            sch = ir.schemas.get(name) or ir.schemas.get(NameSanitizer.sanitize_class_name(name))
            want_p, want_r = ref_fields(raw, name)
            if sch is None:
                key = ("missing", name)
                if key not in seen_fail:
                    seen_fail.add(key)
                    failures.append({"id": f"bounded:schema-missing:{name}", "detail": f"declared schema {name} has no model (order {list(raw)})", "input": {"order": list(raw), "schemas": raw}})
                continue
            got_p = list((sch.properties or {}).keys())
            got_r = set(sch.required or [])
            if set(got_p) != set(want_p):
                ek = _edge_key(raw)
                if not got_p and ek:
                    fid = f"bounded:fields:all-lost:{ek}"   # every declared property lost; graph shape = kinds of its reference edges
                else:
                    fid = f"bounded:fields:{name}:lost={sorted(set(want_p) - set(got_p))}:extra={sorted(set(got_p) - set(want_p))}:{ek}"
                if fid not in seen_fail:
                    seen_fail.add(fid)
                    failures.append({"id": fid, "detail": f"schema {name} (declaration order {list(raw)}): fields {sorted(got_p)} expected {sorted(want_p)}", "input": {"order": list(raw), "schemas": raw}})
            elif got_r & set(want_p) != want_r & set(want_p):
                key = ("required", name)
                if key not in seen_fail:
                    seen_fail.add(key)
                    failures.append({"id": f"bounded:required:{name}", "detail": f"schema {name}: required {sorted(got_r)} expected {sorted(want_r)} (order {list(raw)})", "input": {"order": list(raw), "schemas": raw}})
    return {"function": "load_ir_from_spec: property set and required set of every named object schema vs. a reference resolver, in every declaration order",
            "backend": "bounded enumeration", "bound": "pairs of edges over 2 (quick) / 3 (thorough) named schemas x 5 edge kinds x all declaration orders (capped), + 6 allOf / map-self-reference schemas",
            "evaluations": n, "distinct_nontrivial": n, "exhaustive": False, "failures": failures}


def _emitted_models(pkg_dir):
    """class name -> {"wire": {wire key: python field}, "required": {python fields without default}, "fields": [python fields]} for every dataclass emitted"""
    import ast
    import os
    out = {}
    mdir = os.path.join(pkg_dir, "models")
    for f in sorted(os.listdir(mdir)):
        if not f.endswith(".py") or f == "__init__.py":
            continue
        tree = ast.parse(open(os.path.join(mdir, f), encoding="utf-8").read())
        for al in [a for a in tree.body if isinstance(a, ast.AnnAssign) and isinstance(a.target, ast.Name) and "TypeAlias" in ast.unparse(a.annotation) and a.value is not None]:
            out.setdefault("__aliases__", {})[al.target.id] = ast.unparse(al.value)
        for cls in [c for c in tree.body if isinstance(c, ast.ClassDef)]:
            fields = [x for x in cls.body if isinstance(x, ast.AnnAssign) and isinstance(x.target, ast.Name)]
            wire = None
            for meta in [c for c in cls.body if isinstance(c, ast.ClassDef) and c.name == "Meta"]:
                for a in meta.body:
                    if isinstance(a, ast.Assign) and isinstance(a.targets[0], ast.Name) and a.targets[0].id == "key_transform_with_load":
                        try:
                            wire = ast.literal_eval(a.value)
                        except Exception:  # noqa
                            wire = None
            is_dc = any("dataclass" in ast.unparse(d) for d in cls.decorator_list)
            out[cls.name] = {"fields": [x.target.id for x in fields], "required": {x.target.id for x in fields if x.value is None}, "wire": wire, "dataclass": is_dc,
                             "bases": [ast.unparse(b) for b in cls.bases], "annotations": {x.target.id: ast.unparse(x.annotation) for x in fields}}
    return out


def bounded_emitted_models(tier, seed):
    """the EMITTED dataclass of every named object schema has exactly one field per declared property (own and allOf-merged), reachable under its wire
    key, required exactly when the schema requires it — whatever else the schema carries (additionalProperties in every form, nullable, enums, maps)"""
    import os
    import shutil
    from props import gen_harness as G
    from pyopenapi_gen.core.utils import NameSanitizer
    S = {"type": "string"}
    base_props = {"id": S, "user-id": {"type": "integer"}, "tags": {"type": "array", "items": S}, "when": {"type": "string", "format": "date-time", "nullable": True}}
    schemas = {
        "Plain": {"type": "object", "required": ["id"], "properties": dict(base_props)},
        "ApTrue": {"type": "object", "required": ["id"], "properties": dict(base_props), "additionalProperties": True},
        "ApFalse": {"type": "object", "required": ["id"], "properties": dict(base_props), "additionalProperties": False},
        "ApString": {"type": "object", "required": ["id"], "properties": dict(base_props), "additionalProperties": S},
        "ApRef": {"type": "object", "required": ["id", "user-id"], "properties": dict(base_props), "additionalProperties": {"$ref": REF + "Plain"}},
        "ApInline": {"type": "object", "properties": {"k": S}, "additionalProperties": {"type": "object", "properties": {"z": S}}},
        "Child": {"allOf": [{"$ref": REF + "Plain"}, {"type": "object", "required": ["extra"], "properties": {"extra": S, "grade": {"type": "integer", "enum": [0, 1, 2]}}}]},
        "ChildAp": {"allOf": [{"$ref": REF + "ApString"}, {"type": "object", "properties": {"more": S}}]},
        "Nested": {"type": "object", "required": ["inner"], "properties": {"inner": {"type": "object", "properties": {"a": S}, "additionalProperties": S},
                                                                         "items": {"type": "array", "items": {"type": "object", "properties": {"q": S}}},
                                                                         "by_name": {"type": "object", "additionalProperties": {"$ref": REF + "Plain"}},
                                                                         "mode": {"type": "string", "enum": ["", "on", "off"]}}},
        "OnlyMap": {"type": "object", "additionalProperties": {"$ref": REF + "Plain"}},
        "NoType": {"properties": {"x": S, "y": S}, "required": ["y"]},
        # optional properties carrying a default of every kind: none of them may turn into a required field
        "Defaults": {"type": "object", "required": ["id"], "properties": {
            "id": S, "s": {"type": "string", "default": "x"}, "i": {"type": "integer", "default": 0}, "b": {"type": "boolean", "default": False},
            "arr": {"type": "array", "items": S, "default": ["a"]}, "free": {"type": "object", "default": {"k": 1}},
            "prefs": {"type": "object", "properties": {"theme": S}, "default": {"theme": "dark"}},
            "settings": {"allOf": [{"$ref": REF + "Plain"}], "default": {"id": "d"}},
            "n": {"type": "number", "default": 1.5}, "e": {"type": "string", "enum": ["a", "b"], "default": "a"}}},
        "Level": {"type": "integer", "enum": [0, 1, 2, -1]},
        "Mode": {"type": "string", "enum": ["", "on", "off", "0", "false"]},
    }
    enums = {"Level": [0, 1, 2, -1], "Mode": ["", "on", "off", "0", "false"], "NestedMode": ["", "on", "off"]}
    d = {"openapi": "3.0.3", "info": {"title": "m", "version": "1"},
         "paths": {"/x": {"get": {"operationId": "getX", "responses": {"200": {"description": "ok", "content": {"application/json": {"schema": {"$ref": REF + "Nested"}}}}}}}},
         "components": {"schemas": schemas}}
    failures, n = [], 0
    root = G.scratch("c02m")
    try:
        err = G.generate(d, root, "cli")
        if err is not None:
            return {"function": "emitted models", "backend": "bounded", "bound": "generation failed", "evaluations": 0, "distinct_nontrivial": 0, "exhaustive": False,
                    "failures": [{"id": "bounded:emitted-model:generation", "detail": f"{type(err).__name__}: {err}", "input": {}}]}
        models = _emitted_models(os.path.join(root, "cli"))
        for name, sch in schemas.items():
            want_p, want_r = ref_fields(schemas, name)
            if not want_p:
                continue  # a pure map: no declared properties, any representation is fine here
            n += 1
            cname = NameSanitizer.sanitize_class_name(name)
            m = models.get(cname)
            if m is None:
                failures.append({"id": f"bounded:emitted-model:{name}:missing", "detail": f"no class {cname} emitted for schema {name}", "input": {"schema": name}})
                continue
            wire = m["wire"] if isinstance(m["wire"], dict) else {f: f for f in m["fields"]}
            got = {w for w, py in wire.items() if py in m["fields"]}
            if got != set(want_p):
                failures.append({"id": f"bounded:emitted-model:{name}:fields", "detail": f"schema {name}: emitted class {cname} carries wire keys {sorted(got)} (fields {m['fields']}, bases {m['bases']}), "
                                 f"declared properties {sorted(want_p)}", "input": {"schema": name, "definition": sch}})
                continue
            got_req = {w for w, py in wire.items() if py in m["required"]}
            if got_req != set(want_r) & set(want_p):
                failures.append({"id": f"bounded:emitted-model:{name}:required", "detail": f"schema {name}: required wire keys {sorted(got_req)}, declared {sorted(set(want_r) & set(want_p))}",
                                 "input": {"schema": name}})
        # enumerations: the emitted Enum has exactly the declared values (a falsy member such as 0 or "" is a member like any other)
        import ast as _ast
        mdir = os.path.join(root, "cli", "models")
        emitted_enums = {}
        for f in sorted(os.listdir(mdir)):
            if f.endswith(".py") and f != "__init__.py":
                for cls in [c for c in _ast.parse(open(os.path.join(mdir, f), encoding="utf-8").read()).body if isinstance(c, _ast.ClassDef)]:
                    if any("Enum" in _ast.unparse(b) for b in cls.bases):
                        vals = []
                        for a in cls.body:
                            if isinstance(a, _ast.Assign) and isinstance(a.targets[0], _ast.Name):
                                try:
                                    vals.append(_ast.literal_eval(a.value))
                                except Exception:  # noqa
                                    pass
                        emitted_enums[cls.name] = vals
        for ename, want in enums.items():
            n += 1
            cands = [v for k, v in emitted_enums.items() if k.lower().replace("_", "") in (ename.lower(), ename.lower() + "enum")]
            if not cands:
                failures.append({"id": f"bounded:emitted-enum:{ename}:missing", "detail": f"no Enum class for {ename} among {sorted(emitted_enums)}", "input": {"enum": ename}})
            elif sorted(map(repr, cands[0])) != sorted(map(repr, want)):
                failures.append({"id": f"bounded:emitted-enum:{ename}:members", "detail": f"enum {ename}: emitted values {cands[0]!r}, declared {want!r}", "input": {"enum": ename, "declared": want}})
        # a declared enum next to an inline enum property of the same name inside an anonymous allOf member (IR level)
        from pyopenapi_gen.core.loader.loader import load_ir_from_spec
        d2 = {"openapi": "3.0.3", "info": {"title": "t", "version": "1"}, "paths": {}, "components": {"schemas": {
            "Plain": {"type": "object", "properties": {"id": S}},
            "Child": {"allOf": [{"$ref": REF + "Plain"}, {"type": "object", "properties": {"level": {"type": "integer", "enum": [0, 1, 2]}}}]},
            "Level": {"type": "integer", "enum": [0, 1, 2, -1]}}}}
        n += 1
        ir2 = load_ir_from_spec(d2)
        got2 = list(ir2.schemas["Level"].enum or []) if "Level" in ir2.schemas else None
        if got2 is None or sorted(got2) != [-1, 0, 1, 2]:
            failures.append({"id": "bounded:declared-enum-overwritten-by-promoted-inline-enum:Level", "detail": f"declared schema Level (enum [0, 1, 2, -1]) ends up with values {got2}: the inline enum of "
                             "property `level` inside an anonymous allOf member is registered under the same name", "input": {"schemas": d2["components"]["schemas"]}})
    finally:
        shutil.rmtree(root, ignore_errors=True)
    return {"function": "generate_client: fields / wire keys / required flags of every EMITTED dataclass vs. the declared properties of its schema",
            "backend": "bounded", "bound": f"{len(schemas)} schemas: properties with additionalProperties true / false / schema / $ref / inline, allOf children, nested inline objects, "
                                           "maps, enums with falsy members, untyped object", "evaluations": n, "distinct_nontrivial": n, "exhaustive": False, "failures": failures}


def bounded_emitted_models_random(tier, seed):
    """the same emitted-model oracle over the random documents of the corpus (fixed seeds): whatever mix of features a document has, every named object
    schema comes out as a class with exactly its declared properties (own + allOf) under their wire keys, required as declared"""
    import os
    import shutil
    from props import corpus, gen_harness as G
    from pyopenapi_gen.core.utils import NameSanitizer
    docs = [(n, d) for n, f, d in corpus.shapes(tier, seed) if f.get("random_doc") or (f.get("schemas") and "collision" not in n and "graph" not in n)]
    failures, n = [], 0
    for name, d in docs:
        schemas = d["components"]["schemas"]
        root = G.scratch("c02r")
        try:
            if G.generate(d, root, "cli") is not None:
                continue
            models = _emitted_models(os.path.join(root, "cli"))
            # every named schema — object, enum, primitive or container alias, union — is represented: a class or an alias under its class name
            for sname, sch in schemas.items():
                if not isinstance(sch, dict):
                    continue
                n += 1
                cname = NameSanitizer.sanitize_class_name(sname)
                if cname not in models and cname not in models.get("__aliases__", {}):
                    failures.append({"id": f"bounded:emitted-model-random:{name}:unrepresented", "detail": f"{name}: named schema {sname} has neither a class nor an alias {cname} in models/",
                                     "input": {"document": name, "schema": sname, "definition": sch}})
            for sname, sch in schemas.items():
                if not isinstance(sch, dict) or not (sch.get("properties") or sch.get("allOf")):
                    continue
                want_p, want_r = ref_fields(schemas, sname)
                if not want_p:
                    continue
                n += 1
                m = models.get(NameSanitizer.sanitize_class_name(sname))
                if m is None:
                    failures.append({"id": f"bounded:emitted-model-random:{name}:missing", "detail": f"{name}: no class for schema {sname}", "input": {"document": name, "schema": sname}})
                    continue
                wire = m["wire"] if isinstance(m["wire"], dict) else {f: f for f in m["fields"]}
                got = {w for w, py in wire.items() if py in m["fields"]}
                if got != set(want_p):
                    failures.append({"id": f"bounded:emitted-model-random:{name}:fields", "detail": f"{name}: schema {sname}: wire keys {sorted(got)}, declared {sorted(want_p)}",
                                     "input": {"document": name, "schema": sname, "definition": sch}})
                    continue
                got_req = {w for w, py in wire.items() if py in m["required"]}
                if got_req != set(want_r) & set(want_p):
                    failures.append({"id": f"bounded:emitted-model-random:{name}:required", "detail": f"{name}: schema {sname}: required {sorted(got_req)}, declared {sorted(set(want_r) & set(want_p))}",
                                     "input": {"document": name, "schema": sname}})
        finally:
            shutil.rmtree(root, ignore_errors=True)
    return {"function": "generate_client on the random documents of the corpus: emitted dataclass fields / wire keys / required flags vs. declared properties", "backend": "bounded",
            "bound": f"{len(docs)} random documents (fixed seeds), {n} object schemas", "evaluations": n, "distinct_nontrivial": n, "exhaustive": False, "failures": failures}


def expected_kinds(schemas, sch, depth=0):
    """reference, written from the statement: the structural kinds a property's annotation has to mention — str / int / float / bool (formatted strings by
    their Python type), List, Dict, the class of a referenced object or enum schema, None for nullable — as a set of identifier tokens.  Inline objects and
    inline enums get generated class names that are not predicted here (no token).  None when the schema says nothing definite (free-form)."""
    from pyopenapi_gen.core.utils import NameSanitizer
    if not isinstance(sch, dict) or depth > 8:
        return set()
    out = set()
    if sch.get("nullable"):
        out.add("None")
    if "$ref" in sch:
        name = sch["$ref"].split("/")[-1]
        tgt = schemas.get(name)
        if not isinstance(tgt, dict):
            return out
        if tgt.get("properties") or tgt.get("allOf") or ("enum" in tgt) or tgt.get("oneOf") or tgt.get("anyOf"):
            return out | {NameSanitizer.sanitize_class_name(name)}
        return out  # alias of a primitive / container: rendered either by its alias name or by its target (both accepted: no token demanded)
    for key in ("oneOf", "anyOf"):
        if key in sch:
            for m in sch[key]:
                t = m.get("type") if isinstance(m, dict) else None
                if t == "null" or t == ["null"]:
                    out.add("None")
                else:
                    out |= expected_kinds(schemas, m, depth + 1)
            return out
    if "allOf" in sch or "enum" in sch:
        return out
    t = sch.get("type")
    for one in (t if isinstance(t, list) else [t]):
        if one == "null":
            out.add("None")
        elif one == "string":
            out.add({"date": "date", "date-time": "datetime", "uuid": "UUID", "byte": "bytes", "binary": "bytes"}.get(sch.get("format"), "str"))
        elif one == "integer":
            out.add("int")
        elif one == "number":
            out.add("float")
        elif one == "boolean":
            out.add("bool")
        elif one == "array":
            out.add("List")
            out |= {k for k in expected_kinds(schemas, sch.get("items") or {}, depth + 1) if k != "None"}
        elif one == "object" and not sch.get("properties") and isinstance(sch.get("additionalProperties"), dict):
            out.add("Dict")
            out |= {k for k in expected_kinds(schemas, sch["additionalProperties"], depth + 1) if k != "None"}
    return out


def _annotation_tokens(text):
    import re
    toks = set(re.findall(r"[A-Za-z_][A-Za-z0-9_]*", text))
    # spellings that denote the same kind
    if "list" in toks:
        toks.add("List")
    if "dict" in toks:
        toks.add("Dict")
    if "Optional" in toks:
        toks.add("None")
    return toks


KIND_SCHEMAS = {
    "Leaf": {"type": "object", "properties": {"id": {"type": "string"}}, "required": ["id"]},
    "Mode": {"type": "string", "enum": ["a", "b"]},
    "Holder": {"type": "object", "properties": {
        "one_of_ref_or_nullable_string": {"oneOf": [{"$ref": REF + "Leaf"}, {"type": ["string", "null"]}]},
        "any_of_int_or_nullable_string": {"anyOf": [{"type": "integer"}, {"type": ["string", "null"]}]},
        "one_of_ref_or_nullable_array": {"oneOf": [{"$ref": REF + "Leaf"}, {"type": ["array", "null"], "items": {"$ref": REF + "Leaf"}}]},
        "one_of_with_null_member": {"oneOf": [{"$ref": REF + "Leaf"}, {"type": "integer"}, {"type": "null"}]},
        "any_of_three": {"anyOf": [{"type": "string"}, {"type": "integer"}, {"type": "boolean"}]},
        "list_of_union": {"type": "array", "items": {"oneOf": [{"$ref": REF + "Leaf"}, {"type": "string"}]}},
        "map_of_leaf": {"type": "object", "additionalProperties": {"$ref": REF + "Leaf"}},
        "map_of_list_of_int": {"type": "object", "additionalProperties": {"type": "array", "items": {"type": "integer"}}},
        "nullable_ref_list": {"type": "array", "nullable": True, "items": {"$ref": REF + "Mode"}},
        "when": {"type": "string", "format": "date-time"}, "day": {"type": "string", "format": "date"}, "ident": {"type": "string", "format": "uuid"},
        "blob": {"type": "string", "format": "byte"}, "ratio": {"type": "number"}, "flag": {"type": "boolean"}, "mode": {"$ref": REF + "Mode"}, "leaf": {"$ref": REF + "Leaf"}}},
    "Batch": {"oneOf": [{"$ref": REF + "Leaf"}, {"type": ["array", "null"], "items": {"$ref": REF + "Leaf"}}]},
}


def bounded_emitted_kinds(tier, seed):
    """"typed with the structural kind the spec gives": every kind the reference derives from a property's schema (primitive, formatted leaf, List, Dict, referenced
    class, every member of a oneOf / anyOf incl. OpenAPI 3.1 type lists, None for nullable) is mentioned by the emitted field's annotation — no member of a
    union, no item / value kind is silently dropped"""
    import os
    import shutil
    from props import corpus, gen_harness as G
    from pyopenapi_gen.core.utils import NameSanitizer
    docs = [("kinds", {"openapi": "3.1.0", "info": {"title": "K", "version": "1"}, "paths": {}, "components": {"schemas": KIND_SCHEMAS}})]
    docs += [(n, d) for n, f, d in corpus.shapes(tier, seed) if f.get("random_doc")][: (4 if tier == "quick" else 60)]
    failures, n = [], 0
    for name, d in docs:
        schemas = d["components"]["schemas"]
        root = G.scratch("c02k")
        try:
            if G.generate(d, root, "cli") is not None:
                if name == "kinds":
                    failures.append({"id": "bounded:emitted-kinds:kinds:generation", "detail": "the kinds document was rejected", "input": {"document": name}})
                continue
            models = _emitted_models(os.path.join(root, "cli"))
            for sname, sch in schemas.items():
                if not isinstance(sch, dict) or not sch.get("properties"):
                    continue
                m = models.get(NameSanitizer.sanitize_class_name(sname))
                if m is None or not isinstance(m.get("wire"), dict) and any(p not in m["fields"] for p in sch["properties"]):
                    continue  # presence of classes / fields is judged by bounded_emitted_models
                wire = m["wire"] if isinstance(m["wire"], dict) else {f: f for f in m["fields"]}
                for pn, ps in sch["properties"].items():
                    py = wire.get(pn)
                    if py is None or py not in m["annotations"]:
                        continue
                    want = expected_kinds(schemas, ps)
                    if pn not in sch.get("required", []) or True:
                        want = want  # (optionality is judged elsewhere; None is only demanded when the schema itself is nullable)
                    n += 1
                    got = _annotation_tokens(m["annotations"][py])
                    # a generated alias stands for its target, a generated Enum class for the primitive kind of its values
                    aliases = models.get("__aliases__", {})
                    for _ in range(6):
                        more = set()
                        for tok in list(got):
                            if tok in aliases:
                                more |= _annotation_tokens(aliases[tok])
                            elif tok in models and isinstance(models[tok], dict) and any("Enum" in b for b in models[tok].get("bases", [])):
                                more |= {"str", "int"}
                            elif tok in models and isinstance(models[tok], dict) and "_data" in models[tok].get("annotations", {}):
                                more |= _annotation_tokens(models[tok]["annotations"]["_data"])  # typed map wrapper class: stands for its mapping
                        if more <= got:
                            break
                        got |= more
                    if "bytes" in want and "str" in got:
                        got.add("bytes")  # format byte / binary may be carried as base64 text
                    lost = sorted(k for k in want if k not in got and not (k == "None" and "Any" in got))
                    if lost and "Any" not in got:
                        failures.append({"id": f"bounded:emitted-kinds:{name}:{sname}.{pn}", "detail": f"{name}: {sname}.{pn}: annotation `{m['annotations'][py]}` lacks {lost} (schema {json.dumps(ps)[:160]})",
                                         "input": {"document": name, "schema": sname, "property": pn, "definition": ps}})
        finally:
            shutil.rmtree(root, ignore_errors=True)
    return {"function": "emitted field annotations vs. the structural kinds of the declared property schemas (unions member by member, OpenAPI 3.1 type lists)", "backend": "bounded",
            "bound": f"{len(docs)} documents (1 hand-built with 17 property shapes + random corpus documents), {n} properties", "evaluations": n, "distinct_nontrivial": n,
            "exhaustive": False, "failures": failures}


def bounded_one_model_per_schema(tier, seed):
    """"exactly one model": among the emitted classes and aliases, the definitions named after a declared schema (its class name, also with the escaping underscore
    or a numeric de-collision suffix) are not more numerous than the declared schemas that share that name"""
    import os
    import re
    import shutil
    from props import corpus, gen_harness as G
    from pyopenapi_gen.core.utils import NameSanitizer
    C = corpus
    docs = [(n, d) for n, f, d in corpus.shapes(tier, seed) if f.get("random_doc") or n in ("primitive-alias-names", "mutual-object-refs")][: (6 if tier == "quick" else 70)]
    docs.append(("local:dashed-name", C.doc("FB", [C.op("/a", "get", "getA", ["t"], responses={"200": C.resp_json(C.ref("Foo-Bar"))}),
                                                    C.op("/b", "get", "getB", ["t"], responses={"200": C.resp_json(C.ref("Plain"))})],
                                            {"Foo-Bar": C.obj({"x": C.PRIMS["str"]}), "Plain": C.obj({"y": C.PRIMS["int"]})})))

    def base(nm):
        return re.sub(r"(_|\d+)$", "", nm)
    failures, n = [], 0
    for name, d in docs:
        schemas = d["components"]["schemas"]
        root = G.scratch("c02o")
        try:
            if G.generate(d, root, "cli") is not None:
                continue
            models = _emitted_models(os.path.join(root, "cli"))
            emitted = [k for k in models if k != "__aliases__"] + list(models.get("__aliases__", {}))
            declared = {}
            for sname in schemas:
                declared.setdefault(base(NameSanitizer.sanitize_class_name(sname)), []).append(sname)
            for b, snames in sorted(declared.items()):
                n += 1
                defs = sorted(e for e in emitted if base(e) == b and (e == b or re.fullmatch(re.escape(b) + r"(_|\d+|_\d+)", e)))
                if len(defs) > len(snames):
                    failures.append({"id": f"bounded:one-model-per-schema:{name}:{b}", "detail": f"{name}: schema(s) {snames} -> {len(defs)} definitions {defs}",
                                     "input": {"document": name, "schemas": snames, "definitions": defs}})
        finally:
            shutil.rmtree(root, ignore_errors=True)
    return {"function": "emitted classes / aliases named after a declared schema vs. the declared schemas of that name", "backend": "bounded",
            "bound": f"{len(docs)} documents, {n} declared names", "evaluations": n, "distinct_nontrivial": n, "exhaustive": False, "failures": failures}


def _witness_emitted_twice(k):
    r = bounded_one_model_per_schema("quick", 1)
    return any(f["id"].endswith(":local:dashed-name:FooBar") for f in r["failures"])


BOUNDED = [bounded_field_sets, bounded_emitted_models, bounded_emitted_models_random, bounded_emitted_kinds, bounded_one_model_per_schema]

MANIFEST = {
    "category": "other",
    "text": "Two mechanisms are proved for all inputs (allOf required-merge per member; injective field naming); field-set fidelity under cycles, naming "
            "and declaration order is compared against a reference resolver over an enumerated space of small schema graphs in every order.",
    "note": "The structural kind of each field's type (resolver over the IR) is not under contract: it is compared, bounded, with a reference derived from the property schema. Bounded in graph size.",
    "technique": "contract-based deductive verification (statement contracts, set algebra, z3) + bounded enumeration against a reference resolver",
}


def _witness_cycle(k):
    from pyopenapi_gen.core.loader.loader import load_ir_from_spec
    raw = {"A": {"type": "object", "properties": {"id": {"type": "string"}, "e0": {"type": "object", "additionalProperties": {"$ref": REF + "A"}}}}}
    ir = load_ir_from_spec({"openapi": "3.0.0", "info": {"title": "t", "version": "1"}, "paths": {}, "components": {"schemas": raw}})
    return len(ir.schemas["A"].properties or {}) == 0


def _witness_enum_overwritten(k):
    from pyopenapi_gen.core.loader.loader import load_ir_from_spec
    S = {"type": "string"}
    d2 = {"openapi": "3.0.3", "info": {"title": "t", "version": "1"}, "paths": {}, "components": {"schemas": {
        "Plain": {"type": "object", "properties": {"id": S}},
        "Child": {"allOf": [{"$ref": REF + "Plain"}, {"type": "object", "properties": {"level": {"type": "integer", "enum": [0, 1, 2]}}}]},
        "Level": {"type": "integer", "enum": [0, 1, 2, -1]}}}}
    return sorted(load_ir_from_spec(d2).schemas["Level"].enum or []) != [-1, 0, 1, 2]


WITNESS = {"F-C02-cyclic-schema-loses-fields": _witness_cycle, "F-C02-declared-enum-overwritten": _witness_enum_overwritten,
           "F-C02-schema-emitted-twice": _witness_emitted_twice}
