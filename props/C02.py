"""C02 — schema-to-model structure fidelity (no silently lost fields)."""
from __future__ import annotations

import itertools
import random

ID = "C02"
LEVEL = "other"
CONTRACT_MODULES = ["contracts.cycle", "contracts.allof", "contracts.decollision"]
EXPLANATION = ("Proved: one arbitrary iteration of the allOf member loop of _process_all_of merges the member's `required` names into the result "
               "and never drops an earlier one (so the final set covers own + every member's requirements); the field loop of "
               "DataclassGenerator.generate never binds two properties to one Python field. The rest of the statement (field set per model "
               "independent of cycles, naming and declaration order; structural kind of each field) is checked by the bounded stand-in: every "
               "document of a small-scope graph enumeration is loaded and each named object schema's property set / required set is compared "
               "with an independent reference resolver, in every declaration order.")
TRUSTED = ["the callback _parse_schema_func is _parse_schema (depth-balance contract)", "the reference resolver of the bounded stand-in (props/C02.py) reads the raw document"]
REF = "#/components/schemas/"


def ref_fields(raw, name, seen=()):
    """reference: (property names, required names) of a named object schema incl. allOf inheritance"""
    node = raw[name]
    props, req = list(node.get("properties", {})), set(node.get("required", []))
    for m in node.get("allOf", []):
        if "$ref" in m:
            t = m["$ref"].split("/")[-1]
            if t not in seen:
                p2, r2 = ref_fields(raw, t, seen + (name,))
                props += [p for p in p2 if p not in props]
                req |= r2
        else:
            props += [p for p in m.get("properties", {}) if p not in props]
            req |= set(m.get("required", []))
    return props, req


def _edge(kind, target):
    r = {"$ref": REF + target}
    return {"prop": r, "array": {"type": "array", "items": r}, "map": {"type": "object", "additionalProperties": r},
            "oneOf": {"oneOf": [r, {"type": "string"}]}, "inline": {"type": "object", "properties": {"inner": r}}}[kind]


def _edge_key(raw):
    """shape of a generated graph document: the kinds of its reference edges, e.g. 'cross:array+self:map'"""
    out = []
    for a, node in raw.items():
        for pn, p in (node.get("properties") or {}).items():
            if not (pn.startswith("e") and pn[1:].isdigit()):
                continue
            tgt = str(p).split(REF)[1].split("'")[0]
            kind = "prop" if "$ref" in p else ("array" if p.get("type") == "array" else "map" if "additionalProperties" in p else "oneOf" if "oneOf" in p else "inline")
            out.append(("self" if a == tgt else "cross") + ":" + kind)
    if any("additionalProperties" in node and "$ref" in str(node["additionalProperties"]) for node in raw.values()):
        out.append("schema-level-additionalProperties")
    return "+".join(sorted(out))


def documents(tier, seed):
    rnd = random.Random(seed)
    name_sets = [["User", "UserGroup"], ["A", "B"]] if tier == "quick" else [["User", "UserGroup", "Org"], ["A", "B", "C"], ["Tree", "Node", "Leaf"]]
    kinds = ["prop", "array", "map", "oneOf", "inline"]
    for names in name_sets:
        pairs = [(a, b) for a in names for b in names]
        combos = list(itertools.product(pairs, kinds))
        picks = list(itertools.combinations(combos, 2))
        rnd.shuffle(picks)
        for pick in picks[: (250 if tier == "quick" else 3000)]:
            raw = {n: {"type": "object", "properties": {"id": {"type": "string"}, "n": {"type": "integer"}}, "required": ["id"]} for n in names}
            for k, ((a, b), kind) in enumerate(pick):
                raw[a]["properties"][f"e{k}"] = _edge(kind, b)
            for order in itertools.permutations(names):
                yield {n: raw[n] for n in order}
    # allOf inheritance incl. members that only declare `required`
    base = {"Base": {"type": "object", "properties": {"id": {"type": "string"}, "name": {"type": "string"}, "kind": {"type": "string"}}, "required": ["kind"]},
            "Mixin": {"required": ["id", "name"]},
            "Strict": {"allOf": [{"$ref": REF + "Base"}, {"required": ["id", "name"]}]},
            "Strict2": {"allOf": [{"$ref": REF + "Base"}, {"$ref": REF + "Mixin"}, {"type": "object", "properties": {"extra": {"type": "integer"}}, "required": ["extra"]}]},
            "SelfMap": {"type": "object", "properties": {"a": {"type": "string"}, "b": {"type": "integer"}}, "additionalProperties": {"$ref": REF + "SelfMap"}},
            "SelfArrMap": {"type": "object", "properties": {"a": {"type": "string"}}, "additionalProperties": {"type": "array", "items": {"$ref": REF + "SelfArrMap"}}}}
    for order in itertools.permutations(list(base))if tier != "quick" else [list(base), list(reversed(list(base)))]:
        yield {n: base[n] for n in order}


def bounded_field_sets(tier, seed):
    import logging
    logging.disable(logging.CRITICAL)
    from pyopenapi_gen.core.loader.loader import load_ir_from_spec
    from pyopenapi_gen.core.utils import NameSanitizer
    n, failures, seen_fail = 0, [], set()
    for raw in documents(tier, seed):
        n += 1
        doc = {"openapi": "3.0.0", "info": {"title": "t", "version": "1"}, "paths": {}, "components": {"schemas": raw}}
        try:
            ir = load_ir_from_spec(doc)
        except Exception as e:  # noqa
            failures.append({"id": "bounded:load-failed", "detail": f"{type(e).__name__}: {str(e)[:150]}", "input": {"schemas": list(raw)}})
            continue
        for name in raw:
            if raw[name].get("type") != "object" and "allOf" not in raw[name]:
                continue
            sch = ir.schemas.get(name) or ir.schemas.get(NameSanitizer.sanitize_class_name(name))
            want_p, want_r = ref_fields(raw, name)
            if sch is None:
                key = ("missing", name)
                if key not in seen_fail:
                    seen_fail.add(key)
                    failures.append({"id": f"bounded:schema-missing:{name}", "detail": f"declared schema {name} has no model (order {list(raw)})", "input": {"order": list(raw), "schemas": raw}})
                continue
            got_p = list((sch.properties or {}).keys())
            got_r = set(sch.required or [])
            if set(got_p) != set(want_p):
                ek = _edge_key(raw)
                if not got_p and ek:
                    fid = f"bounded:fields:all-lost:{ek}"   # every declared property lost; graph shape = kinds of its reference edges
                else:
                    fid = f"bounded:fields:{name}:lost={sorted(set(want_p) - set(got_p))}:extra={sorted(set(got_p) - set(want_p))}:{ek}"
                if fid not in seen_fail:
                    seen_fail.add(fid)
                    failures.append({"id": fid, "detail": f"schema {name} (declaration order {list(raw)}): fields {sorted(got_p)} expected {sorted(want_p)}", "input": {"order": list(raw), "schemas": raw}})
            elif got_r & set(want_p) != want_r & set(want_p):
                key = ("required", name)
                if key not in seen_fail:
                    seen_fail.add(key)
                    failures.append({"id": f"bounded:required:{name}", "detail": f"schema {name}: required {sorted(got_r)} expected {sorted(want_r)} (order {list(raw)})", "input": {"order": list(raw), "schemas": raw}})
    return {"function": "load_ir_from_spec: property set and required set of every named object schema vs. a reference resolver, in every declaration order",
            "backend": "bounded enumeration", "bound": "pairs of edges over 2 (quick) / 3 (thorough) named schemas x 5 edge kinds x all declaration orders (capped), + 6 allOf / map-self-reference schemas",
            "evaluations": n, "distinct_nontrivial": n, "exhaustive": False, "failures": failures}


BOUNDED = [bounded_field_sets]

MANIFEST = {
    "category": "other",
    "text": "Two mechanisms are proved for all inputs (allOf required-merge per member; injective field naming); field-set fidelity under cycles, naming "
            "and declaration order is compared against a reference resolver over an enumerated space of small schema graphs in every order.",
    "note": "The structural kind of each field's type (resolver over the IR) is not under contract. Bounded in graph size.",
    "technique": "contract-based deductive verification (statement contracts, set algebra, z3) + bounded enumeration against a reference resolver",
}


def _witness_cycle(k):
    from pyopenapi_gen.core.loader.loader import load_ir_from_spec
    raw = {"A": {"type": "object", "properties": {"id": {"type": "string"}, "e0": {"type": "object", "additionalProperties": {"$ref": REF + "A"}}}}}
    ir = load_ir_from_spec({"openapi": "3.0.0", "info": {"title": "t", "version": "1"}, "paths": {}, "components": {"schemas": raw}})
    return len(ir.schemas["A"].properties or {}) == 0


WITNESS = {"F-C02-cyclic-schema-loses-fields": _witness_cycle}
