"""C18 — stream decoders are independent of how the bytes are chunked."""
from __future__ import annotations

import asyncio
import itertools
import json
import random

ID = "C18"
LEVEL = "proof"
CONTRACT_MODULES = ["contracts.streaming"]
EXPLANATION = ("iter_sse, _parse_sse_event, iter_sse_events_text, iter_ndjson and iter_bytes are proved (loop invariants against recursive "
               "spec functions written from the statement) to yield a function of the complete line sequence delivered by "
               "response.aiter_lines() / the chunk sequence of aiter_bytes() — for all line sequences, unbounded. Chunk independence then "
               "follows from httpx's contract that aiter_lines() yields the same lines for every chunking (assumed; checked against the "
               "installed httpx for every chunking of every short stream as a bounded check of the assumption).")
TRUSTED = ["httpx.Response.aiter_lines() yields splitlines(decode(concatenated bytes)) independently of chunking (dependency; bounded-checked below)",
           "str.split(':',1), str.lstrip, str.strip, str.startswith, '\\n'.join are the CPython functions (same uninterpreted symbols in code and spec)",
           "json.loads is a deterministic function of its argument"]


def _mk_response(chunks, content_type="text/event-stream; charset=utf-8"):
    import httpx

    class S(httpx.AsyncByteStream):
        async def __aiter__(self):
            for c in chunks:
                yield c
    return httpx.Response(200, stream=S(), headers={"content-type": content_type})


def _collect(helper, chunks, content_type="text/event-stream; charset=utf-8"):
    async def go():
        out = []
        async for x in helper(_mk_response(chunks, content_type)):
            out.append(x)
        return out
    return asyncio.run(go())


def _chunkings(data: bytes, limit=None, rnd=None):
    n = len(data)
    masks = range(1 << max(n - 1, 0))
    if limit is not None and (1 << max(n - 1, 0)) > limit:
        masks = [rnd.getrandbits(n - 1) for _ in range(limit)]
    for m in masks:
        out, cur = [], bytearray()
        for i, b in enumerate(data):
            cur.append(b)
            if i < n - 1 and (m >> i) & 1:
                out.append(bytes(cur))
                cur = bytearray()
        out.append(bytes(cur))
        yield out


# reference oracle, written from the statement (independent of the implementation) -------------------------------
def ref_events(text: str):
    """one event per blank-line-terminated block, data lines joined by newlines, comments ignored, final unterminated event delivered"""
    lines = text.splitlines()
    blocks, cur = [], []
    for ln in lines:
        if ln == "":
            if cur:
                blocks.append(cur)
            cur = []
        else:
            cur.append(ln)
    if cur:
        blocks.append(cur)
    out = []
    for b in blocks:
        data, event, id_ = [], None, None
        for ln in b:
            if ln.startswith(":") or ":" not in ln:
                continue
            f, v = ln.split(":", 1)
            v = v.lstrip()
            if f == "data":
                data.append(v)
            elif f == "event":
                event = v
            elif f == "id":
                id_ = v
        out.append(("\n".join(data), event, id_))
    return out


def bounded_httpx_lines(tier, seed):
    """check of the ASSUMED dependency contract: aiter_lines() is chunk independent (installed httpx)"""
    rnd = random.Random(seed)
    alphabet = ["a", "é", ":", " ", "\n", "\r"]
    L = 4 if tier == "quick" else 5
    n = 0
    failures = []
    for k in range(1, L + 1):
        for tup in itertools.product(alphabet, repeat=k):
            data = "".join(tup).encode("utf-8")
            if len(data) > (9 if tier == "quick" else 10):
                continue

            async def lines(chunks):
                return [l async for l in _mk_response(chunks).aiter_lines()]
            ref = asyncio.run(lines([data]))
            for ch in _chunkings(data, 32 if tier == "quick" else 128, rnd):
                n += 1
                got = asyncio.run(lines(ch))
                if got != ref:
                    failures.append({"id": "bounded:httpx.aiter_lines:chunk-independence", "detail": f"{ch} -> {got} != {ref}", "input": {"chunks": [c.hex() for c in ch]}})
                    break
            if failures:
                break
    return {"function": "httpx.Response.aiter_lines (assumed dependency contract, not the repo)", "backend": "exhaustive enumeration",
            "bound": f"all strings of <= {L} symbols over {alphabet!r} (<= {9 if tier == 'quick' else 10} bytes) x all chunkings (capped per stream)",
            "evaluations": n, "distinct_nontrivial": n, "exhaustive": False, "failures": failures}


STREAMS = [
    "data: a\n\ndata: b\n\n", "data: a\r\n\r\ndata: b\r\n\r\n", "data: x\ndata: y\n\n", ": comment\ndata: é✓\nid: 7\n\nevent: e\ndata: z",
    "data:\ndata:\n\ndata: x\ndata:\n\n", "data: 1\r\n\r\ndata: 2\r\n\r\ndata: 3\r\n\r\n", "retry: 10\ndata: {\"a\":\n data: 1}\n\n", "data: last-unterminated",
    "\n\n: only comment\n\ndata: q\n\n", "data: a\rdata: b\r\rdata: c\r\r",
]
ND = ["{\"a\": 1}\n{\"b\": \"é\"}\n", "{\"a\": 1}\r\n\r\n  [1, 2]  \r\n3", "\n\n{}\n"]


LINE_KINDS = ["data: v", "data:", "event: e", "id: 7", "retry: 10", ": c", "bare"]


def bounded_sse_grammar(tier, seed):
    """every SSE stream of one or two blocks of at most two lines over 7 line kinds (data with / without value, event, id, retry, comment, field-less),
    last block terminated or not, LF / CRLF: events against the reference decoder (whole body and split in the middle)"""
    import itertools
    from pyopenapi_gen.core import streaming_helpers as sh
    blocks = [[a] for a in LINE_KINDS] + [[a, b] for a in LINE_KINDS for b in LINE_KINDS]
    rnd = random.Random(seed)
    streams = [[b] for b in blocks]
    pairs = [[a, b] for a in blocks for b in blocks]
    streams += pairs if tier != "quick" else rnd.sample(pairs, 250)
    n, failures = 0, []
    for bl in streams:
        for nl in ("\n", "\r\n"):
            for terminated in (True, False):
                text = (nl + nl).join(nl.join(b) for b in bl) + (nl + nl if terminated else "")
                data = text.encode()
                ref = ref_events(text)
                for ch in ([data], [data[: len(data) // 2], data[len(data) // 2:]]):
                    n += 1
                    got = [(e.data, e.event, e.id) for e in _collect(sh.iter_sse, ch)]
                    if got != ref:
                        kind = "unterminated-last-block" if not terminated else "terminated"
                        if len(failures) < 5:
                            failures.append({"id": f"bounded:iter_sse:grammar:{kind}", "detail": f"{text!r}: {got} != {ref}", "input": {"stream": text, "chunks": [c.hex() for c in ch]}})
                        break
    return {"function": "iter_sse over a grammar of small SSE streams, against the reference decoder", "backend": "bounded",
            "bound": f"{len(streams)} block sequences x LF/CRLF x terminated/unterminated x 2 chunkings", "evaluations": n, "distinct_nontrivial": n,
            "exhaustive": tier != "quick", "failures": failures}


def bounded_helpers_chunked(tier, seed):
    from pyopenapi_gen.core import streaming_helpers as sh
    rnd = random.Random(seed)
    cap = 60 if tier == "quick" else 3000
    n, failures = 0, []
    for s in STREAMS:
        data = s.encode("utf-8")
        ref = ref_events(s)
        for ch in _chunkings(data, cap, rnd):
            n += 1
            got = [(e.data, e.event, e.id) for e in _collect(sh.iter_sse, ch)]
            if got != ref:
                failures.append({"id": "bounded:iter_sse:reference", "detail": f"{got} != {ref}", "input": {"stream": s, "chunks": [c.hex() for c in ch]}})
                break
            got_t = _collect(sh.iter_sse_events_text, ch)
            if got_t != [d for d, _, _ in ref if d]:
                failures.append({"id": "bounded:iter_sse_events_text:reference", "detail": f"{got_t} != {[d for d, _, _ in ref if d]}",
                                 "input": {"stream": s, "chunks": [c.hex() for c in ch]}})
                break
    for s in ND:
        data = s.encode("utf-8")
        ref = [json.loads(l) for l in s.splitlines() if l.strip()]
        for ch in _chunkings(data, cap, rnd):
            n += 1
            got = _collect(sh.iter_ndjson, ch)
            if got != ref:
                failures.append({"id": "bounded:iter_ndjson:reference", "detail": f"{got} != {ref}", "input": {"stream": s, "chunks": [c.hex() for c in ch]}})
                break
    # the record stream under every line-delimited JSON media type (RFC 7464 bodies carry an RS in front of each record), strings with blanks next to
    # every possible chunk boundary: the records do not depend on the media type's spelling nor on the chunking
    for media in ("application/x-ndjson", "application/jsonl", "application/jsonlines", "application/json-seq", "application/json-seq; charset=utf-8"):
        rs = "\x1e" if "json-seq" in media else ""
        for recs in ([{"t": "a b"}, 7], [["p q "], {"k": " é\u3000ü"}]):
            for nl in ("\n", "\r\n"):
                text = "".join(rs + json.dumps(r, ensure_ascii=False) + nl for r in recs)
                data = text.encode("utf-8")
                for ch in _chunkings(data, min(cap, 80), rnd):
                    n += 1
                    try:
                        got = _collect(sh.iter_ndjson, ch, media)
                    except Exception as e:  # noqa
                        got = f"{type(e).__name__}: {e}"
                    if got != recs:
                        failures.append({"id": f"bounded:iter_ndjson:media-type:{media.split(';')[0].split('/')[1]}", "detail": f"{media}: {got} != {recs}",
                                         "input": {"stream": text, "chunks": [c.hex() for c in ch], "content_type": media}})
                        break
    data = "abc\r\néé".encode()
    for ch in _chunkings(data, cap, rnd):
        n += 1
        if _collect(sh.iter_bytes, ch) != [c for c in ch if c]:
            failures.append({"id": "bounded:iter_bytes:identity", "detail": "chunks altered", "input": {"chunks": [c.hex() for c in ch]}})
            break
    return {"function": "iter_sse / iter_sse_events_text / iter_ndjson / iter_bytes through a real httpx.Response over chunked byte streams, "
                        "against a reference decoder written from the statement", "backend": "enumeration of chunkings",
            "bound": f"{len(STREAMS)} SSE streams + {len(ND)} NDJSON streams x chunkings (all when <= {cap}, else {cap} random ones, seed {seed})",
            "evaluations": n, "distinct_nontrivial": n, "exhaustive": False, "failures": failures}


BOUNDED = [bounded_helpers_chunked, bounded_httpx_lines, bounded_sse_grammar]

MANIFEST = {
    "category": "proof",
    "text": "Every helper is proved to yield exactly the spec function of the complete line sequence (one event per blank-line-terminated "
            "block, data joined by newlines, comments ignored, final unterminated event delivered; one record per non-blank line) for ALL line "
            "sequences; a rewrite that consumes aiter_text/aiter_bytes and splits per chunk cannot discharge its postcondition.",
    "note": "Chunk independence of httpx's own line decoder is an assumed dependency contract (bounded-checked against the installed httpx). "
            "String primitives (split/lstrip/strip/join) are uninterpreted and shared between code and spec. `retry` parsing is not in the contract.",
    "technique": "contract-based deductive verification (loop invariants vs. recursive spec functions, z3) + bounded check of the dependency assumption",
}
