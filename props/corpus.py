"""Shape corpus: a small-scope enumerator of OpenAPI documents (DESIGN Appendix C).  Bounded by construction; the bound is
reported by every check that uses it.  Deterministic; VERIF_SEED only shuffles the order / sampling of the thorough tier."""
from __future__ import annotations

import copy
import itertools
import random

REF = "#/components/schemas/"


def ref(n):
    return {"$ref": REF + n}


def obj(props, required=(), **kw):
    d = {"type": "object", "properties": props}
    if required:
        d["required"] = list(required)
    d.update(kw)
    return d


PRIMS = {
    "str": {"type": "string"}, "int": {"type": "integer"}, "int64": {"type": "integer", "format": "int64"}, "num": {"type": "number"},
    "bool": {"type": "boolean"}, "date": {"type": "string", "format": "date"}, "datetime": {"type": "string", "format": "date-time"},
    "uuid": {"type": "string", "format": "uuid"}, "byte": {"type": "string", "format": "byte"}, "binary": {"type": "string", "format": "binary"},
}

BASE_SCHEMAS = {
    "Pet": obj({"id": PRIMS["int64"], "name": PRIMS["str"], "tag-name": PRIMS["str"], "born": PRIMS["date"]}, ["id", "name"]),
    "Err": obj({"code": PRIMS["int"], "message": PRIMS["str"]}, ["code"]),
    "NewPet": obj({"name": PRIMS["str"], "pageSize": PRIMS["int"], "user_id": PRIMS["str"], "user-id": PRIMS["str"]}, ["name"]),
}


def resp_json(schema, desc="ok"):
    return {"description": desc, "content": {"application/json": {"schema": schema}}}


def op(path, method, oid, tags=None, params=None, body=None, responses=None, summary=None, description=None):
    o = {"path": path, "method": method, "responses": responses or {"200": {"description": "ok"}}}
    if oid is not None:
        o["operationId"] = oid
    if tags is not None:
        o["tags"] = tags
    if params:
        o["parameters"] = params
    if body is not None:
        o["requestBody"] = body
    if summary:
        o["summary"] = summary
    if description:
        o["description"] = description
    return o


def param(name, where, schema=None, required=None):
    p = {"name": name, "in": where, "schema": schema or PRIMS["str"]}
    if where == "path":
        p["required"] = True
    elif required is not None:
        p["required"] = required
    return p


def doc(title, ops, schemas=None, path_level=None, info_extra=None):
    paths = {}
    for o in ops:
        item = paths.setdefault(o["path"], {})
        item[o["method"]] = {k: v for k, v in o.items() if k not in ("path", "method")}
    for pth, ps in (path_level or {}).items():
        paths.setdefault(pth, {})["parameters"] = ps
    d = {"openapi": "3.0.0", "info": dict({"title": title, "version": "1.0.0"}, **(info_extra or {})), "paths": paths}
    if schemas:
        d["components"] = {"schemas": copy.deepcopy(schemas)}
    return d


def body_json(schema, required=True):
    return {"required": required, "content": {"application/json": {"schema": schema}}}


# ---------------------------------------------------------------------------------------------------------------------
def shapes(tier="quick", seed=0):
    """-> list of (name, features, document)"""
    S = BASE_SCHEMAS
    out = []

    def add(name, d, **feat):
        out.append((name, feat, d))

    # --- operations: parameters in every location, bodies, responses -------------------------------------------------
    add("params-all-locations", doc("P", [
        op("/pets/{petId}", "get", "getPet", ["pets"],
           [param("petId", "path"), param("page-size", "query", PRIMS["int"]), param("q", "query", PRIMS["str"], True),
            param("X-Trace", "header"), param("X-Req", "header", PRIMS["str"], True)],
           responses={"200": resp_json(ref("Pet")), "404": {"description": "nf"}, "500": {"description": "boom"}}),
        op("/pets/{petId}", "put", "putPet", ["pets"], [param("petId", "path")], body_json(ref("NewPet")),
           {"204": {"description": "done"}, "409": resp_json(ref("Err"), "conflict")}),
        op("/pets", "post", "createPet", ["pets"], None, body_json(ref("NewPet")), {"201": resp_json(ref("Pet"), "created"), "400": resp_json(ref("Err"))}),
        op("/pets", "get", "listPets", ["pets"], [param("limit", "query", PRIMS["int"]), param("tags", "query", {"type": "array", "items": PRIMS["str"]})],
           responses={"200": resp_json({"type": "array", "items": ref("Pet")})}),
        op("/pets/{petId}", "delete", "deletePet", ["pets"], [param("petId", "path", PRIMS["int"])], None, {"204": {"description": "gone"}}),
        op("/pets/{petId}", "patch", "patchPet", ["pets"], [param("petId", "path")], body_json(obj({"name": PRIMS["str"]}), required=False),
           {"200": resp_json(ref("Pet"))}),
    ], S), params=True, bodies=True)
    add("two-path-vars-head-options", doc("P2", [
        op("/orgs/{orgId}/users/{userId}", "get", "getUser", ["users"], [param("orgId", "path"), param("userId", "path", PRIMS["int"])],
           responses={"200": resp_json(ref("Pet")), "default": {"description": "unexpected"}}),
        op("/orgs/{orgId}", "head", "headOrg", ["users"], [param("orgId", "path")], None, {"200": {"description": "ok"}}),
        op("/orgs/{orgId}", "options", "optionsOrg", ["users"], [param("orgId", "path")], None, {"204": {"description": "ok"}}),
    ], S), methods=True)
    add("default-with-content", doc("D", [
        op("/d/{id}", "get", "getD", ["d"], [param("id", "path")], responses={"200": resp_json(ref("Pet")), "default": resp_json(ref("Err"), "error")}),
        op("/d", "post", "postD", ["d"], None, body_json(ref("NewPet")), {"200": resp_json(ref("Pet")), "4XX": resp_json(ref("Err")), "default": resp_json(ref("Err"))}),
    ], S), default_content=True)
    add("undeclared-errors-only-2xx", doc("U", [op("/u", "get", "getU", ["u"], responses={"200": resp_json(PRIMS["str"])}),
                                                op("/u2", "get", "getU2", ["u"], responses={"200": resp_json({"type": "array", "items": PRIMS["int"]}), "202": {"description": "acc"}})]))
    add("multi-2xx", doc("M", [op("/m", "put", "upsert", ["m"], None, body_json(ref("NewPet")),
                                  {"200": resp_json(ref("Pet")), "201": resp_json(ref("Err"), "created"), "202": {"description": "later"}, "400": {"description": "bad"}})], S))
    add("text-and-binary", doc("T", [
        op("/t", "get", "getText", ["t"], responses={"200": {"description": "ok", "content": {"text/plain": {"schema": PRIMS["str"]}}}}),
        op("/b", "get", "getBin", ["t"], responses={"200": {"description": "ok", "content": {"application/octet-stream": {"schema": PRIMS["binary"]}}}}),
        op("/up", "post", "upload", ["t"], None, {"required": True, "content": {"application/octet-stream": {"schema": PRIMS["binary"]}}}, {"204": {"description": "ok"}}),
        op("/form", "post", "postForm", ["t"], None, {"required": True, "content": {"application/x-www-form-urlencoded": {"schema": obj({"a": PRIMS["str"], "b": PRIMS["int"]})}}},
           {"200": resp_json(ref("Pet"))}),
        op("/mp", "post", "postMultipart", ["t"], None, {"required": True, "content": {"multipart/form-data": {"schema": obj({"file": PRIMS["binary"], "note": PRIMS["str"]})}}},
           {"200": {"description": "ok"}}),
    ], S), content_types=True)
    add("streams", doc("St", [
        op("/sse", "get", "streamEvents", ["s"], responses={"200": {"description": "ok", "content": {"text/event-stream": {"schema": ref("Pet")}}}}),
        op("/nd", "get", "streamNd", ["s"], responses={"200": {"description": "ok", "content": {"application/x-ndjson": {"schema": ref("Pet")}}}}),
    ], S), streams=True)
    add("multi-content-body", doc("MC", [
        op("/mc/{id}", "post", "postMc", ["mc"], [param("id", "path"), param("dry", "query", PRIMS["bool"]), param("X-H", "header")],
           {"required": True, "content": {"application/json": {"schema": ref("NewPet")}, "multipart/form-data": {"schema": obj({"file": PRIMS["binary"]})}}},
           {"200": resp_json(ref("Pet"))})], S), multi_content=True)
    # parameter declaration orders: optional before required, in every location, on plain and on multi-content (overloaded) operations,
    # with path-level parameters merged in front
    ORDERED = [param("opt-q", "query", PRIMS["int"]), param("req-q", "query", PRIMS["str"], True), param("X-Opt", "header"), param("X-Req", "header", PRIMS["str"], True),
               param("id", "path")]
    add("param-orders", doc("PO", [
        op("/po/{id}", "get", "getPo", ["po"], ORDERED, None, {"200": resp_json(ref("Pet"))}),
        op("/po/{id}", "post", "postPo", ["po"], ORDERED, {"required": True, "content": {"application/json": {"schema": ref("NewPet")},
                                                                                     "multipart/form-data": {"schema": obj({"file": PRIMS["binary"]})},
                                                                                     "application/x-www-form-urlencoded": {"schema": obj({"a": PRIMS["str"]})}}},
           {"200": resp_json(ref("Pet"))}),
        op("/pv/{tenant}/{id}", "put", "putPv", ["po"], [param("opt-q", "query"), param("id", "path"), param("req-q", "query", PRIMS["str"], True)],
           {"required": False, "content": {"application/json": {"schema": ref("NewPet")}, "multipart/form-data": {"schema": obj({"file": PRIMS["binary"]})}}},
           {"204": {"description": "ok"}})],
        S, path_level={"/pv/{tenant}/{id}": [param("X-Level", "header"), param("tenant", "path")]}), multi_content=True)
    add("cookie-param", doc("C", [op("/c", "get", "getC", ["c"], [param("sid", "cookie"), param("q", "query")], responses={"200": {"description": "ok"}})]), cookie=True)
    add("path-level-params", doc("PL", [op("/pl/{id}", "get", "getPl", ["pl"], [param("v", "query")], responses={"200": {"description": "ok"}}),
                                        op("/pl/{id}", "delete", "delPl", ["pl"], None, None, {"204": {"description": "ok"}})],
                                 path_level={"/pl/{id}": [param("id", "path"), param("X-Tenant", "header")]}), path_level=True)
    # path variables that the operation does not declare as parameters (the generator supplies them): several, not in alphabetical order
    add("undeclared-path-vars", doc("UPV", [op("/u/{beta}/{alpha}/{gamma}/{delta}", "get", "getU", ["u"]),
                                            op("/v/{zulu}/x/{yankee}", "put", "putV", ["u"], [param("q", "query")], body_json(PRIMS["str"]))]))
    add("path-forms", doc("PF", [op("/items/{itemId}/", "get", "getItemSlash", ["pf"], [param("itemId", "path")]),
                                 op("/", "get", "getRoot", ["pf"]), op("/a.b/c-d/{x}.json", "get", "getDotted", ["pf"], [param("x", "path")]),
                                 op("/v1/items/", "post", "postItems", ["pf"], None, body_json(PRIMS["str"]))]), path_forms=True)
    add("declared-3xx-1xx", doc("R", [op("/r", "get", "getR", ["r"], responses={"200": {"description": "ok"}, "302": {"description": "found"}, "404": {"description": "nf"}})]), redirects=True)
    add("unknown-codes", doc("UC", [op("/uc", "get", "getUc", ["uc"], responses={"200": {"description": "ok"}, "418": {"description": "tea"}, "499": {"description": "x"}, "599": {"description": "y"}})]))
    # --- tags / operation ids ------------------------------------------------------------------------------------------
    add("no-tags-no-opid", doc("NT", [op("/a/{x}", "get", None, None, [param("x", "path")]), op("/a/{x}", "post", None, None, [param("x", "path")], body_json(PRIMS["str"]))]), untagged=True)
    add("two-tags", doc("TT", [op("/tt", "get", "getTt", ["Users", "admin"]), op("/tt2", "get", "getTt2", ["admin"])]), multi_tag=True)
    add("tag-spellings", doc("TS", [op("/ts1", "get", "one", ["Data Sources"]), op("/ts2", "get", "two", ["data-sources"]), op("/ts3", "get", "three", ["data_sources"])]), tag_variants=True)
    add("tag-majority-spelling", doc("TM", [op("/m1", "get", "one", ["datasources"]), op("/m2", "get", "two", ["datasources"]), op("/m3", "get", "three", ["DataSources"])]), tag_variants=True)
    # tags spelled like members of the generated APIClient / MockAPIClient themselves
    add("tag-member-names", doc("TMN", [op("/t1", "get", "one", ["Transport"]), op("/t2", "get", "two", ["request"]), op("/t3", "get", "three", ["Close"]),
                                        op("/t4", "get", "four", ["config"]), op("/t5", "get", "five", ["Client"]), op("/t6", "get", "six", ["base_url"])]))
    # names that collide with what the generated code itself binds: the receiver of a method, dataclass helpers, typing names
    add("receiver-and-helper-names", doc("RH", [op("/rh/{cls}", "get", "getRh", ["rh"], [param("cls", "path"), param("self", "query")],
                                                   responses={"200": resp_json(ref("Helper"))})],
                                         {"Helper": obj({"field": PRIMS["str"], "dataclass": PRIMS["str"], "tags": {"type": "array", "items": PRIMS["str"]}, "self": PRIMS["str"],
                                                         "Optional": PRIMS["int"], "List": {"type": "array", "items": PRIMS["int"]}, "Any": PRIMS["str"]}, [])}), schemas=True)
    add("opid-collisions", doc("OC", [op("/o1", "get", "list_all", ["o"]), op("/o2", "get", "listAll", ["o"]), op("/o3", "get", "list-all", ["o"]),
                                      op("/o4", "get", "get_a_2", ["o"]), op("/o5", "get", "get_a", ["o"]), op("/o6", "get", "get-a", ["o"])]), opid_collisions=True)
    add("opid-collision-overlapping-tags", doc("OT", [op("/t1", "get", "list_all", ["Users"]), op("/t2", "get", "listAll", ["Admin", "Users"]),
                                                       op("/t3", "get", "list-all", ["Admin"])]), opid_collisions=True, multi_tag=True)
    add("opid-collision-tag-spellings", doc("OS", [op("/u1", "get", "get-user", ["Users"]), op("/u2", "get", "get_user", ["users"]), op("/u3", "get", "getUser", ["USERS"]),
                                                    op("/d1", "get", "list-it", None), op("/d2", "get", "list_it", ["Default"])]), opid_collisions=True, tag_variants=True)
    add("secondary-stream-response", doc("SS", [op("/rep", "get", "getReport", ["rep"], responses={
        "200": resp_json({"type": "array", "items": PRIMS["str"]}), "206": {"description": "part", "content": {"application/octet-stream": {"schema": PRIMS["binary"]}}}})]), streams=True)
    add("two-multi-content-ops", doc("MM", [
        op("/docs", "post", "createDocument", ["docs"], None, {"required": True, "content": {"application/json": {"schema": ref("NewPet")}, "multipart/form-data": {"schema": obj({"file": PRIMS["binary"]})}}}, {"200": resp_json(ref("Pet"))}),
        op("/docs/{id}", "patch", "updateDocument", ["docs"], [param("id", "path")], {"required": True, "content": {"application/json": {"schema": ref("Err")}, "multipart/form-data": {"schema": obj({"file": PRIMS["binary"]})}}}, {"200": resp_json(ref("Pet"))}),
    ], S), multi_content=True)
    add("fastapi-opids", doc("FA", [op("/users/{id}", "get", "read_user_users__id__get", ["users"], [param("id", "path")]),
                                    op("/users", "post", "create_user_users_post", ["users"], None, body_json(ref("NewPet")))], S))
    add("all-methods", doc("AM", [op("/am", m, f"{m}Am", ["am"]) for m in ("get", "put", "post", "delete", "options", "head", "patch", "trace")]), all_methods=True)
    add("keyword-names", doc("KW", [op("/kw/{class}", "get", "import", ["class"], [param("class", "path"), param("from", "query"), param("def", "header"), param("1st", "query")],
                                       responses={"200": resp_json(ref("type"))})],
                             {"type": obj({"class": PRIMS["str"], "def": PRIMS["int"], "_x": PRIMS["str"], "2fa": PRIMS["bool"]}, ["class"])}), keywords=True)
    add("shadowing-field-names", doc("SH", [op("/sh", "get", "getSh", ["sh"], responses={"200": resp_json(ref("Shadow"))})],
                                     {"Shadow": obj({"date": PRIMS["date"], "field": PRIMS["str"], "datetime": PRIMS["datetime"]})}), shadowing=True)
    add("optional-self-ref", doc("SR", [op("/sr", "get", "getSr", ["sr"], responses={"200": resp_json(ref("Node"))})],
                                 {"Node": obj({"value": PRIMS["int"], "parent": ref("Node")})}), self_ref=True)
    # --- schema graphs ---------------------------------------------------------------------------------------------------
    G = {
        "User": obj({"id": PRIMS["uuid"], "group": ref("UserGroup"), "name": PRIMS["str"], "created": PRIMS["datetime"]}, ["id"]),
        "UserGroup": obj({"members": {"type": "array", "items": ref("User")}, "title": PRIMS["str"]}),
        "Tree": obj({"value": PRIMS["int"], "children": {"type": "array", "items": ref("Tree")}}),
        "Color": {"type": "string", "enum": ["red", "GREEN", "dark blue", "1st"]},
        "Level": {"type": "integer", "enum": [1, 2, 3]},
        "Tags": {"type": "array", "items": PRIMS["str"]},
        "Meta": {"type": "object", "additionalProperties": PRIMS["str"]},
        "PetMap": {"type": "object", "additionalProperties": ref("User")},
        "Base": obj({"id": PRIMS["str"], "kind": PRIMS["str"]}, ["id", "kind"]),
        "Cat": {"allOf": [ref("Base"), obj({"lives": PRIMS["int"]}, ["lives"])]},
        "Dog": {"allOf": [ref("Base"), obj({"breed": PRIMS["str"]})]},
        "Animal": {"oneOf": [ref("Cat"), ref("Dog")], "discriminator": {"propertyName": "kind", "mapping": {"cat": REF + "Cat", "dog": REF + "Dog"}}},
        "Either": {"anyOf": [ref("Color"), PRIMS["int"]]},
        "Nullable": obj({"maybe": {"type": "string", "nullable": True}, "blob": PRIMS["byte"], "inline": obj({"deep": PRIMS["num"]}), "color": ref("Color"),
                         "statuses": {"type": "array", "items": {"type": "string", "enum": ["on", "off"]}}}),
        "foo-bar": obj({"a": PRIMS["str"]}), "Ünï": obj({"b": PRIMS["str"]}),
        "Alias": PRIMS["uuid"],
    }
    add("schema-graph", doc("G", [op("/g", "get", "getG", ["g"], responses={"200": resp_json(ref("User"))}),
                                  op("/animal", "post", "postAnimal", ["g"], None, body_json(ref("Animal")), {"200": resp_json(ref("Animal")), "201": resp_json(ref("Either"))}),
                                  op("/tree", "get", "getTree", ["g"], [param("color", "query", ref("Color")), param("when", "query", PRIMS["date"])],
                                     responses={"200": resp_json(ref("Tree"))}),
                                  op("/n", "get", "getN", ["g"], responses={"200": resp_json(ref("Nullable")), "202": resp_json(ref("PetMap"))})], G), schemas=True)
    # object models that refer to each other DIRECTLY through properties (two-cycle, required back edge, three-cycle)
    MUT = {"Vertex": obj({"id": PRIMS["str"], "edge": ref("Edge")}, ["id"]), "Edge": obj({"target": ref("Vertex"), "weight": PRIMS["num"]}, ["target"]),
           "Ping": obj({"pong": ref("Pong")}), "Pong": obj({"peng": ref("Peng")}), "Peng": obj({"ping": ref("Ping"), "n": PRIMS["int"]})}
    add("mutual-object-refs", doc("MU", [op("/v", "get", "getVertex", ["mu"], responses={"200": resp_json(ref("Vertex"))}),
                                         op("/p", "post", "postPing", ["mu"], None, body_json(ref("Ping")), {"200": resp_json(ref("Pong"))})], MUT), schemas=True)
    add("schema-graph-reordered", doc("G2", [op("/g", "get", "getG", ["g"], responses={"200": resp_json(ref("User"))})],
                                      dict(reversed(list(G.items())))), schemas=True)
    add("prefix-names-collisions", doc("PN", [op("/p", "get", "getP", ["p"], responses={"200": resp_json(ref("User"))})],
                                       {"User": obj({"g": ref("UserGroup"), "n": PRIMS["str"]}), "UserGroup": obj({"members": {"type": "array", "items": ref("User")}}),
                                        "user": obj({"x": PRIMS["str"]}), "User2": obj({"y": PRIMS["str"]}), "user_2": obj({"z": PRIMS["str"]})}), collisions=True)
    add("stem-collisions", doc("SC", [op("/a", "get", "getA", ["sc"], responses={"200": resp_json(ref("User"))}), op("/b", "get", "getB", ["sc"], responses={"200": resp_json(ref("user"))}),
                                      op("/c", "get", "getC", ["sc"], responses={"200": resp_json(ref("User2"))}), op("/d", "get", "getD", ["sc"], responses={"200": resp_json(ref("pet_2"))})],
                               {"User": obj({"a": PRIMS["str"]}), "user": obj({"b": PRIMS["str"]}), "User2": obj({"c": PRIMS["str"]}),
                                "Pet": obj({"d": PRIMS["str"]}), "pet": obj({"e": PRIMS["str"]}), "pet_2": obj({"f": PRIMS["str"]})}), collisions=True)
    add("free-text", doc("FT \"quoted\" title", [op("/ft", "get", "getFt", ["ft tag"], [param("q", "query")], responses={"200": resp_json(ref("Doc"), "a 'response' desc")},
                                                   summary="Sum \"mary\"", description="Line one\nLine two with \\ backslash")],
                         {"Doc": obj({"t": {"type": "string", "description": "prop \"desc\"", "default": "dflt"}}, description="A doc.\n\nWith paragraphs.")},
                         info_extra={"description": "API \"desc\" with 'quotes'"}), free_text=True)
    # --- spellings of one tag on different operations (the canonical spelling must be chosen identically by endpoints, client and mocks) ---
    SPELL = ["data sources", "DataSources", "data_sources", "dataSources", "DATA-SOURCES", "Data Sources", "datasources", "Data.Sources", "data/sources", "Data:Sources"]
    combos = [c for k in (2, 3) for c in itertools.combinations(range(len(SPELL)), k)]
    if tier == "quick":
        # every spelling once against the PascalCase one, plus a few triples
        combos = [(1, i) if i > 1 else (i, 1) for i in range(len(SPELL)) if i != 1] + [(0, 4, 7), (2, 8, 9), (3, 5, 6)]
    for ci, idx in enumerate(combos):
        ops_ = [op(f"/sp{j}", "get", f"spOp{j}", [SPELL[i]] if j else [SPELL[i], "other"]) for j, i in enumerate(idx)]
        add(f"tag-spelling-set-{'-'.join(map(str, idx))}", doc(f"SP{ci}", ops_), tag_variants=True)
    # --- response kinds: several content types on one response, arrays / maps / enums / unions / primitives of every flavour ---------
    add("multi-content-response", doc("MR", [
        op("/report/{id}", "get", "getReport", ["rep"], [param("id", "path")], responses={
            "200": {"description": "ok", "content": {"application/json": {"schema": ref("Pet")}, "text/plain": {"schema": PRIMS["str"]}}},
            "404": {"description": "nf", "content": {"application/json": {"schema": ref("Err")}}}}),
        op("/blob/{id}", "get", "getBlob", ["rep"], [param("id", "path")], responses={
            "200": {"description": "ok", "content": {"application/json": {"schema": ref("Pet")}, "application/octet-stream": {"schema": PRIMS["binary"]}}}})], S),
        multi_content_response=True)
    KINDS = dict(S, Color={"type": "string", "enum": ["red", "dark-green", "BLUE"]},
                 Cat=obj({"petType": PRIMS["str"], "lives": PRIMS["int"]}, ["petType"]), Dog=obj({"petType": PRIMS["str"], "bark": PRIMS["bool"]}, ["petType"]),
                 Animal={"oneOf": [ref("Cat"), ref("Dog")], "discriminator": {"propertyName": "petType", "mapping": {"cat": "#/components/schemas/Cat", "dog": "#/components/schemas/Dog"}}},
                 Owner=obj({"id": PRIMS["uuid"], "since": PRIMS["datetime"], "pets": {"type": "array", "items": ref("Pet")}, "byName": {"type": "object", "additionalProperties": ref("Pet")},
                            "favourite": ref("Color"), "best": ref("Animal"), "note": {"type": "string", "nullable": True}}, ["id"]))
    add("response-kinds", doc("RK", [
        op("/k/list", "get", "listPets", ["k"], responses={"200": resp_json({"type": "array", "items": ref("Pet")})}),
        op("/k/map", "get", "mapPets", ["k"], responses={"200": resp_json({"type": "object", "additionalProperties": ref("Pet")})}),
        op("/k/enum", "get", "getColor", ["k"], responses={"200": resp_json(ref("Color"))}),
        op("/k/union", "get", "getAnimal", ["k"], responses={"200": resp_json(ref("Animal"))}),
        op("/k/owner", "get", "getOwner", ["k"], responses={"200": resp_json(ref("Owner"))}),
        op("/k/int", "get", "getCount", ["k"], responses={"200": resp_json(PRIMS["int"])}),
        op("/k/bool", "get", "getFlag", ["k"], responses={"200": resp_json(PRIMS["bool"])}),
        op("/k/any", "get", "getAny", ["k"], responses={"200": resp_json({})}),
        op("/k/owner", "put", "putOwner", ["k"], None, body_json(ref("Owner")), {"200": resp_json(ref("Owner")), "201": {"description": "created"}}),
    ], KINDS), response_kinds=True)
    # every (type, format) pair of the OpenAPI format registry (and a made-up one) as property, named alias, array item, map value, query parameter and
    # response: whatever Python type the generator picks for a format, the emitted modules must import it
    fmts = {"string": ["date", "date-time", "time", "duration", "uuid", "byte", "binary", "email", "idn-email", "uri", "uri-reference", "iri", "url", "hostname",
                       "ipv4", "ipv6", "password", "regex", "json-pointer", "decimal", "char", "html", "made-up"],
            "integer": ["int32", "int64", "int8", "uint64", "made-up"], "number": ["float", "double", "decimal", "made-up"]}
    fprops, fschemas, fops = {}, {}, []
    for ty, fl in fmts.items():
        for f in fl:
            key = f"{ty}_{f}".replace("-", "_")
            sch_ = {"type": ty, "format": f}
            fprops[key] = sch_
            fprops[key + "_list"] = {"type": "array", "items": sch_}
            fprops[key + "_map"] = {"type": "object", "additionalProperties": sch_}
            alias = "A" + "".join(w.capitalize() for w in key.split("_"))
            fschemas[alias] = dict(sch_)
            fprops[key + "_alias"] = ref(alias)
            fops.append(op(f"/f/{key}", "get", f"get_{key}", ["f"], [param("v", "query", sch_)], responses={"200": resp_json(sch_)}))
    fschemas["AllFormats"] = obj(fprops, [])
    fops.append(op("/f", "get", "getFormats", ["f"], responses={"200": resp_json(ref("AllFormats"))}))
    add("all-formats", doc("AF", fops, fschemas))
    # optional properties with a `default` of every kind, on every kind of property schema (mutable defaults must not end up as plain dataclass defaults)
    DEF = {"Target": obj({"a": PRIMS["str"]}), "Choice": {"type": "string", "enum": ["x", "y"]},
           "Defaults": obj({
               "s": dict(PRIMS["str"], default="text"), "i": dict(PRIMS["int"], default=0), "b": dict(PRIMS["bool"], default=False), "n": dict(PRIMS["num"], default=1.5),
               "empty_list": {"type": "array", "items": PRIMS["str"], "default": []}, "list": {"type": "array", "items": PRIMS["str"], "default": ["a", "b"]},
               "free": {"type": "object", "default": {"k": 1}}, "free_empty": {"type": "object", "default": {}},
               "map": {"type": "object", "additionalProperties": PRIMS["int"], "default": {"k": 1}},
               "wrapped": {"allOf": [ref("Target")], "default": {"a": "z"}}, "either": {"oneOf": [{"type": "array", "items": PRIMS["str"]}, PRIMS["str"]], "default": ["q"]},
               "inline": dict(obj({"z": PRIMS["str"]}), default={"z": "v"}), "choice": {"allOf": [ref("Choice")], "default": "y"},
               "nothing": {"type": "string", "nullable": True, "default": None}, "untyped": {"default": {"any": [1, 2]}}}, [])}
    add("defaults-every-kind", doc("DK", [op("/dk", "get", "getDk", ["dk"], responses={"200": resp_json(ref("Defaults"))})], DEF), schemas=True)
    # named primitive schemas whose names are short everyday words (Id, Type, ...), with and without description, referenced from an object and from operations
    PA = {"Id": PRIMS["str"], "Type": PRIMS["str"], "Status": PRIMS["int"], "Name": dict(PRIMS["str"], description="a name"), "Value": PRIMS["num"], "Flag": PRIMS["bool"],
          "Rec": obj({"id": ref("Id"), "type": ref("Type"), "status": ref("Status"), "name": ref("Name"), "value": ref("Value"), "flag": ref("Flag")}, ["id"])}
    add("primitive-alias-names", doc("PA", [op("/pa/{id}", "get", "getRec", ["pa"], [param("id", "path", ref("Id")), param("type", "query", ref("Type"))],
                                               responses={"200": resp_json(ref("Rec")), "201": resp_json(ref("Id"))})], PA), schemas=True)
    # one component response referenced under different status codes, across operations and within one operation
    SCR = doc("SCR", [op("/it", "get", "getItem", ["it"], responses={"200": {"$ref": "#/components/responses/ItemResponse"}, "404": {"$ref": "#/components/responses/Missing"}}),
                      op("/it", "post", "createItem", ["it"], None, body_json(ref("Pet")), {"201": {"$ref": "#/components/responses/ItemResponse"}, "409": {"$ref": "#/components/responses/Missing"}}),
                      op("/it/{id}", "put", "putItem", ["it"], [param("id", "path")], body_json(ref("Pet")),
                         {"200": {"$ref": "#/components/responses/ItemResponse"}, "202": {"$ref": "#/components/responses/ItemResponse"}, "404": {"$ref": "#/components/responses/Missing"}})])
    SCR["components"] = {"schemas": copy.deepcopy(BASE_SCHEMAS), "responses": {"ItemResponse": resp_json(ref("Pet")), "Missing": resp_json(ref("Err"))}}
    add("shared-component-responses", SCR)
    # a tag whose ONLY operation answers with several content types (whatever the handler of that shape needs must be imported by that module itself)
    LM = doc("LM", [op("/lm", "get", "getLm", ["lonely"], responses={"200": {"description": "ok", "content": {
        "application/json": {"schema": ref("Pet")}, "application/vnd.acme.err+json": {"schema": ref("Err")}}}}),
                    op("/other", "get", "getOther", ["other"], responses={"200": resp_json(ref("Pet"))})], BASE_SCHEMAS)
    add("lonely-multi-content-response", LM)
    # `deprecated: true` on an operation, a parameter and a property
    DP = doc("DP", [op("/old", "get", "getOld", ["dp"], [dict(param("q", "query"), deprecated=True)], responses={"200": resp_json(ref("Old"))}),
                    op("/new", "get", "getNew", ["dp"], responses={"200": resp_json(ref("Old"))})],
             {"Old": obj({"a": dict(PRIMS["str"], deprecated=True), "b": PRIMS["int"]})})
    DP["paths"]["/old"]["get"]["deprecated"] = True
    add("deprecated-things", DP)
    # deterministic random documents (fixed seeds, vetted on the unchanged tree): breadth over feature combinations nobody thought of
    from props import randdoc
    for rs in ([1, 2, 3, 5, 8, 13, 21, 35] if tier == "quick" else list(range(1, 61))):
        add(f"random-{rs}", randdoc.document(rs), random_doc=True)
    if tier == "thorough":
        rnd = random.Random(seed)
        prim_names = list(PRIMS)
        k = 0
        for where, req, pn in itertools.product(("query", "header"), (True, False), prim_names):
            k += 1
            add(f"param-{where}-{'req' if req else 'opt'}-{pn}", doc(f"PX{k}", [op("/x/{id}", "get", "getX", ["x"], [param("id", "path"), param("the-p", where, PRIMS[pn], req)],
                                                                                 responses={"200": resp_json(PRIMS[pn])})]))
        for pn in prim_names:
            k += 1
            add(f"body-{pn}", doc(f"BX{k}", [op("/bx", "post", "postBx", ["x"], None, body_json(PRIMS[pn]), {"200": resp_json({"type": "array", "items": PRIMS[pn]})})]))
        for codes in (("200", "404"), ("201",), ("204", "500"), ("200", "default"), ("202", "400", "503"), ("203",), ("299", "451")):
            k += 1
            add(f"codes-{'-'.join(codes)}", doc(f"CX{k}", [op("/cx", "get", "getCx", ["x"], responses={c: (resp_json(ref("Pet")) if c.startswith("2") and c not in ("204",) else {"description": "d"}) for c in codes})], S))
    return out


NAMING_STRATEGIES = ("operation_id", "path")
LAYOUTS = [("cli", None), ("pkg.sub.cli", None), ("apis.cli", "apis.shared_core")]
