"""Subprocess worker for C09/C10: runs the generator (public API of the CURRENT /repo tree) for a list of jobs and prints one JSON line per job.
job = {"docs": [doc, ...] (generated in this order, in THIS process; the last one is the subject), "root": dir, "pkg": str, "core": str|None,
       "force": bool, "clock_shift": seconds, "postprocess": bool}"""
import contextlib
import hashlib
import io
import json
import logging
import os
import sys
import warnings


def tree(root, with_mtime=False):
    out = {}
    for dp, dn, fs in os.walk(root):
        dn[:] = sorted(x for x in dn if x not in ("__pycache__", "_specs"))
        for f in sorted(fs):
            p = os.path.join(dp, f)
            rel = os.path.relpath(p, root)
            try:
                h = hashlib.sha256(open(p, "rb").read()).hexdigest()
            except OSError as e:
                h = f"unreadable:{e.__class__.__name__}"
            out[rel] = [h, os.stat(p).st_mtime_ns] if with_mtime else h
        if not fs and not dn:
            out[os.path.relpath(dp, root) + "/"] = "dir"
    return out


def run(job):
    logging.disable(logging.CRITICAL)
    warnings.simplefilter("ignore")
    if job.get("clock_shift"):
        import time
        real = time.time
        time.time = lambda: real() + job["clock_shift"]
    from pyopenapi_gen import generate_client
    root = job["root"]
    os.makedirs(os.path.join(root, "_specs"), exist_ok=True)
    err = None
    for i, d in enumerate(job["docs"]):
        sp = os.path.join(root, "_specs", f"spec{i}.json")
        json.dump(d, open(sp, "w"))
        buf = io.StringIO()
        try:
            with contextlib.redirect_stdout(buf), contextlib.redirect_stderr(buf):
                generate_client(spec_path=sp, project_root=root, output_package=job["pkg"], core_package=job.get("core"),
                                force=job.get("force", True), no_postprocess=not job.get("postprocess", False))
            err = None
        except BaseException as e:  # noqa
            err = f"{type(e).__name__}: {str(e)[:200]}"
    return {"id": job.get("id"), "error": err, "tree": tree(root)}


if __name__ == "__main__":
    jobs = json.load(open(sys.argv[1]))
    for j in jobs:
        print(json.dumps(run(j)))
