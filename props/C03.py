"""C03 — model JSON round-trip preserves every value and wire key."""
# NOTE: no `from __future__ import annotations`: dataclasses built below must look like generated models
import ast
import dataclasses
import datetime as dt
import os
import shutil
import textwrap
import uuid

ID = "C03"
LEVEL = "other"
CONTRACT_MODULES = ["contracts.leafhooks", "contracts.decollision"]
EXPLANATION = ("cattrs does the structuring (assumed dependency contract). What the repository adds is decided: (1) exhaustive table consistency — every "
               "Python type in the range of the format->type table of the schema resolver (read from the real dict literal by AST) has both a "
               "structure and an unstructure hook registered in the bundled converter (read from the real register_* calls), or is JSON-native; "
               "(2) the leaf hooks are the stated stdlib compositions and the bytes round trip is the identity given base64's inverse law; "
               "(3) the field loop of DataclassGenerator.generate never binds two wire keys to one Python field (site assertion) so the "
               "load/dump key maps are mutually inverse. End-to-end round trips run on generated models in bounded form.")
TRUSTED = ["cattrs structure/unstructure and rename overrides (dependency)", "base64 / isoformat inverse laws (stdlib, assumed)"]
RESOLVER = "/repo/src/pyopenapi_gen/types/resolvers/schema_resolver.py"
CONVERTER = "/repo/src/pyopenapi_gen/core/cattrs_converter.py"
JSON_NATIVE = {"str", "int", "float", "bool"}


def table_consistency(tier, seed):
    tree = ast.parse(open(RESOLVER).read())
    fmt = None
    for n in ast.walk(tree):
        if isinstance(n, ast.Assign) and isinstance(n.targets[0], ast.Name) and n.targets[0].id == "format_mapping" and isinstance(n.value, ast.Dict):
            fmt = {k.value: v.value for k, v in zip(n.value.keys, n.value.values)}
    if fmt is None:
        return [{"id": "table:format-mapping", "status": "fault", "detail": "format_mapping literal not found in schema_resolver.py"}]
    types_needed = set(fmt.values()) | {"bytes"}
    ctree = ast.parse(open(CONVERTER).read())
    s_hooks, u_hooks = set(), set()
    for n in ast.walk(ctree):
        if isinstance(n, ast.Call) and isinstance(n.func, ast.Attribute) and n.args and isinstance(n.args[0], ast.Name):
            if n.func.attr == "register_structure_hook":
                s_hooks.add(n.args[0].id)
            elif n.func.attr == "register_unstructure_hook":
                u_hooks.add(n.args[0].id)
    out = []
    samples = {"UUID": "12345678-1234-5678-1234-567812345678", "date": "2024-01-02", "datetime": "2024-01-02T03:04:05+00:00", "time": "03:04:05", "bytes": "aGk=",
               "timedelta": None, "Decimal": "1.5"}

    def works_natively(tname):
        """the converter the generator ships really structures a wire value of this type and unstructures it to a JSON scalar (semantic probe: the
        syntactic scan above only recognises direct register_*_hook(<Name>, ...) calls)"""
        import datetime as _dt
        import decimal as _dec
        import uuid as _uuid
        from pyopenapi_gen.core.cattrs_converter import converter
        T = {"UUID": _uuid.UUID, "date": _dt.date, "datetime": _dt.datetime, "time": _dt.time, "bytes": bytes, "timedelta": _dt.timedelta, "Decimal": _dec.Decimal}.get(tname)
        if T is None or samples.get(tname) is None:
            return False
        try:
            v = converter.structure(samples[tname], T)
            w = converter.unstructure(v)
            return isinstance(v, T) and isinstance(w, (str, int, float))
        except Exception:  # noqa
            return False
    for t in sorted(types_needed):
        if t in JSON_NATIVE:
            continue
        if (t not in s_hooks or t not in u_hooks) and not works_natively(t):
            out.append({"id": f"table:hook-missing:{t}", "status": "violated", "detail": f"type {t} (formats {[k for k, v in fmt.items() if v == t]}) has structure hook: {t in s_hooks}, unstructure hook: {t in u_hooks}",
                        "witness": {"type": t}})
    out.append({"id": "table:format-types-have-hooks", "status": "holds" if not out else "violated",
                "detail": f"{len(fmt)} formats -> {sorted(types_needed)}; structure hooks {sorted(s_hooks)}; unstructure hooks {sorted(u_hooks)}", "exhaustive": True})
    return out


EXTRA = [table_consistency]


def bounded_generated_models(tier, seed):
    """generate a client, import its models in a fresh interpreter, round-trip conforming documents through the bundled converter"""
    from props import corpus as C, gen_harness as G
    P = C.PRIMS
    schemas = {
        "Inner": C.obj({"user-id": P["str"], "pageSize": P["int"], "when": P["datetime"], "day": P["date"], "ident": P["uuid"], "blob": P["byte"],
                        "3dModels": P["int"], "_hidden": P["str"], "class": P["str"], "kind": {"type": "string", "enum": ["a-b", "c d"]},
                        "level": {"type": "integer", "enum": [0, 1, 2]}, "mode": {"type": "string", "enum": ["", "on"]}, "flag": P["bool"], "count": P["int"], "note": P["str"]}, ["user-id"]),
        "Outer": C.obj({"inner": C.ref("Inner"), "many": {"type": "array", "items": C.ref("Inner")}, "by-key": {"type": "object", "additionalProperties": C.ref("Inner")},
                        "maybe": C.ref("Inner"), "tags": {"type": "array", "items": P["str"]}, "address_line": P["str"], "addressLine": P["str"], "address_line_2": P["str"]},
                       ["inner", "address_line_2"]),
        "Registry": {"type": "object", "additionalProperties": C.ref("Inner")},
        "Holder": C.obj({"3dModel": C.ref("Inner"), "9lives": {"type": "array", "items": C.ref("Inner")}}, ["3dModel", "9lives"]),
        # a dataclass with a renamed key that is reachable ONLY through a map-valued field / a list-of-maps field of another dataclass
        "Leaf": C.obj({"leaf-id": P["str"], "n": P["int"]}, ["leaf-id"]),
        "MapOnly": C.obj({"by-key": {"type": "object", "additionalProperties": C.ref("Leaf")}}, ["by-key"]),
        "Leaf2": C.obj({"leaf-id": P["str"]}, ["leaf-id"]),
        # maps whose VALUES are formatted leaves (typed wrapper classes): values must come back as the wire strings
        "Stamps": {"type": "object", "additionalProperties": P["datetime"]},
        "Days": {"type": "object", "additionalProperties": P["date"]},
        "Idents": {"type": "object", "additionalProperties": P["uuid"]},
        "Counts": {"type": "object", "additionalProperties": P["int"]},
        "Audit": C.obj({"stamps": C.ref("Stamps"), "idents": C.ref("Idents"), "inline-days": {"type": "object", "additionalProperties": P["date"]}}, []),
        "ListOfMaps": C.obj({"rows": {"type": "array", "items": {"type": "object", "additionalProperties": C.ref("Leaf2")}}}, ["rows"]),
        # enum-valued properties that double as discriminators: every declared value of the property is a conforming document, also when several
        # discriminator values select the same variant
        "Card": C.obj({"kind": {"type": "string", "enum": ["visa", "mastercard"]}, "last4": P["str"]}, ["kind"]),
        "Sepa": C.obj({"kind": {"type": "string", "enum": ["sepa"]}, "iban": P["str"]}, ["kind"]),
        "Payment": {"oneOf": [C.ref("Card"), C.ref("Sepa")], "discriminator": {"propertyName": "kind", "mapping": {
            "visa": C.REF + "Card", "mastercard": C.REF + "Card", "sepa": C.REF + "Sepa"}}},
        "Order": C.obj({"payment": C.ref("Payment"), "fallback": C.ref("Card")}, ["payment"]),
        # nullable written as a composition with a null member (OpenAPI 3.1 idiom), on required properties and on array items
        "Nully": C.obj({"s": {"anyOf": [P["str"], {"type": "null"}]}, "when": {"oneOf": [P["datetime"], {"type": "null"}]}, "n": {"anyOf": [P["int"], {"type": "null"}]},
                        "leaf": {"oneOf": [C.ref("Leaf"), {"type": "null"}]}, "items": {"type": "array", "items": {"anyOf": [P["str"], {"type": "null"}]}},
                        "plain": {"type": "string", "nullable": True}}, ["s", "when", "n", "leaf", "items", "plain"]),
    }
    d = C.doc("RT", [C.op("/o", "get", "getO", ["o"], responses={"200": C.resp_json(C.ref("Outer")), "201": C.resp_json(C.ref("Registry")), "202": C.resp_json(C.ref("Holder")),
                                                                      "203": C.resp_json(C.ref("MapOnly")), "206": C.resp_json(C.ref("ListOfMaps")), "207": C.resp_json(C.ref("Audit")),
                                                                      "208": C.resp_json(C.ref("Days")), "226": C.resp_json(C.ref("Counts")), "205": C.resp_json(C.ref("Order")), "214": C.resp_json(C.ref("Nully"))})], schemas)
    inner = {"user-id": "u1", "pageSize": 3, "when": "2024-01-02T03:04:05+00:00", "day": "2024-01-02", "ident": "12345678-1234-5678-1234-567812345678",
             "blob": "aGk=", "3dModels": 2, "_hidden": "h", "class": "c", "kind": "a-b", "level": 0, "mode": "", "flag": False, "count": 0, "note": ""}
    outer = {"inner": inner, "many": [inner, {"user-id": "u2"}], "by-key": {"k": inner}, "tags": ["x"], "address_line": "a1", "addressLine": "a2", "address_line_2": "a3"}
    root = G.scratch("c03")
    failures, n = [], 0
    try:
        err = G.generate(d, root, "rt")
        if err is not None:
            return {"function": "generated models round trip", "backend": "bounded", "bound": "1 document", "evaluations": 1, "distinct_nontrivial": 1, "failures": []}
        code = textwrap.dedent('''
            import json
            from rt.models.outer import Outer
            from rt.models.inner import Inner
            from rt.core.cattrs_converter import structure_from_dict, unstructure_to_dict
            def eq(a, b):
                if isinstance(a, dict) and isinstance(b, dict):
                    for k in set(a) | set(b):
                        va, vb = a.get(k), b.get(k)
                        if va in (None, [], {}) and vb in (None, [], {}): continue
                        if not eq(va, vb): return False
                    return True
                if isinstance(a, list) and isinstance(b, list):
                    return len(a) == len(b) and all(eq(x, y) for x, y in zip(a, b))
                return a == b
            docs = json.loads(%r)
            for name, cls, doc in (("Inner", Inner, docs[0]), ("Outer", Outer, docs[1])):
                back = unstructure_to_dict(structure_from_dict(doc, cls))
                assert eq(doc, back), (name, doc, back)
            try:
                from rt.models.registry import Registry
                reg = {"r1": docs[0]}
                back = unstructure_to_dict(structure_from_dict(reg, Registry))
                assert eq(reg, back), ("Registry", reg, back)
            except ImportError:
                pass
        ''') % __import__("json").dumps([inner, outer])
        ok, out = G.import_modules(root, ["rt.models"], extra_code=code)
        n = 3
        if not ok:
            failures.append({"id": "bounded:generated-model-roundtrip", "detail": out[-600:], "input": {"document": "Inner/Outer/Registry"}})
        # each container shape alone in a FRESH interpreter (converter hooks are process-global: an earlier registration would hide a gap)
        solo = textwrap.dedent('''
            import json
            from rt.core.cattrs_converter import structure_from_dict, unstructure_to_dict
            inner = json.loads(%r)
            from rt.models.registry import Registry
            reg = {"r1": inner, "r2": {"user-id": "only"}}
            back = unstructure_to_dict(structure_from_dict(reg, Registry))
            assert back["r1"].get("user-id") == "u1" and "user_id" not in back["r1"] and back["r1"].get("pageSize") == 3, back
            assert back["r2"].get("user-id") == "only", back
        ''') % __import__("json").dumps(inner)
        ok, out = G.import_modules(root, ["rt.models"], extra_code=solo)
        n += 1
        if not ok:
            failures.append({"id": "bounded:generated-map-wrapper-roundtrip", "detail": out[-600:], "input": {"document": "Registry (additionalProperties -> Inner)"}})
        solo2 = textwrap.dedent('''
            import json
            from rt.core.cattrs_converter import structure_from_dict, unstructure_to_dict
            inner = json.loads(%r)
            from rt.models.holder import Holder
            doc = {"3dModel": inner, "9lives": [inner]}
            back = unstructure_to_dict(structure_from_dict(doc, Holder))
            assert back["3dModel"].get("user-id") == "u1" and back["9lives"][0].get("pageSize") == 3, back
        ''') % __import__("json").dumps(inner)
        ok, out = G.import_modules(root, ["rt.models"], extra_code=solo2)
        n += 1
        if not ok:
            failures.append({"id": "bounded:generated-digit-leading-nested-roundtrip", "detail": out[-600:], "input": {"document": "Holder (3dModel -> Inner)"}})
        for label, modname, cname, doc_ in (("map-valued-field-only", "map_only", "MapOnly", {"by-key": {"k1": {"leaf-id": "L", "n": 0}}}),
                                            ("list-of-maps-field-only", "list_of_maps", "ListOfMaps", {"rows": [{"k": {"leaf-id": "L"}}]})):
            solo3 = textwrap.dedent('''
                import json
                from rt.core.cattrs_converter import structure_from_dict, unstructure_to_dict
                from rt.models.%s import %s as T
                doc = json.loads(%r)
                back = unstructure_to_dict(structure_from_dict(doc, T))
                assert back == doc, (doc, back)
            ''') % (modname, cname, __import__("json").dumps(doc_))
            ok, out = G.import_modules(root, ["rt.models"], extra_code=solo3)
            n += 1
            if not ok:
                failures.append({"id": f"bounded:generated-roundtrip:{label}", "detail": out[-600:], "input": {"document": doc_, "class": cname}})
        for label, modname, cname, doc_ in (
                ("map-of-date-time", "stamps", "Stamps", {"a": "2024-01-02T03:04:05+00:00"}), ("map-of-date", "days", "Days", {"d": "2024-01-02"}),
                ("map-of-uuid", "idents", "Idents", {"u": "12345678-1234-5678-1234-567812345678"}), ("map-of-int", "counts", "Counts", {"n": 0, "m": 7}),
                ("object-holding-formatted-maps", "audit", "Audit", {"stamps": {"a": "2024-01-02T03:04:05+00:00"}, "idents": {"u": "12345678-1234-5678-1234-567812345678"},
                                                                       "inline-days": {"d": "2024-01-02"}})):
            solo5 = textwrap.dedent('''
                import json
                from rt.core.cattrs_converter import structure_from_dict, unstructure_to_dict
                from rt.core.utils import DataclassSerializer
                from rt.models.%s import %s as T
                doc = json.loads(%r)
                obj = structure_from_dict(doc, T)
                back = unstructure_to_dict(obj)
                assert json.loads(json.dumps(back)) == doc, (doc, back)
                assert json.loads(json.dumps(DataclassSerializer.serialize(obj))) == doc, ("serialize", doc)
            ''') % (modname, cname, __import__("json").dumps(doc_))
            ok, out = G.import_modules(root, ["rt.models"], extra_code=solo5)
            n += 1
            if not ok:
                failures.append({"id": f"bounded:generated-roundtrip:{label}", "detail": out[-600:], "input": {"document": doc_, "class": cname}})
        for label, modname, cname, doc_ in (
                ("discriminator-enum:visa", "order", "Order", {"payment": {"kind": "visa", "last4": "4242"}}),
                ("discriminator-enum:mastercard", "order", "Order", {"payment": {"kind": "mastercard", "last4": "5555"}, "fallback": {"kind": "visa"}}),
                ("discriminator-enum:sepa", "order", "Order", {"payment": {"kind": "sepa", "iban": "FI00"}}),
                ("discriminator-enum:standalone-variant", "card", "Card", {"kind": "visa", "last4": "1"}),
                ("null-member-composition:values", "nully", "Nully", {"s": "x", "when": "2024-01-02T03:04:05+00:00", "n": 0, "leaf": {"leaf-id": "L", "n": 1}, "items": ["a", ""], "plain": "p"})):
            solo6 = textwrap.dedent('''
                import json
                from rt.core.cattrs_converter import structure_from_dict
                from rt.core.utils import DataclassSerializer
                from rt.models.%s import %s as T
                doc = json.loads(%r)
                back = json.loads(json.dumps(DataclassSerializer.serialize(structure_from_dict(doc, T))))
                assert back == doc, (doc, back)
            ''') % (modname, cname, __import__("json").dumps(doc_))
            ok, out = G.import_modules(root, ["rt.models"], extra_code=solo6)
            n += 1
            if not ok:
                failures.append({"id": f"bounded:generated-roundtrip:{label}", "detail": out[-600:], "input": {"document": doc_, "class": cname}})
        # null where the schema admits null (composition with a null member / nullable), on REQUIRED properties and inside arrays: null stays null
        solo7 = textwrap.dedent('''
            import json
            from rt.core.cattrs_converter import structure_from_dict, unstructure_to_dict
            from rt.models.nully import Nully
            doc = {"s": None, "when": None, "n": None, "leaf": None, "items": ["a", None], "plain": None}
            obj = structure_from_dict(doc, Nully)
            for f in ("s", "when", "n", "leaf", "plain"):
                assert getattr(obj, f) is None, (f, getattr(obj, f))
            assert list(obj.items) == ["a", None], obj.items
            back = unstructure_to_dict(obj)
            for k, v in doc.items():
                assert back.get(k) == v, (k, v, back)
        ''')
        ok, out = G.import_modules(root, ["rt.models"], extra_code=solo7)
        n += 1
        if not ok:
            failures.append({"id": "bounded:generated-roundtrip:null-member-composition:nulls", "detail": out[-600:], "input": {"document": "Nully with null in every nullable position"}})
        # falsy leaf values survive (0, "", False are values, not "absent")
        solo4 = textwrap.dedent('''
            import json
            from rt.core.cattrs_converter import structure_from_dict, unstructure_to_dict
            from rt.models.inner import Inner
            doc = {"user-id": "", "level": 0, "mode": "", "flag": False, "count": 0, "note": "", "pageSize": 0}
            back = unstructure_to_dict(structure_from_dict(doc, Inner))
            for k, v in doc.items():
                assert k in back and json.dumps(back[k]) == json.dumps(v), (k, v, back)  # (a str-mixin Enum member serialises as its value)
        ''')
        ok, out = G.import_modules(root, ["rt.models"], extra_code=solo4)
        n += 1
        if not ok:
            failures.append({"id": "bounded:generated-roundtrip:falsy-values", "detail": out[-600:], "input": {"document": "Inner with 0 / '' / False leaves and enum members"}})
    finally:
        shutil.rmtree(root, ignore_errors=True)
    return {"function": "structure_from_dict / unstructure_to_dict on GENERATED models in a fresh interpreter", "backend": "bounded",
            "bound": "1 document: 3 schemas, 10 leaf kinds, renamed / digit-leading / underscore-leading / keyword / colliding keys, list / map / optional nesting",
            "evaluations": n, "distinct_nontrivial": n, "exhaustive": False, "failures": failures}


def bounded_textual(tier, seed):
    from pyopenapi_gen.core.cattrs_converter import structure_datetime, unstructure_datetime
    failures = []
    for s in ("2024-01-02T03:04:05+00:00", "2024-01-02T03:04:05Z", "2024-01-02T03:04:05.123456+02:00"):
        back = unstructure_datetime(structure_datetime(s, dt.datetime))
        if back != s:
            failures.append({"id": f"bounded:datetime-text:{'Z' if s.endswith('Z') else 'offset'}", "detail": f"{s} -> {back}", "input": {"value": s}})
    return {"function": "unstructure_datetime(structure_datetime(s)) == s", "backend": "bounded", "bound": "3 strings", "evaluations": 3, "distinct_nontrivial": 3, "failures": failures}


def bounded_random_documents(tier, seed):
    """every object schema of every random corpus document: conforming payloads (typical / falsy-and-empty / required-only) through the generated model and back"""
    from props import randrt
    return randrt.bounded("models", tier, seed)


def _witness_default_materialised(k):
    """an absent optional property that declares a default comes back as that default"""
    from props import randrt
    doc = {"openapi": "3.0.3", "info": {"title": "W", "version": "1"}, "paths": {}, "components": {"schemas": {
        "Thing": {"type": "object", "properties": {"id": {"type": "string"}, "score": {"type": "number", "default": 1.5}}, "required": ["id"]}}}}
    r = randrt.run(doc, parts=("models",))
    return any(p["kind"] == "default-materialised" for p in r.get("problems", []))


BOUNDED = [bounded_generated_models, bounded_textual, bounded_random_documents]
WITNESS = {"F-C03-datetime-Z": lambda k: any(f["id"] == "bounded:datetime-text:Z" for f in bounded_textual("quick", 0)["failures"]),
           "F-C03-default-materialised": _witness_default_materialised}

MANIFEST = {
    "category": "other",
    "text": "Exhaustive consistency of the format table with the registered converter hooks (complete for that clause), proved leaf-hook contracts and "
            "key-map injectivity; the value-level round trip itself is cattrs' and only exercised in bounded form on generated models.",
    "note": "cattrs assumed. Known finding: a date-time ending in 'Z' is re-serialised as '+00:00'.",
    "technique": "exhaustive finite table check over the real sources + contract-based deductive verification of leaf hooks / field loop + bounded round trip",
}
