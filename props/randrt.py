"""Run-time oracle over a generated client of ANY document (used with the random corpus documents): a conforming payload generator (props/payload.py)
drives (a) model round trips through the bundled converter, (b) every declared 2xx response through httpx.MockTransport, (c) every operation's request.
One generation and one fresh interpreter per document.  Bounded stand-in: never counted as proved."""
from __future__ import annotations

import json
import os
import shutil
import subprocess
import textwrap

from props import gen_harness as G, payload

HTTP = ("get", "put", "post", "delete", "patch", "head", "options")

DRIVER = textwrap.dedent('''
    import asyncio, importlib, inspect, json, re, sys, typing
    sys.path.insert(0, %(verif)r)
    sys.path.insert(0, %(root)r)
    import httpx
    from props.payload import diffs
    plan = json.load(open(%(plan)r))
    from cli.core.cattrs_converter import structure_from_dict
    from cli.core.utils import DataclassSerializer
    problems, counts = [], {"models": 0, "responses": 0, "requests": 0}
    def J(x):
        return json.loads(json.dumps(DataclassSerializer.serialize(x)))
    def norm(s):
        return re.sub(r"[^a-z0-9]", "", s.lower())
    def cls_of(name):
        m = importlib.import_module("cli.models")
        if hasattr(m, name):
            return getattr(m, name)
        raise LookupError("no model class " + name)
    # (a) model round trips
    for sname, cname, doc, filled in plan["models"]:
        counts["models"] += 1
        try:
            back = J(structure_from_dict(doc, cls_of(cname)))
        except Exception as e:
            problems.append({"part": "models", "kind": "error", "schema": sname, "sent": doc, "detail": type(e).__name__ + ": " + str(e)[:300]})
            continue
        ds = [d for d in diffs(doc, back) if d[1] != "tolerated"]
        if ds:
            only_defaults = not [d for d in diffs(filled, back) if d[1] != "tolerated"]
            problems.append({"part": "models", "kind": "default-materialised" if only_defaults else "changed", "schema": sname, "sent": doc, "detail": json.dumps(ds)[:400]})
    # (b), (c) operations
    if plan["operations"]:
        from cli.client import APIClient
        from cli.core.config import ClientConfig
        from cli.core.http_transport import HttpxTransport
        state, seen = {}, []
        def handler(req):
            seen.append(req)
            if state["body"] is None:
                return httpx.Response(state["status"])
            return httpx.Response(state["status"], json=state["body"])
        def strip_optional(t):
            args = [a for a in typing.get_args(t) if a is not type(None)]
            if typing.get_origin(t) is typing.Union and len(args) == 1:
                return args[0]
            return t
        def accept(value, got_list):
            """renderings of a scalar / array argument that put every item on the wire"""
            if isinstance(value, bool):
                return [g.lower() for g in got_list] == [str(value).lower()]
            if isinstance(value, list):
                return got_list == [str(v) for v in value] or got_list == [",".join(str(v) for v in value)]
            return got_list == [str(value)]
        async def main():
            t = HttpxTransport("https://x.invalid")
            t._client = httpx.AsyncClient(base_url="https://x.invalid", transport=httpx.MockTransport(handler))
            c = APIClient(ClientConfig(base_url="https://x.invalid"), transport=t)
            groups = []
            for a in dir(c):
                if a.startswith("_"):
                    continue
                try:
                    g = getattr(c, a)
                except Exception:
                    continue
                if type(g).__name__.endswith("Client") and type(g).__module__.startswith("cli.endpoints"):
                    groups.append((a, g))
            for op in plan["operations"]:
                holders = [(a, g) for a, g in groups if callable(getattr(g, op["py"], None))]
                if not holders:
                    problems.append({"part": "requests", "kind": "no-method", "op": op["id"], "detail": "no endpoint client has a method " + op["py"]})
                    continue
                for a, g in holders[:1]:
                    meth = getattr(g, op["py"])
                    sig = inspect.signature(meth)
                    try:
                        hints = typing.get_type_hints(meth)
                    except Exception:
                        hints = {}
                    for case in op["cases"]:
                        kwargs, unmatched = {}, []
                        for pname, prm in sig.parameters.items():
                            if pname in ("self",) or prm.kind in (prm.VAR_KEYWORD, prm.VAR_POSITIONAL):
                                continue
                            spec = next((p for p in op["params"] if norm(p["name"]) == norm(pname)), None)
                            if spec is not None:
                                if spec["name"] in case["args"]:
                                    kwargs[pname] = case["args"][spec["name"]]
                                elif prm.default is inspect.Parameter.empty:
                                    kwargs[pname] = None  # an optional parameter without a default in the signature: left as None explicitly
                                continue
                            if pname == "body" and case.get("body") is not None:
                                T = strip_optional(hints.get("body", typing.Any))
                                try:
                                    kwargs["body"] = structure_from_dict(case["body"], T) if T is not typing.Any else case["body"]
                                except Exception as e:
                                    kwargs["body"] = case["body"]
                                continue
                            if prm.default is inspect.Parameter.empty and pname != "body":
                                unmatched.append(pname)
                        if unmatched:
                            problems.append({"part": "requests", "kind": "unmatched-parameter", "op": op["id"], "detail": "required python parameters without a spec counterpart: " + ", ".join(unmatched)})
                            continue
                        state.update(status=case["status"], body=case["response"])
                        del seen[:]
                        try:
                            r = await meth(**kwargs)
                        except Exception as e:
                            problems.append({"part": "responses" if seen else "requests", "kind": "raised", "op": op["id"], "case": case["label"],
                                             "detail": type(e).__name__ + ": " + str(e)[:300], "sent": case["response"]})
                            continue
                        # (c) the request
                        counts["requests"] += 1
                        bad = []
                        if len(seen) != 1:
                            bad.append("%%d requests issued" %% len(seen))
                        else:
                            q = seen[0]
                            if q.method.lower() != op["method"]:
                                bad.append("method " + q.method)
                            if q.url.path != case["path"]:
                                bad.append("path %%r, expected %%r" %% (q.url.path, case["path"]))
                            want_q = {p["name"]: case["args"][p["name"]] for p in op["params"] if p["in"] == "query" and p["name"] in case["args"]}
                            got_q = {}
                            for k, v in q.url.params.multi_items():
                                got_q.setdefault(k, []).append(v)
                            for k in sorted(set(want_q) | set(got_q)):
                                if k not in want_q:
                                    bad.append("query %%r sent though not supplied" %% k)
                                elif k not in got_q:
                                    bad.append("query %%r dropped" %% k)
                                elif not accept(want_q[k], got_q[k]):
                                    bad.append("query %%r = %%r, supplied %%r" %% (k, got_q[k], want_q[k]))
                            for p in op["params"]:
                                if p["in"] != "header":
                                    continue
                                got = q.headers.get_list(p["name"])
                                if p["name"] in case["args"]:
                                    if not got:
                                        bad.append("header %%r dropped" %% p["name"])
                                    elif not accept(case["args"][p["name"]], got):
                                        bad.append("header %%r = %%r, supplied %%r" %% (p["name"], got, case["args"][p["name"]]))
                                elif got:
                                    bad.append("header %%r sent though not supplied" %% p["name"])
                            if "body" in kwargs:
                                try:
                                    sent = json.loads(q.content)
                                    want = J(kwargs["body"])
                                    if sent != want:
                                        bad.append("body %%s, serialised argument %%s" %% (json.dumps(sent)[:200], json.dumps(want)[:200]))
                                    if not q.headers.get("content-type", "").startswith("application/json"):
                                        bad.append("content-type " + q.headers.get("content-type", "<none>"))
                                except Exception as e:
                                    bad.append("body not JSON: " + repr(q.content[:80]))
                            elif q.content:
                                bad.append("a body was sent though none was supplied")
                        if bad:
                            problems.append({"part": "requests", "kind": "request", "op": op["id"], "case": case["label"], "detail": "; ".join(bad)[:500], "sent": case["args"]})
                        # (b) the response
                        counts["responses"] += 1
                        if case["response"] is None:
                            if r is not None:
                                problems.append({"part": "responses", "kind": "not-none", "op": op["id"], "case": case["label"], "detail": "no-content response returned " + repr(r)[:100]})
                        else:
                            try:
                                back = J(r)
                            except Exception as e:
                                problems.append({"part": "responses", "kind": "unserialisable", "op": op["id"], "case": case["label"], "detail": repr(e)[:200]})
                                continue
                            want_cls = case.get("response_class")
                            if want_cls and type(r).__name__ != want_cls:
                                problems.append({"part": "responses", "kind": "wrong-type", "op": op["id"], "case": case["label"],
                                                 "detail": "returned a %%s (%%r), the annotated return type is %%s" %% (type(r).__name__, r, want_cls), "sent": case["response"]})
                                continue
                            item_cls = case.get("response_item_class")
                            if item_cls and isinstance(r, list) and any(type(x).__name__ != item_cls for x in r):
                                problems.append({"part": "responses", "kind": "wrong-item-type", "op": op["id"], "case": case["label"],
                                                 "detail": "items %%s, annotated item type %%s" %% (sorted({type(x).__name__ for x in r}), item_cls), "sent": case["response"]})
                                continue
                            ds = [d for d in diffs(case["response_filled"], back) if d[1] != "tolerated"]
                            if ds:
                                problems.append({"part": "responses", "kind": "changed", "op": op["id"], "case": case["label"], "detail": json.dumps(ds)[:400], "sent": case["response"]})
        asyncio.run(main())
    json.dump({"problems": problems, "counts": counts}, open(%(out)r, "w"))
    print("DRIVER-DONE")
''')


def _arg_value(schema, where, variant):
    t = schema.get("type")
    if t == "integer":
        return 0 if variant else 7
    if t == "boolean":
        return bool(variant == 0)
    if t == "array":
        return ["x", "y z"] if where == "query" else ["x", "y"]
    if where == "path":
        return "id 7" if variant == 0 else "0"
    if where == "header":
        return "v 1" if variant == 0 else "0"
    return "a b&c=d" if variant == 0 else "0"


def _model_class(schemas, sch):
    """class name of the value a `$ref` to a named object or enum schema decodes to (None for anything else: aliases, unions, containers, primitives)"""
    from pyopenapi_gen.core.utils import NameSanitizer
    if not isinstance(sch, dict) or "$ref" not in sch:
        return None
    name = sch["$ref"].split("/")[-1]
    target = schemas.get(name) or {}
    if target.get("properties") or target.get("allOf") or ("enum" in target and target.get("type") in ("string", "integer")):
        if target.get("type") == "object" and not target.get("properties") and not target.get("allOf"):
            return None
        return NameSanitizer.sanitize_class_name(name)
    return None


def plan_for(doc, parts):
    from pyopenapi_gen.core.utils import NameSanitizer
    schemas = doc.get("components", {}).get("schemas", {})
    plan = {"models": [], "operations": []}
    if "models" in parts:
        for sname, sch in schemas.items():
            if not isinstance(sch, dict) or not (sch.get("properties") or sch.get("allOf")):
                continue
            for v in (0, 1, 2):
                p = payload.conforming(schemas, sch, v, 0, sname)
                plan["models"].append([sname, NameSanitizer.sanitize_class_name(sname), p, payload.with_defaults(schemas, sch, p)])
    if "unions" in parts:
        for sname, sch in schemas.items():
            members = isinstance(sch, dict) and (sch.get("oneOf") or sch.get("anyOf"))
            if not members:
                continue
            for i, mem in enumerate(members):
                for v in (0, 1):
                    p = payload.conforming(schemas, mem, v)
                    plan["models"].append([sname, NameSanitizer.sanitize_class_name(sname), p, payload.with_defaults(schemas, mem, p)])
    if "responses" in parts or "requests" in parts:
        for path, item in doc.get("paths", {}).items():
            shared = item.get("parameters", [])
            for m in HTTP:
                op = item.get(m)
                if not isinstance(op, dict) or "operationId" not in op:
                    continue
                params = [p for p in list(shared) + list(op.get("parameters", [])) if "name" in p and p.get("in") in ("path", "query", "header")]
                rb = op.get("requestBody") or {}
                body_schema = ((rb.get("content") or {}).get("application/json") or {}).get("schema")
                twoxx = [(code, r) for code, r in (op.get("responses") or {}).items() if str(code).isdigit() and 200 <= int(code) < 300]
                cases = []
                for code, r in twoxx:
                    js = ((r.get("content") or {}).get("application/json") or {}).get("schema")
                    if r.get("content") and js is None:
                        continue  # non-JSON content: judged by the per-kind checks
                    for variant in (0, 1):
                        supplied = {p["name"]: _arg_value(p.get("schema", {}), p["in"], variant) for p in params if variant == 0 or p.get("required") or p["in"] == "path"}
                        url = path
                        for p in params:
                            if p["in"] == "path":
                                url = url.replace("{" + p["name"] + "}", str(supplied[p["name"]]))
                        resp = payload.conforming(schemas, js, variant) if js is not None else None
                        body = None
                        if body_schema is not None and (variant == 0 or rb.get("required")):
                            body = payload.conforming(schemas, body_schema, variant)
                        cases.append({"label": f"{code}/{'all' if variant == 0 else 'required-only'}", "status": int(code), "args": supplied, "path": url, "body": body,
                                      "response": resp, "response_filled": payload.with_defaults(schemas, js, resp) if js is not None else None,
                                      "response_class": _model_class(schemas, js), "response_item_class": _model_class(schemas, (js or {}).get("items")) if isinstance(js, dict) and js.get("type") == "array" else None})
                if cases:
                    plan["operations"].append({"id": op["operationId"], "py": NameSanitizer.sanitize_method_name(op["operationId"]), "method": m, "params": params, "cases": cases})
    return plan


def run(doc, parts=("models", "responses", "requests"), timeout=180):
    """-> {"counts": {...}, "problems": [...]} or {"error": text}"""
    root = G.scratch("rrt")
    try:
        err = G.generate(doc, root, "cli")
        if err is not None:
            return {"generation_error": f"{type(err).__name__}: {err}"[:300], "counts": {}, "problems": []}
        plan = plan_for(doc, parts)
        pf, of = os.path.join(root, "_plan.json"), os.path.join(root, "_out.json")
        json.dump(plan, open(pf, "w"))
        code = DRIVER % {"verif": os.path.dirname(os.path.dirname(os.path.abspath(__file__))), "root": root, "plan": pf, "out": of}
        env = dict(os.environ)
        env.pop("PYTHONPATH", None)
        p = subprocess.run([G.PY, "-c", code], capture_output=True, text=True, timeout=timeout, env=env, cwd=root)
        if p.returncode != 0 or not os.path.exists(of):
            return {"error": (p.stdout + p.stderr)[-800:], "counts": {}, "problems": []}
        return json.load(open(of))
    finally:
        shutil.rmtree(root, ignore_errors=True)


PART_TEXT = {"models": "structure_from_dict / serialize round trip of every object schema's model", "unions": "decode / re-encode of every member payload of every union alias",
             "responses": "every declared 2xx JSON / empty response through httpx.MockTransport: returned value re-serialises to the body",
             "requests": "every operation's request through httpx.MockTransport: one request, method, path, query, headers, JSON body"}


def bounded(part, tier, seed, ignore=lambda problem: False):
    """bounded record for one part over the random documents of the corpus (fixed seeds; quick: 8, thorough: 60)"""
    from props import corpus
    docs = [(n, d) for n, f, d in corpus.shapes(tier, seed) if f.get("random_doc")]
    failures, n, ignored = [], 0, 0
    for name, d in docs:
        r = run(d, parts=(part,))
        if r.get("generation_error"):
            continue  # generation failures are C01 / C07's subject
        if r.get("error"):
            failures.append({"id": f"bounded:random-{part}:{name}:harness", "detail": r["error"][-400:], "input": {"document": name}})
            continue
        n += r["counts"].get("models" if part == "unions" else part, 0)
        for pr in r["problems"]:
            if pr["part"] != ("models" if part == "unions" else part):
                continue
            if ignore(pr):
                ignored += 1
                continue
            what = pr.get("schema") or pr.get("op")
            failures.append({"id": f"bounded:random-{part}:{name}:{pr['kind']}:{what}", "detail": f"{name}: {what} {pr.get('case', '')}: {pr['detail']}"[:600],
                             "input": {"document": name, "subject": what, "sent": pr.get("sent")}})
    return {"function": "generated client of each random corpus document, fresh interpreter: " + PART_TEXT[part], "backend": "bounded",
            "bound": f"{len(docs)} random documents (fixed seeds), conforming payloads in 2-3 variants (typical, falsy / empty, required-only)", "evaluations": n,
            "distinct_nontrivial": n, "exhaustive": False, "failures": failures, "ignored": ignored}
