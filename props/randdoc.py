"""Deterministic random OpenAPI documents for the shape corpus: a small grammar over the features the properties quantify over.  The seed list is fixed
(independent of VERIF_SEED): the documents are part of the vetted corpus, not a fuzzing campaign."""
from __future__ import annotations

import random

R = "#/components/schemas/"
PROP_NAMES = ["id", "name", "user-id", "pageSize", "class", "3dModel", "_hidden", "date", "type", "created_at", "isActive", "x-y z", "URL", "value", "items", "count"]
TAGS = [["pets"], ["Pets"], ["store"], ["Store Admin"], ["store-admin"], None, ["pets", "store"], ["default"]]
FORMATS = [{"type": "string"}, {"type": "integer"}, {"type": "integer", "format": "int64"}, {"type": "number"}, {"type": "boolean"},
           {"type": "string", "format": "date"}, {"type": "string", "format": "date-time"}, {"type": "string", "format": "uuid"}, {"type": "string", "format": "byte"}]


def _leaf(rnd):
    return dict(rnd.choice(FORMATS))


def _value_schema(rnd, names, depth=0):
    k = rnd.random()
    if k < 0.35 or depth > 1:
        s = _leaf(rnd)
        if rnd.random() < 0.15 and s["type"] in ("string", "integer") and "format" not in s:
            s["enum"] = ["a", "", "b-c"] if s["type"] == "string" else [0, 1, -1]
        if rnd.random() < 0.15 and "enum" not in s and "format" not in s:
            s["default"] = {"string": "dflt", "integer": 0, "number": 1.5, "boolean": False}[s["type"]]
        if rnd.random() < 0.1:
            s["nullable"] = True
        return s
    if k < 0.55 and names:
        return {"$ref": R + rnd.choice(names)}
    if k < 0.7:
        return {"type": "array", "items": _value_schema(rnd, names, depth + 1)}
    if k < 0.82:
        return {"type": "object", "additionalProperties": _value_schema(rnd, names, depth + 1)}
    if k < 0.92:
        o = {"type": "object", "properties": {"inner": _leaf(rnd), "n": {"type": "integer"}}}
        if rnd.random() < 0.5:
            o["required"] = ["inner"]
        return o
    return {"type": "object", "additionalProperties": True}


def _object(rnd, names):
    props = {}
    for pn in rnd.sample(PROP_NAMES, rnd.randint(1, 6)):
        props[pn] = _value_schema(rnd, names)
    req = [p for p in props if rnd.random() < 0.4]
    o = {"type": "object", "properties": props}
    if req:
        o["required"] = req
    ap = rnd.random()
    if ap < 0.12:
        o["additionalProperties"] = True
    elif ap < 0.2:
        o["additionalProperties"] = False
    elif ap < 0.28:
        o["additionalProperties"] = {"type": "string"}
    if rnd.random() < 0.3:
        o["description"] = "A thing.\nSecond line with \"quotes\" and a \\ backslash."
    return o


def document(seed):
    rnd = random.Random(7919 * seed + 13)
    schemas, names = {}, []
    for i in range(rnd.randint(3, 6)):
        nm = f"S{seed}T{i}"
        kind = rnd.random()
        objs = [n for n in names if schemas[n].get("type") == "object" and "properties" in schemas[n]]
        if kind < 0.6 or not objs:
            schemas[nm] = _object(rnd, names)
        elif kind < 0.72:
            member = {"type": "object", "properties": {"extra" + str(i): _leaf(rnd)}}
            if rnd.random() < 0.5:
                member["required"] = ["extra" + str(i)]
            schemas[nm] = {"allOf": [{"$ref": R + rnd.choice(objs)}, member]}
        elif kind < 0.8:
            schemas[nm] = {"type": "string", "enum": ["red", "dark-green", "BLUE", ""]}
        elif kind < 0.88:
            schemas[nm] = {"type": "array", "items": {"$ref": R + rnd.choice(names)}}
        else:
            schemas[nm] = {"type": "object", "additionalProperties": {"$ref": R + rnd.choice(names)}}
        names.append(nm)
    objs = [n for n in names if schemas[n].get("type") == "object" and "properties" in schemas[n]]
    if len(objs) >= 2 and rnd.random() < 0.7:
        a, b = rnd.sample(objs, 2)
        for n_, v in ((a, "a"), (b, "b")):
            schemas[n_]["properties"]["kind"] = {"type": "string"}
            schemas[n_]["required"] = sorted(set(schemas[n_].get("required", [])) | {"kind"})
        schemas[f"U{seed}"] = {"oneOf": [{"$ref": R + a}, {"$ref": R + b}], "discriminator": {"propertyName": "kind", "mapping": {"a": R + a, "b": R + b}}}
        names.append(f"U{seed}")
    paths = {}
    for j in range(rnd.randint(2, 5)):
        has_var = rnd.random() < 0.6
        path = f"/r{j}" + ("/{itemId}" if has_var else "") + ("/sub" if rnd.random() < 0.3 else "")
        item = paths.setdefault(path, {})
        for method in rnd.sample(["get", "post", "put", "delete", "patch"], rnd.randint(1, 2)):
            params = []
            if has_var:
                params.append({"name": "itemId", "in": "path", "required": True, "schema": rnd.choice([{"type": "string"}, {"type": "integer"}])})
            for q in rnd.sample(["page-size", "q", "sort_by", "X-Trace", "filter", "limit"], rnd.randint(0, 3)):
                where = "header" if q.startswith("X-") else "query"
                p = {"name": q, "in": where, "schema": rnd.choice([{"type": "string"}, {"type": "integer"}, {"type": "boolean"}, {"type": "array", "items": {"type": "string"}}])}
                if rnd.random() < 0.4:
                    p["required"] = True
                params.append(p)
            rnd.shuffle(params)
            op = {"operationId": rnd.choice([f"op{seed}_{j}_{method}", f"{method}-r{j}", f"{method}R{j}Item"]), "responses": {}}
            tg = rnd.choice(TAGS)
            if tg is not None:
                op["tags"] = tg
            if params:
                op["parameters"] = params
            if method in ("post", "put", "patch") and rnd.random() < 0.8:
                body_schema = {"$ref": R + rnd.choice(names)}
                content = {"application/json": {"schema": body_schema}}
                if rnd.random() < 0.25:
                    content["multipart/form-data"] = {"schema": {"type": "object", "properties": {"file": {"type": "string", "format": "binary"}}}}
                op["requestBody"] = {"required": rnd.random() < 0.7, "content": content}
            ok = rnd.random()
            target = rnd.choice(names)
            if ok < 0.5:
                op["responses"]["200"] = {"description": "ok", "content": {"application/json": {"schema": {"$ref": R + target}}}}
            elif ok < 0.65:
                op["responses"]["200"] = {"description": "ok", "content": {"application/json": {"schema": {"type": "array", "items": {"$ref": R + target}}}}}
            elif ok < 0.75:
                op["responses"]["201"] = {"description": "created", "content": {"application/json": {"schema": {"$ref": R + target}}}}
                op["responses"]["202"] = {"description": "later"}
            elif ok < 0.85:
                op["responses"]["204"] = {"description": "none"}
            else:
                op["responses"]["200"] = {"description": "ok", "content": {"application/json": {"schema": rnd.choice([{"type": "integer"}, {"type": "string"}, {"type": "boolean"}])}}}
            for code in rnd.sample(["400", "401", "404", "409", "422", "500", "503"], rnd.randint(0, 3)):
                op["responses"][code] = {"description": "err"} if rnd.random() < 0.5 else {"description": "err", "content": {"application/json": {"schema": {"$ref": R + rnd.choice(objs or names)}}}}
            if rnd.random() < 0.2:
                op["responses"]["default"] = {"description": "unexpected"}
            item[method] = op
    return {"openapi": "3.0.3", "info": {"title": f"Random {seed}", "version": "1.0.0"}, "paths": paths, "components": {"schemas": schemas}}
