"""C16 — bundled converter obeys round-trip laws for any mapped dataclass; the serialiser terminates on cycles."""
# NOTE: no `from __future__ import annotations` here: the dataclasses below must look like generated models (evaluated annotations)

import dataclasses
import datetime as dt
import enum
import itertools
import json
import random
import uuid
from typing import Any, Dict, List, Optional

ID = "C16"
LEVEL = "other"
CONTRACT_MODULES = ["contracts.serializer"]
EXPLANATION = ("DataclassSerializer: _remove_none_values is proved (for every input) to return a mapping without null-valued keys that keeps exactly the "
               "non-None keys; _serialize_with_tracking and _ensure_all_dicts are proved to restore the in-progress set on every normal and "
               "exceptional exit (the visited-set discipline behind cycle termination), modularly through their mutual recursion. The round-trip "
               "laws proper are cattrs' behaviour (assumed dependency); they are exercised by the bounded stand-in over enumerated dataclass type "
               "trees with and without wire-key maps.")
TRUSTED = ["cattrs structure/unstructure (dependency, not under contract)", "dataclasses.is_dataclass, base64 (stdlib, opaque)",
           "termination itself is argued from the proved discipline (an object in progress is never descended into); no ranking function is discharged"]


class Color(enum.Enum):
    RED = "red"
    BLUE = "blue"


def _types():
    """enumerated dataclass type trees: leaves x containers x key maps"""
    @dataclasses.dataclass
    class Leafs:
        s: str
        i: int
        f: float
        b: bool
        when: dt.datetime
        day: dt.date
        raw: bytes
        color: Color
        opt: Optional[str] = None

    @dataclasses.dataclass
    class Mapped:
        user_id: str
        page_size: Optional[int] = None
        tags: List[str] = dataclasses.field(default_factory=list)

        class Meta:
            key_transform_with_load = {"userId": "user_id", "page-size": "page_size", "tags": "tags"}
            key_transform_with_dump = {"user_id": "userId", "page_size": "page-size", "tags": "tags"}

    @dataclasses.dataclass
    class Nest:
        inner: Mapped
        many: List[Mapped]
        by_key: Dict[str, Mapped]
        maybe: Optional[Mapped] = None
        leafs: Optional[Leafs] = None

        class Meta:
            key_transform_with_load = {"inner": "inner", "many": "many", "byKey": "by_key", "maybe": "maybe", "leafs": "leafs"}
            key_transform_with_dump = {"inner": "inner", "many": "many", "by_key": "byKey", "maybe": "maybe", "leafs": "leafs"}
    leafs_json = {"s": "x", "i": 3, "f": 1.5, "b": True, "when": "2024-01-02T03:04:05+00:00", "day": "2024-01-02", "raw": "aGk=", "color": "red", "opt": None}
    mapped_json = {"userId": "u1", "page-size": 10, "tags": ["a", "b"]}
    nest_json = {"inner": mapped_json, "many": [mapped_json, {"userId": "u2", "page-size": None, "tags": []}], "byKey": {"k": mapped_json}, "maybe": None, "leafs": leafs_json}
    return [(Leafs, leafs_json), (Mapped, mapped_json), (Nest, nest_json)]


def _eq_json(a, b):
    """equal up to: an absent optional may reappear as null / empty container"""
    if isinstance(a, dict) and isinstance(b, dict):
        for k in set(a) | set(b):
            va, vb = a.get(k), b.get(k)
            if va in (None, [], {}) and vb in (None, [], {}):
                continue
            if not _eq_json(va, vb):
                return False
        return True
    if isinstance(a, list) and isinstance(b, list):
        return len(a) == len(b) and all(_eq_json(x, y) for x, y in zip(a, b))
    return a == b


def bounded_round_trips(tier, seed):
    from pyopenapi_gen.core.cattrs_converter import structure_from_dict, unstructure_to_dict
    n, failures = 0, []
    for cls, doc in _types():
        n += 1
        try:
            inst = structure_from_dict(doc, cls)
            back = unstructure_to_dict(inst)
            if not _eq_json(doc, back):
                failures.append({"id": f"bounded:roundtrip:decode-encode:{cls.__name__}", "detail": f"{doc} -> {back}", "input": {"type": cls.__name__}})
            again = structure_from_dict(back, cls)
            if again != inst:
                failures.append({"id": f"bounded:roundtrip:encode-decode:{cls.__name__}", "detail": f"{inst} -> {again}", "input": {"type": cls.__name__}})
        except Exception as e:  # noqa
            failures.append({"id": f"bounded:roundtrip:error:{cls.__name__}", "detail": f"{type(e).__name__}: {str(e)[:200]}", "input": {"type": cls.__name__}})
    # failures are ValueError naming the field
    cls, doc = _types()[1]
    n += 1
    try:
        structure_from_dict({"userId": "u", "page-size": "not-an-int", "tags": 5}, cls)
        failures.append({"id": "bounded:decode-error:not-raised", "detail": "bad payload accepted", "input": {}})
    except ValueError as e:
        if "tags" not in str(e) and "page_size" not in str(e) and "page-size" not in str(e):
            failures.append({"id": "bounded:decode-error:field-not-named", "detail": str(e)[:200], "input": {}})
    except Exception as e:  # noqa
        failures.append({"id": "bounded:decode-error:not-valueerror", "detail": f"{type(e).__name__}: {e}", "input": {}})
    # two distinct dataclass types with one qualified name (factory called twice) keep their own field sets
    def make(fields):
        return dataclasses.make_dataclass("Dyn", fields)
    T1, T2 = make([("a", int)]), make([("b", str)])
    n += 1
    try:
        r1, r2 = structure_from_dict({"a": 1}, T1), structure_from_dict({"b": "x"}, T2)
        if not (isinstance(r1, T1) and isinstance(r2, T2) and unstructure_to_dict(r2) == {"b": "x"} and unstructure_to_dict(r1) == {"a": 1}):
            failures.append({"id": "bounded:same-qualname-types", "detail": f"{r1!r} {r2!r}", "input": {}})
    except Exception as e:  # noqa
        failures.append({"id": "bounded:same-qualname-types", "detail": f"{type(e).__name__}: {str(e)[:200]}", "input": {}})
    return {"function": "structure_from_dict / unstructure_to_dict on enumerated dataclass type trees (real cattrs)", "backend": "bounded",
            "bound": "3 type trees (9 leaf kinds, list/dict/optional nesting, with and without key maps), 1 failure payload, 2 same-named types",
            "evaluations": n, "distinct_nontrivial": n, "exhaustive": False, "failures": failures}


@dataclasses.dataclass
class TreeNode:
    name: str
    parent: Optional["TreeNode"] = None
    children: List["TreeNode"] = dataclasses.field(default_factory=list)
    index: Dict[str, "TreeNode"] = dataclasses.field(default_factory=dict)
    note: Optional[str] = None


def _has_none_key(x):
    if isinstance(x, dict):
        return any(v is None or _has_none_key(v) for v in x.values())
    if isinstance(x, list):
        return any(_has_none_key(v) for v in x)
    return False


def bounded_serializer_cycles(tier, seed):
    from pyopenapi_gen.core.utils import DataclassSerializer
    import sys

    cases = {}
    a = TreeNode("a")
    a.parent = a
    cases["self-parent"] = a
    p, c = TreeNode("p"), TreeNode("c")
    p.children.append(c)
    c.parent = p
    cases["parent-children-list"] = p
    r, k = TreeNode("r"), TreeNode("k")
    r.index["k"] = k
    k.index["up"] = r
    cases["dict-of-forward-refs"] = r
    lst: list = [TreeNode("x", note=None)]
    lst.append(lst)
    cases["self-containing-list"] = lst
    d: dict = {"a": 1, "n": None}
    d["self"] = d
    cases["self-containing-dict"] = d
    cases["plain-nested"] = {"x": [TreeNode("q", note=None), {"y": None, "z": TreeNode("w")}]}
    n, failures = 0, []
    for label, obj in cases.items():
        n += 1
        lim = sys.getrecursionlimit()
        try:
            out = DataclassSerializer.serialize(obj)
            json.dumps(out)
            if _has_none_key(out):
                failures.append({"id": f"bounded:serializer:{label}:none-valued-key", "detail": str(out)[:200], "input": {"case": label}})
        except RecursionError:
            failures.append({"id": f"bounded:serializer:{label}:RecursionError", "detail": "did not terminate (interpreter stack exhausted)", "input": {"case": label}})
        except TypeError as e:
            failures.append({"id": f"bounded:serializer:{label}:not-json", "detail": str(e)[:200], "input": {"case": label}})
        except Exception as e:  # noqa
            failures.append({"id": f"bounded:serializer:{label}:{type(e).__name__}", "detail": str(e)[:200], "input": {"case": label}})
    return {"function": "DataclassSerializer.serialize on object graphs with reference cycles", "backend": "bounded", "bound": f"{n} hand-built graphs",
            "evaluations": n, "distinct_nontrivial": n, "exhaustive": False, "failures": failures}


def bounded_fresh_process_containers(tier, seed):
    """converter hooks are registered lazily and are process-global: a class with a wire-key map that is reachable ONLY through one container
    shape must still be converted with its map — each shape alone, in a fresh interpreter"""
    import subprocess
    import sys
    import textwrap
    shapes = {"Dict[str, C]": ("{'k': WIRE}", "Dict[str, C]"), "List[C]": ("[WIRE]", "List[C]"), "Optional[C]": ("WIRE", "Optional[C]"), "C": ("WIRE", "C"),
              "List[Dict[str, C]]": ("[{'k': WIRE}]", "List[Dict[str, C]]"), "Dict[str, List[C]]": ("{'k': [WIRE]}", "Dict[str, List[C]]"),
              "Dict[str, Dict[str, C]]": ("{'a': {'b': WIRE}}", "Dict[str, Dict[str, C]]"), "Optional[Dict[str, C]]": ("{'k': WIRE}", "Optional[Dict[str, C]]"),
              "Dict[str, Optional[C]]": ("{'k': WIRE}", "Dict[str, Optional[C]]"), "List[List[C]]": ("[[WIRE]]", "List[List[C]]")}
    n, failures = 0, []
    # wire keys that collide after case folding / that differ from the field name only by case: each must keep its own field
    casefold = textwrap.dedent('''
        import dataclasses, json, sys
        from typing import Optional
        sys.path.insert(0, "/repo/src")
        from pyopenapi_gen.core.cattrs_converter import structure_from_dict, unstructure_to_dict
        @dataclasses.dataclass
        class K:
            user_id: str
            user_id_2: Optional[str] = None
            value: Optional[int] = None
            Value: Optional[int] = None
            class Meta:
                key_transform_with_load = {"userId": "user_id", "userid": "user_id_2"}
                key_transform_with_dump = {"user_id": "userId", "user_id_2": "userid"}
        for doc in ({"userId": "a", "userid": "b", "value": 1, "Value": 2}, {"userId": "a"}, {"userId": "a", "Value": 0}):
            obj = structure_from_dict(doc, K)
            assert obj.user_id == "a" and obj.user_id_2 == doc.get("userid") and obj.value == doc.get("value") and obj.Value == doc.get("Value"), (doc, obj)
            back = {k: v for k, v in unstructure_to_dict(obj).items() if v is not None}
            assert back == doc, (doc, back)
        print("ok")
    ''')
    n += 1
    p_ = subprocess.run([sys.executable, "-c", casefold], capture_output=True, text=True, timeout=120)
    if p_.returncode != 0 or "ok" not in p_.stdout:
        failures.append({"id": "bounded:fresh-process:keys-colliding-after-case-fold", "detail": (p_.stderr or p_.stdout)[-500:], "input": {"wire keys": ["userId", "userid", "value", "Value"]}})
    for label, (value_expr, ann) in shapes.items():
        for top_level in (False, True):
            code = textwrap.dedent(f'''
                import dataclasses, json, sys
                from typing import Any, Dict, List, Optional
                sys.path.insert(0, "/repo/src")
                from pyopenapi_gen.core.cattrs_converter import structure_from_dict, unstructure_to_dict
                @dataclasses.dataclass
                class C:
                    id_: str
                    page_size: Optional[int] = None
                    class Meta:
                        key_transform_with_load = {{"id": "id_", "pageSize": "page_size"}}
                        key_transform_with_dump = {{"id_": "id", "page_size": "pageSize"}}
                @dataclasses.dataclass
                class Holder:
                    field_: {ann}
                    class Meta:
                        key_transform_with_load = {{"the-field": "field_"}}
                        key_transform_with_dump = {{"field_": "the-field"}}
                WIRE = {{"id": "x", "pageSize": 0}}
                value = {value_expr}
                if {top_level!r}:
                    # a container at top level is encoded by the convenience serialiser (unstructure_to_dict is documented for dataclass instances)
                    from pyopenapi_gen.core.utils import DataclassSerializer
                    back = DataclassSerializer.serialize(structure_from_dict(value, {ann}))
                    assert back == value, ("top-level", value, back)
                else:
                    doc = {{"the-field": value}}
                    obj = structure_from_dict(doc, Holder)
                    back = unstructure_to_dict(obj)
                    assert back == doc, ("as a field", doc, back)
                print("ok")
            ''')
            if top_level and label in ("C",):
                continue
            n += 1
            p = subprocess.run([sys.executable, "-c", code], capture_output=True, text=True, timeout=120)
            if p.returncode != 0 or "ok" not in p.stdout:
                failures.append({"id": f"bounded:fresh-process:{'top-level' if top_level else 'field'}:{label}", "detail": (p.stderr or p.stdout)[-500:], "input": {"annotation": ann, "top_level": top_level}})
    return {"function": "structure_from_dict / unstructure_to_dict: a dataclass with a wire-key map reachable only through one container shape, one fresh interpreter per shape",
            "backend": "bounded", "bound": f"{len(shapes)} container shapes x (field of a mapped dataclass, top-level)", "evaluations": n, "distinct_nontrivial": n, "exhaustive": False, "failures": failures}


class Shade(str, enum.Enum):
    NONE = ""
    DARK = "dark"


class Rank(int, enum.Enum):
    ZERO = 0
    ONE = 1


def bounded_leaf_position_grid(tier, seed):
    """every supported leaf type in every container position, with a typical and a falsy / empty wire value: decode-encode returns the wire value,
    encode-decode returns an equal instance (an empty string, zero, False or empty bytes is a VALUE, not an absent one)"""
    from pyopenapi_gen.core.cattrs_converter import structure_from_dict, unstructure_to_dict
    leaves = [("str", str, ["x y", ""]), ("int", int, [7, 0]), ("float", float, [1.5, 0.0]), ("bool", bool, [True, False]),
              ("datetime", dt.datetime, ["2024-01-02T03:04:05+00:00", "2025-11-20T14:00:00", "2024-01-02T03:04:05.250000+02:00"]), ("date", dt.date, ["2024-01-02"]), ("bytes", bytes, ["aGk=", ""]),
              ("str-enum", Shade, ["dark", ""]), ("int-enum", Rank, [1, 0]), ("plain-enum", Color, ["red"]), ("uuid", uuid.UUID, ["12345678-1234-5678-1234-567812345678"])]
    positions = [("plain", lambda T: T, lambda v: v), ("optional", lambda T: Optional[T], lambda v: v), ("list", lambda T: List[T], lambda v: [v, v]),
                 ("map", lambda T: Dict[str, T], lambda v: {"k": v}), ("optional-list", lambda T: Optional[List[T]], lambda v: [v]),
                 ("list-of-optional", lambda T: List[Optional[T]], lambda v: [v, None]), ("map-of-list", lambda T: Dict[str, List[T]], lambda v: {"k": [v]})]
    n, failures = 0, []
    for (lname, T, values), (pname, mk_t, mk_v) in itertools.product(leaves, positions):
        ann = mk_t(T)
        Inner = dataclasses.make_dataclass("Inner", [("v", ann)])
        Outer = dataclasses.make_dataclass("Outer", [("inner", Inner), ("maybe", Optional[Inner], None)])
        for wire in values:
            for cls, doc in ((Inner, {"v": mk_v(wire)}), (Outer, {"inner": {"v": mk_v(wire)}, "maybe": {"v": mk_v(wire)}})):
                n += 1
                kind = "falsy" if wire in ("", 0, 0.0, False) and not (wire is True) else "typical"
                try:
                    inst = structure_from_dict(doc, cls)
                    back = json.loads(json.dumps(unstructure_to_dict(inst)))
                    if back != doc:
                        failures.append({"id": f"bounded:grid:decode-encode:{lname}:{pname}:{kind}", "detail": f"{doc} -> {back}", "input": {"leaf": lname, "position": pname, "document": doc}})
                        continue
                    again = structure_from_dict(back, cls)
                    if again != inst:
                        failures.append({"id": f"bounded:grid:encode-decode:{lname}:{pname}:{kind}", "detail": f"{inst!r} -> {again!r}", "input": {"leaf": lname, "position": pname, "document": doc}})
                except Exception as e:  # noqa
                    failures.append({"id": f"bounded:grid:error:{lname}:{pname}:{kind}", "detail": f"{doc}: {type(e).__name__}: {str(e)[:200]}", "input": {"leaf": lname, "position": pname, "document": doc}})
    seen, uniq = set(), []
    for f in failures:
        if f["id"] not in seen:
            seen.add(f["id"])
            uniq.append(f)
    return {"function": "structure_from_dict / unstructure_to_dict over the grid leaf type x container position x (typical, falsy) value, flat and nested", "backend": "bounded",
            "bound": f"{len(leaves)} leaf types x {len(positions)} positions x up to 2 values x 2 nestings", "evaluations": n, "distinct_nontrivial": n, "exhaustive": False, "failures": uniq}


BOUNDED = [bounded_round_trips, bounded_serializer_cycles, bounded_fresh_process_containers, bounded_leaf_position_grid]


def _w(idprefix):
    def w(k):
        return any(f["id"].startswith(idprefix) for f in bounded_serializer_cycles("quick", 0)["failures"])
    return w


WITNESS = {"F-C16-dict-cycle": _w("bounded:serializer:self-containing-dict")}

MANIFEST = {
    "category": "other",
    "text": "The repo-side mechanisms of the serialiser clause are proved (no null-valued keys from _remove_none_values; in-progress set restored on every "
            "exit of the mutually recursive serialiser functions). The round-trip laws are cattrs' (assumed) and only exercised in bounded form.",
    "note": "cattrs not under contract; termination follows from the proved in-progress discipline (lists, dicts and dataclasses are tracked). Bounded: grid leaf type x container position x value.",
    "technique": "contract-based deductive verification (modular recursion, set-valued frame, z3) + bounded round trips on real cattrs",
}
