"""C06 — non-2xx responses always raise a status-carrying, class-correct error."""
from __future__ import annotations

import builtins
import keyword

from props import transport_harness as H
from props.C17 import replay_request

ID = "C06"
LEVEL = "proof"
CONTRACT_MODULES = ["contracts.status", "contracts.auth", "contracts.transport", "contracts.aliases", "contracts.registry"]
T = "pyopenapi_gen.core.http_transport"
EXPLANATION = ("Status-range predicates, the alias-generation loops of ExceptionVisitor.visit and ExceptionsEmitter._generate_for_codes "
               "(loop invariants against a recursive spec: one class per 4xx/5xx code, 4xx under ClientError, 5xx under ServerError) and "
               "HttpxTransport.request (returns only for 2xx; otherwise raises an HTTPError carrying status and response, ClientError for "
               "4xx, ServerError for 5xx) are verified for all status codes / code lists. get_exception_class_name is checked "
               "exhaustively over the whole status range 100..599 (finite domain, complete).")
TRUSTED = ["httpx.Response.status_code is an int (assumed dependency contract)",
           "get_exception_class_name / get_status_name are pure functions (modelled as uninterpreted functions of the code at call sites)"]
REPLAY = {f"{T}:HttpxTransport.request": replay_request}


def finite_exception_names(tier, seed):
    """get_exception_class_name over the complete domain of HTTP status codes: valid identifier, not a keyword, does not
    shadow a builtin, injective.  Exhaustive, hence a complete decision for this function."""
    from pyopenapi_gen.core.http_status_codes import get_exception_class_name
    seen = {}
    out = []
    for code in range(100, 600):
        n = get_exception_class_name(code)
        ok = isinstance(n, str) and n.isidentifier() and not keyword.iskeyword(n) and not hasattr(builtins, n)
        dup = n in seen
        seen.setdefault(n, code)
        if not ok or dup:
            out.append({"id": f"finite:get_exception_class_name:{code}", "status": "violated",
                        "detail": f"code {code} -> {n!r}: " + ("collides with code %d" % seen[n] if dup else "not a fresh valid identifier"),
                        "witness": {"code": code}})
    out.append({"id": "finite:get_exception_class_name[100..599]", "status": "holds" if not out else "violated",
                "detail": f"500 codes, {len(seen)} distinct names", "exhaustive": True})
    return [o for o in out if o["status"] != "violated"] + [o for o in out if o["status"] == "violated" and ":" in o["id"] and o["id"].split(":")[-1].isdigit()]


EXTRA = [finite_exception_names]


def EMITTED(tier, seed):
    """the emitted endpoint methods of the shape corpus, verified by pyvc for every status 100..599 under the model
    'the transport hands the response back whatever its status' (a custom transport that does not raise)"""
    from props import corpus, corpus_run, emitted
    base, gens = corpus_run.generate_corpus(tier, seed)
    try:
        r = emitted.verify_emitted(gens, "C06")
        r["bound"] = f"{len(gens)} generated packages of the shape corpus ({tier}); {r['methods']} emitted endpoint methods"
        r["generation_errors"] = [f"{g.name}: {g.error}" for g in gens if g.error]
        return r
    finally:
        corpus_run.cleanup(base)


def bounded_transport_status(tier, seed):
    """bundled transport x every status code 100..599: the C06 clauses of the sidecar contract evaluated natively."""
    from pyopenapi_gen.core.auth.plugins import BearerAuth
    n, failures = 0, []
    for sc in range(100, 600):
        for auth in (None, BearerAuth("t")):
            res, log = H.run_transport_request(None, None, auth, "GET", "/s", {}, sc)
            n += 1
            bad = [f for f in res.failed if f[0] in ("rq_raises_classed",)]
            if bad:
                failures.append({"id": f"bounded:HttpxTransport.request:{bad[0][0]}", "detail": str(bad), "input": {"status": sc, "auth": bool(auth)}})
    return {"function": "HttpxTransport.request — C06 clauses of the sidecar contract evaluated natively", "backend": "run-time contract monitor",
            "bound": "all status codes 100..599 x {no auth, bearer plugin}", "evaluations": n, "distinct_nontrivial": n, "exhaustive": True,
            "failures": failures}


BOUNDED = [bounded_transport_status]

MANIFEST = {
    "category": "proof",
    "text": "All obligations of the status predicates, both alias-generation loops and the bundled transport's raise condition are discharged "
            "for every status code and code list; the name table is decided exhaustively over 100..599. The emitted endpoint handlers are "
            "verified per generated method over the shape corpus (proved for all status values, bounded in spec shapes).",
    "note": "Assumed: httpx.Response.status_code is an int; get_exception_class_name/get_status_name pure. Emitted-code obligations are "
            "bounded in the set of spec shapes (stated in evidence), unbounded in run-time values.",
    "technique": "contract-based deductive verification (loop invariants, recursive spec functions, z3) + exhaustive finite table check",
}
