"""C07 — every operation is reachable exactly once per tag; none silently dropped."""
from __future__ import annotations

import ast
import keyword
import os
import re

from props import emitted, pkgcheck

ID = "C07"
LEVEL = "other"
CONTRACT_MODULES = ["contracts.decollision", "contracts.grouping", "contracts.opsparse"]
EXPLANATION = ("Proved: the global method-name de-duplication never records a method name that an earlier operation already has (site "
               "assertions over the real loop, all operation lists). Exact structural check per corpus package (finite): for every (operation, "
               "tag) of the raw document exactly one public coroutine of that tag's client issues its HTTP method + path; method names are "
               "valid identifiers, unique per client; every tag client is a property of APIClient.")
TRUSTED = ["NameSanitizer.sanitize_method_name returns a str (C20)", "operations are matched to emitted methods through the HTTP method literal and URL template they issue"]


def _norm_tag(t):
    return re.sub(r"[^a-z0-9]", "", t.lower())


def bounded_ops_in_methods_out(tier, seed):
    from props import corpus, corpus_run
    n, failures = 0, []
    for strategy_layout in (corpus.LAYOUTS[:1] if tier == "quick" else corpus.LAYOUTS):
        base, gens = corpus_run.generate_corpus(tier, seed, layouts=[strategy_layout])
        try:
            for g in gens:
                if g.error:
                    if "path-forms" in g.name or True:
                        # "If an operation cannot be represented, generation fails visibly": a visible failure is allowed
                        continue
                n += 1
                ops = emitted.raw_ops(g.doc)
                ems = [e for e in emitted.emitted_methods(g) if e.http_method and e.path_tmpl is not None]
                by_class = {}
                for e in ems:
                    by_class.setdefault(e.cls.name, []).append(e)
                # names valid + unique per client
                for cname, lst in by_class.items():
                    names = [e.fn.name for e in lst]
                    for nm in names:
                        if not nm.isidentifier() or keyword.iskeyword(nm):
                            failures.append({"id": f"bounded:method-name-invalid:{g.name.split('@')[0]}", "detail": f"{g.name}: {cname}.{nm}", "input": {"shape": g.name}})
                all_public = {}
                ep_dir = os.path.join(g.pkg_dir, "endpoints")
                for f in sorted(os.listdir(ep_dir)):
                    if f.endswith(".py") and f != "__init__.py":
                        tree = pkgcheck.parse(os.path.join(ep_dir, f))
                        for cls in tree.body:
                            if isinstance(cls, ast.ClassDef) and not cls.name.endswith("Protocol"):
                                defs = [x.name for x in cls.body if isinstance(x, (ast.AsyncFunctionDef, ast.FunctionDef)) and not x.name.startswith("_")
                                        and not any(isinstance(d, ast.Name) and d.id == "overload" for d in x.decorator_list)]
                                dup = sorted({d for d in defs if defs.count(d) > 1})
                                if dup:
                                    failures.append({"id": f"bounded:duplicate-method:{g.name.split('@')[0]}", "detail": f"{g.name}: {cls.name} defines {dup} more than once (one operation shadows another)", "input": {"shape": g.name}})
                                all_public[cls.name] = defs
                # every (op, tag): exactly one issuing method in the client of that tag
                tag_classes = {}
                for o in ops:
                    for t in o["tags"]:
                        key = _norm_tag(t)
                        cands = [e for e in ems if e.http_method == o["method"] and emitted.norm_path(e.path_tmpl) == emitted.norm_path(o["path"])
                                 and _norm_tag(e.cls.name[:-len("Client")]) == key]
                        if len(cands) != 1:
                            failures.append({"id": f"bounded:op-per-tag:{g.name.split('@')[0]}:{o['method']} {o['path']}@{key}",
                                             "detail": f"{g.name}: {o['method']} {o['path']} tag {t!r}: {len(cands)} issuing methods in that tag's client "
                                                       f"(classes with it: {sorted({e.cls.name for e in ems if e.http_method == o['method'] and emitted.norm_path(e.path_tmpl) == emitted.norm_path(o['path'])})})",
                                             "input": {"shape": g.name}})
                # tag clients are properties of APIClient
                ctree = pkgcheck.parse(os.path.join(g.pkg_dir, "client.py"))
                props = set()
                for cls in ctree.body:
                    if isinstance(cls, ast.ClassDef) and cls.name == "APIClient":
                        for x in cls.body:
                            if isinstance(x, ast.FunctionDef) and any(isinstance(d, ast.Name) and d.id == "property" for d in x.decorator_list):
                                props.add(_norm_tag(x.name))
                for cname in by_class:
                    if _norm_tag(cname[:-len("Client")]) not in props:
                        failures.append({"id": f"bounded:tag-client-unreachable:{g.name.split('@')[0]}:{cname}", "detail": f"{g.name}: {cname} is not a property of APIClient ({sorted(props)})", "input": {"shape": g.name}})
        finally:
            corpus_run.cleanup(base)
    return {"function": "raw document operations vs. public coroutines of the emitted tag clients (exact structural comparison per package)",
            "backend": "bounded enumeration", "bound": f"{n} generated packages of the shape corpus", "evaluations": n, "distinct_nontrivial": n, "exhaustive": False,
            "failures": failures}


BOUNDED = [bounded_ops_in_methods_out]

MANIFEST = {
    "category": "other",
    "text": "Proof of the de-duplication loop (no two operations end up with the same method name) for all operation lists; exact per-package "
            "comparison 'operations in = methods out, per tag' over the shape corpus, including untagged operations, multi-tag operations, tag "
            "spelling variants, operationId collisions and all eight HTTP methods.",
    "note": "Silent skipping inside parse_operations (blanket except) is only visible to the corpus comparison, not to a contract. Bounded in shapes.",
    "technique": "contract-based deductive verification (site assertions, z3) + bounded exact structural comparison over the shape corpus",
}
