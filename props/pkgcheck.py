"""Structural checks on generated packages (finite, exact per package): compile, import in a fresh interpreter with the generator
blocked, __all__ resolution, import scan, signature parity."""
from __future__ import annotations

import ast
import os
import sys
import warnings

from props import gen_harness as G

STDLIB = set(sys.stdlib_module_names)
ALLOWED_THIRD = {"httpx", "cattrs"}  # exactly the documented runtime dependencies (their own dependencies — attrs, typing_extensions — are not licence to import them)


def parse(path):
    with warnings.catch_warnings():
        warnings.simplefilter("ignore")
        return ast.parse(open(path, encoding="utf-8").read(), filename=path)


def compile_errors(gen):
    out = []
    for f in gen.py_files():
        try:
            with warnings.catch_warnings():
                warnings.simplefilter("ignore")
                compile(open(f, encoding="utf-8").read(), f, "exec")
        except SyntaxError as e:
            out.append((os.path.relpath(f, gen.root), f"SyntaxError: {e.msg} (line {e.lineno})"))
    return out


def all_modules(gen):
    mods = G.package_modules(gen.root, gen.pkg)
    if gen.core:
        mods += G.package_modules(gen.root, gen.core)
    return sorted(set(mods))


ALL_CHECK = """
import importlib
bad = []
for m in mods:
    mod = importlib.import_module(m)
    for n in getattr(mod, '__all__', []) or []:
        if not hasattr(mod, n):
            bad.append(m + ':' + str(n))
if bad:
    raise SystemExit('UNRESOLVED __all__: ' + ', '.join(bad))
"""


def import_check(gen, block_generator=True):
    return G.import_modules(gen.root, all_modules(gen), extra_code=ALL_CHECK, block_generator=block_generator)


def imports_of(tree):
    """(module, level, lineno, nested) for every Import / ImportFrom anywhere in the file"""
    out = []
    for n in ast.walk(tree):
        if isinstance(n, ast.Import):
            for a in n.names:
                out.append((a.name, 0, n.lineno))
        elif isinstance(n, ast.ImportFrom):
            out.append((n.module or "", n.level, n.lineno))
    return out


def foreign_imports(gen):
    """imports of an emitted file — anywhere in the file, `if TYPE_CHECKING:` blocks and function bodies included — that leave the allowed set: standard
    library, httpx / cattrs, the emitted package itself and its designated core package.  A relative import is resolved against the position of the
    importing file: it must stay inside the emitted package or the core package and name a module or package that exists there."""
    out = []
    pkg, core = gen.pkg, gen.core_pkg

    def inside(mod):
        return any(mod == p_ or mod.startswith(p_ + ".") for p_ in (pkg, core))

    def exists(mod):
        base = os.path.join(gen.root, *mod.split("."))
        return os.path.isdir(base) or os.path.isfile(base + ".py")
    for f in gen.py_files():
        try:
            tree = parse(f)
        except SyntaxError:
            continue
        rel = os.path.relpath(f, gen.root)
        here = rel[:-3].split(os.sep)
        here_pkg = here[:-1]  # the package the importing module lives in (an __init__.py lives in its own directory's package)
        for mod, level, ln in imports_of(tree):
            if level:
                if level - 1 > len(here_pkg):
                    out.append((rel, ln, "." * level + mod + " (beyond the top-level package)"))
                    continue
                base = here_pkg[: len(here_pkg) - (level - 1)]
                target = ".".join(base + ([mod] if mod else []))
                if not inside(target) or not exists(target):
                    out.append((rel, ln, "." * level + mod + f" (resolves to {target or '<root>'}: outside the emitted package and its core package, or missing)"))
                continue
            top = mod.split(".")[0]
            if top in STDLIB or top in ALLOWED_THIRD or top == "__future__":
                continue
            if inside(mod):
                continue
            out.append((rel, ln, mod))
    return out


def unbound_names(gen):
    """names LOADED somewhere in an emitted module that are bound NOWHERE in that module (no import, def, class, assignment, parameter, loop / with / except /
    comprehension / match target of that name in any scope) and are not builtins: using them raises NameError at call time even though the module imports.
    Deliberately coarse (one flat set of bound names per file): it cannot raise a false alarm through scoping subtleties."""
    import builtins
    out = []
    for f in gen.py_files():
        try:
            tree = parse(f)
        except SyntaxError:
            continue
        bound, loaded = set(dir(builtins)) | {"__file__", "__name__", "__doc__", "__all__", "__path__"}, {}
        for n in ast.walk(tree):
            if isinstance(n, (ast.Import, ast.ImportFrom)):
                for a in n.names:
                    bound.add((a.asname or a.name).split(".")[0])
                    if a.name == "*":
                        bound.add("*")
            elif isinstance(n, (ast.FunctionDef, ast.AsyncFunctionDef, ast.ClassDef)):
                bound.add(n.name)
                if not isinstance(n, ast.ClassDef):
                    for a in n.args.args + n.args.kwonlyargs + n.args.posonlyargs + ([n.args.vararg] if n.args.vararg else []) + ([n.args.kwarg] if n.args.kwarg else []):
                        bound.add(a.arg)
            elif isinstance(n, ast.Lambda):
                for a in n.args.args + n.args.kwonlyargs:
                    bound.add(a.arg)
            elif isinstance(n, ast.Name):
                if isinstance(n.ctx, (ast.Store, ast.Del)):
                    bound.add(n.id)
                else:
                    loaded.setdefault(n.id, n.lineno)
            elif isinstance(n, ast.ExceptHandler) and n.name:
                bound.add(n.name)
            elif isinstance(n, (ast.MatchAs, ast.MatchStar)) and n.name:
                bound.add(n.name)
            elif isinstance(n, ast.MatchMapping) and n.rest:
                bound.add(n.rest)
            elif isinstance(n, (ast.Global, ast.Nonlocal)):
                bound.update(n.names)
        if "*" in bound:
            continue  # a star import may bind anything
        # names inside string annotations / TYPE_CHECKING are not loads; ast gives only real Name nodes
        for name, ln in sorted(loaded.items()):
            if name not in bound:
                out.append((os.path.relpath(f, gen.root), ln, name))
    return out
