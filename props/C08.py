"""C08 — parsing cyclic and deep schema graphs terminates with balanced state."""
from __future__ import annotations

import itertools
import os
import random
import re
import sys

ID = "C08"
LEVEL = "proof"
CONTRACT_MODULES = ["contracts.cycle"]
EXPLANATION = ("The cycle tracker (unified_cycle_check / enter / exit, ParsingContext delegations) is verified against contracts over the "
               "abstract tracker state (depth, stack, states); the depth-balance contract depth' = depth is proved on every normal and "
               "exceptional exit of _parse_schema and of every member of the mutually recursive parser group (modular: each recursive call "
               "site assumes the callee contract), by symbolic execution with state merging over the real 500-line body, sliced to the "
               "tracked state; build_schemas is proved to leave depth zero after every top-level schema (loop invariant).")
TRUSTED = ["slicing: expressions/conditions that mention no tracked name are abstracted as unknown may-raise values (syntactic frame check, listed per function)",
           "opaque callees (IRSchema construction, NameSanitizer, logging) do not touch the tracker: backed by the writer census below",
           "termination itself (a ranking function) is not proved: the depth bound is; see bounded stand-in"]
ASSUMPTIONS = ["PYOPENAPI_MAX_DEPTH is unset or a decimal integer"]

WRITER_PATTERNS = [r"\.recursion_depth\s*(\+|-)?=", r"schema_stack\.(append|remove|pop|clear|insert)", r"schema_states\[[^\]]+\]\s*=",
                   r"unified_enter_schema\(", r"unified_exit_schema\("]
WRITERS_UNDER_CONTRACT = {
    "core/parsing/unified_cycle_detection.py": {"unified_cycle_check", "unified_enter_schema", "unified_exit_schema"},
    "core/parsing/context.py": {"unified_enter_schema", "unified_exit_schema", "clear_cycle_state", "enter_schema", "exit_schema", "reset_for_new_parse"},
    "core/parsing/schema_parser.py": {"_parse_schema"},
}


def census_tracker_writers(tier, seed):
    """Finite syntactic census (frame scan): every function of /repo/src that writes tracker state or calls enter/exit is one
    of the functions under contract (or a legacy method never called by the parser group)."""
    import ast
    root = "/repo/src/pyopenapi_gen"
    bad = []
    n = 0
    for dp, _, fs in os.walk(root):
        for f in fs:
            if not f.endswith(".py"):
                continue
            p = os.path.join(dp, f)
            rel = os.path.relpath(p, root)
            text = open(p, encoding="utf-8").read()
            tree = ast.parse(text)
            for fn in ast.walk(tree):
                if isinstance(fn, (ast.FunctionDef, ast.AsyncFunctionDef)):
                    seg = ast.get_source_segment(text, fn) or ""
                    body = seg.split(":", 1)[1] if ":" in seg else seg
                    if any(re.search(pt, body) for pt in WRITER_PATTERNS):
                        n += 1
                        if fn.name not in WRITERS_UNDER_CONTRACT.get(rel, set()):
                            bad.append(f"{rel}:{fn.name}")
    if bad:
        # a new writer is not by itself a violation of C08: it voids the frame assumption of the balance proof, so the property is undecided
        return [{"id": "census:tracker-writers", "status": "undecided", "detail": f"tracker state written outside the functions under contract (frame assumption of the proof void): {bad}",
                 "witness": {"functions": bad}}]
    return [{"id": "census:tracker-writers", "status": "holds", "detail": f"{n} writer functions, all under contract", "exhaustive": True}]


EXTRA = [census_tracker_writers]


# ---- bounded stand-in: documents x monitored enter/exit events --------------------------------------------------------
def _run_doc(raw, max_depth=None):
    """-> (error or None, stats) with the tracker contracts monitored natively at every enter/exit event"""
    import importlib
    import pyopenapi_gen.core.parsing.unified_cycle_detection as u
    from pyopenapi_gen.core.loader.schemas.extractor import build_schemas
    old_env = os.environ.get("PYOPENAPI_MAX_DEPTH")
    if max_depth is not None:
        os.environ["PYOPENAPI_MAX_DEPTH"] = str(max_depth)
    ev = {"enter": 0, "exit": 0, "viol": []}
    oe, ox = u.unified_enter_schema, u.unified_exit_schema

    def e(n, c):
        d0, s0 = c.recursion_depth, list(c.schema_stack)
        r = oe(n, c)
        ev["enter"] += 1
        if c.recursion_depth != d0 + 1:
            ev["viol"].append(f"enter({n!r}): depth {d0}->{c.recursion_depth}")
        cont = r.action == u.CycleAction.CONTINUE_PARSING
        want = s0 + [n] if (cont and n) else s0
        if c.schema_stack != want:
            ev["viol"].append(f"enter({n!r}): stack {s0}->{c.schema_stack}")
        lim = int(os.environ.get("PYOPENAPI_MAX_DEPTH", c.max_depth)) + (1 if n is None else 0)
        if d0 + 1 > lim and cont and not (n is not None and False):
            st0 = None
            ev["viol"].append(f"enter({n!r}) at depth {d0 + 1} > limit {lim} continued")
        return r

    def x(n, c):
        d0 = c.recursion_depth
        ox(n, c)
        ev["exit"] += 1
        if c.recursion_depth != max(d0 - 1, 0):
            ev["viol"].append(f"exit({n!r}): depth {d0}->{c.recursion_depth}")
    u.unified_enter_schema, u.unified_exit_schema = e, x
    lim0 = sys.getrecursionlimit()
    err = None
    try:
        ctx = build_schemas(raw, {"schemas": raw})
        uc = ctx.unified_cycle_context
        if uc.recursion_depth != 0 or ctx.recursion_depth != 0:
            err = f"rest state: depth {uc.recursion_depth}"
        elif uc.schema_stack:
            err = f"rest state: stack {uc.schema_stack}"
        elif any(s == u.SchemaState.IN_PROGRESS for s in uc.schema_states.values()):
            err = f"rest state: in progress {[k for k, s in uc.schema_states.items() if s == u.SchemaState.IN_PROGRESS]}"
        elif any(s == u.SchemaState.NOT_STARTED for k, s in uc.schema_states.items()):
            err = f"rest state: left NOT_STARTED although parsed {[k for k, s in uc.schema_states.items() if s == u.SchemaState.NOT_STARTED]}"
        elif ev["enter"] != ev["exit"]:
            err = f"{ev['enter']} enters / {ev['exit']} exits"
        else:
            from pyopenapi_gen.core.utils import NameSanitizer
            missing = [n for n in raw if n not in ctx.parsed_schemas and NameSanitizer.sanitize_class_name(n) not in ctx.parsed_schemas]
            if missing:
                err = f"declared schemas missing from the result: {missing}"
        if err is None and ev["viol"]:
            err = "; ".join(ev["viol"][:3])
    except RecursionError:
        err = "RecursionError (interpreter stack exhausted)"
    except Exception as ex:  # noqa
        err = f"{type(ex).__name__}: {str(ex)[:120]}"
    finally:
        u.unified_enter_schema, u.unified_exit_schema = oe, ox
        if max_depth is not None:
            if old_env is None:
                os.environ.pop("PYOPENAPI_MAX_DEPTH", None)
            else:
                os.environ["PYOPENAPI_MAX_DEPTH"] = old_env
    return err, ev


def _edge(kind, target):
    ref = {"$ref": f"#/components/schemas/{target}"}
    return {"prop": ref, "array": {"type": "array", "items": ref}, "map": {"type": "object", "additionalProperties": ref},
            "oneOf": {"oneOf": [ref, {"type": "string"}]}, "allOf": {"allOf": [ref]},
            "inline": {"type": "object", "properties": {"inner": ref}},
            "arrinline": {"type": "array", "items": {"type": "object", "properties": {"inner": ref}}}}[kind]


def graphs(tier, seed):
    names_sets = [["A", "B"], ["User", "UserGroup"], ["foo-bar", "B"]] if tier == "quick" else [["A", "B", "C"], ["User", "UserGroup", "foo-bar"], ["Tree", "Node", "n-1"]]
    kinds = ["prop", "array", "map", "oneOf", "allOf", "inline", "arrinline"]
    rnd = random.Random(seed)
    for names in names_sets:
        pairs = [(a, b) for a in names for b in names]
        # every schema gets up to 2 outgoing edges
        combos = list(itertools.product(pairs, kinds))
        picks = list(itertools.combinations(combos, 2)) if tier == "quick" else list(itertools.combinations(combos, 2))
        rnd.shuffle(picks)
        limit = 700 if tier == "quick" else 6000
        for pick in picks[:limit]:
            raw = {n: {"type": "object", "properties": {"id": {"type": "string"}}} for n in names}
            for k, ((a, b), kind) in enumerate(pick):
                raw[a]["properties"][f"e{k}"] = _edge(kind, b)
            for order in ([names, list(reversed(names))] if tier == "quick" else itertools.permutations(names)):
                yield {n: raw[n] for n in order}


def deep_docs():
    def nest(kind, n):
        node = {"type": "string"}
        for _ in range(n):
            node = {"oneOf": [node, {"type": "integer"}]} if kind == "oneOf" else (
                {"type": "object", "additionalProperties": node} if kind == "map" else
                {"type": "array", "items": node} if kind == "array" else {"type": "object", "properties": {"p": node}})
        return node
    for kind, n in (("oneOf", 320), ("map", 1200), ("array", 700), ("props", 500)):
        yield f"anonymous {kind} x{n}", {"Deep": nest(kind, n)}, None
    N = 400
    raw = {f"L{i}": {"type": "object", "properties": ({"next": {"$ref": f"#/components/schemas/L{i + 1}"}} if i + 1 < N else {})} for i in range(N)}
    yield "chain of 400 named schemas", raw, None
    raw = {}
    for i in range(N):
        raw[f"n-{i}"] = {"type": "object", "properties": {"v": {"type": "string"}}}
    for i in range(N):
        props = {"s": {"$ref": f"#/components/schemas/n-{i}"}}
        if i + 1 < N:
            props["next"] = {"$ref": f"#/components/schemas/L{i + 1}"}
        raw[f"L{i}"] = {"type": "object", "properties": props}
    yield "chain of 400 with non-identifier siblings", raw, None
    for md in (1, 2, 5):
        raw = {f"S{i}": {"type": "object", "properties": ({"n": {"$ref": f"#/components/schemas/S{i + 1}"}} if i < 11 else {})} for i in range(12)}
        raw["T"] = {"type": "object", "properties": {"a": {"$ref": "#/components/schemas/S4"}, "b": {"$ref": "#/components/schemas/S4"}}}
        yield f"chain of 12 + back references, PYOPENAPI_MAX_DEPTH={md}", raw, md
    yield "array self reference through inline item", {"Tree": {"type": "array", "items": {"type": "object", "properties": {"kids": {"$ref": "#/components/schemas/Tree"}}}}}, None


def bounded_graphs(tier, seed):
    n, failures, distinct = 0, [], set()
    for raw in graphs(tier, seed):
        err, ev = _run_doc(raw)
        n += 1
        distinct.add(repr(raw))
        if err:
            failures.append({"id": "bounded:build_schemas:rest-state", "detail": err, "input": raw})
            if len(failures) > 5:
                break
    # denser graphs: four schemas, five to seven edges, allOf edges over-represented (inheritance chains that loop while other edge kinds cross them)
    rnd_d = random.Random(seed + 77)
    names_d = ["X", "P", "Q", "Y"]
    kinds_d = ["allOf", "allOf", "allOf", "prop", "array", "oneOf", "map", "inline"]
    for gi in range(160 if tier == "quick" else 1500):
        raw = {nm: {"type": "object", "properties": {"id": {"type": "string"}}} for nm in names_d}
        for k in range(rnd_d.randint(5, 7)):
            a, b, kind = rnd_d.choice(names_d), rnd_d.choice(names_d), rnd_d.choice(kinds_d)
            if kind == "allOf":
                raw[a].setdefault("allOf", []).append({"$ref": f"#/components/schemas/{b}"})
            else:
                raw[a]["properties"][f"e{k}"] = _edge(kind, b)
        order = names_d[:]
        rnd_d.shuffle(order)
        err, ev = _run_doc({nm: raw[nm] for nm in order})
        n += 1
        distinct.add(repr(raw))
        if err:
            failures.append({"id": "bounded:build_schemas:dense-graph", "detail": err, "input": {nm: raw[nm] for nm in order}})
            if len(failures) > 5:
                break
    for label, raw, md in deep_docs():
        err, ev = _run_doc(raw, md)
        n += 1
        distinct.add(label)
        if err:
            failures.append({"id": "bounded:build_schemas:deep", "detail": f"{label}: {err}", "input": {"document": label}})
    # the same deep documents through the PUBLIC entry point (SpecLoader / load_ir_from_spec): whatever the loader does with the raw document before the
    # tracked parser sees it must not recurse without bound either, and the result must name every declared schema
    import sys as _sys0
    for label, raw, md in deep_docs():
        n += 1
        distinct.add("load:" + label)
        old_env = os.environ.get("PYOPENAPI_MAX_DEPTH")
        if md is not None:
            os.environ["PYOPENAPI_MAX_DEPTH"] = str(md)
        lim0 = _sys0.getrecursionlimit()
        try:
            from pyopenapi_gen.core.loader.loader import load_ir_from_spec
            import warnings as _w
            with _w.catch_warnings():
                _w.simplefilter("ignore")
                ir = load_ir_from_spec({"openapi": "3.0.3", "info": {"title": "deep", "version": "1"}, "paths": {}, "components": {"schemas": raw}})
            from pyopenapi_gen.core.utils import NameSanitizer as _NS
            # (a schema counts as present under its declared name or under the class name derived from it — the loader's own postcondition)
            missing = [k for k in raw if k not in ir.schemas and _NS.sanitize_class_name(k) not in ir.schemas]
            if missing:
                failures.append({"id": "bounded:load_ir_from_spec:deep", "detail": f"{label}: declared names missing from the result: {missing[:3]}", "input": {"document": label}})
        except RecursionError:
            failures.append({"id": "bounded:load_ir_from_spec:deep", "detail": f"{label}: RecursionError (interpreter stack exhausted) in the public loader", "input": {"document": label}})
        except Exception as ex:  # noqa
            failures.append({"id": "bounded:load_ir_from_spec:deep", "detail": f"{label}: {type(ex).__name__}: {str(ex)[:160]}", "input": {"document": label}})
        finally:
            _sys0.setrecursionlimit(lim0)
            if md is not None:
                if old_env is None:
                    os.environ.pop("PYOPENAPI_MAX_DEPTH", None)
                else:
                    os.environ["PYOPENAPI_MAX_DEPTH"] = old_env
    # discriminated unions that list one another (same discriminator property), through the public loader — the transformers that run AFTER the tracked parser
    # (discriminator enums, inline promotion) walk the finished graph and must end on cycles too
    Rd = "#/components/schemas/"

    def _du(members):
        return {"oneOf": [{"$ref": Rd + m_} for m_ in members], "discriminator": {"propertyName": "kind", "mapping": {m_.lower(): Rd + m_ for m_ in members}}}
    leaf = lambda v: {"type": "object", "required": ["kind"], "properties": {"kind": {"type": "string", "enum": [v]}, "x": {"type": "string"}}}  # noqa: E731
    union_cycles = {
        "two unions listing each other": {"A": _du(["B", "L1"]), "B": _du(["A", "L2"]), "L1": leaf("l1"), "L2": leaf("l2")},
        "three unions in a ring": {"A": _du(["B", "L1"]), "B": _du(["C", "L2"]), "C": _du(["A", "L1"]), "L1": leaf("l1"), "L2": leaf("l2")},
        "union listing itself": {"A": _du(["A", "L1"]), "L1": leaf("l1")},
        "nested unions, no cycle": {"A": _du(["B", "L1"]), "B": _du(["L2", "L1"]), "L1": leaf("l1"), "L2": leaf("l2")},
        "anyOf unions listing each other": {"A": dict(_du(["B", "L1"]), anyOf=_du(["B", "L1"])["oneOf"]), "B": _du(["A", "L2"]), "L1": leaf("l1"), "L2": leaf("l2")},
    }
    for label, raw in union_cycles.items():
        if "anyOf" in raw.get("A", {}):
            raw["A"].pop("oneOf", None)
        n += 1
        distinct.add("unions:" + label)
        lim1 = _sys0.getrecursionlimit()
        try:
            from pyopenapi_gen.core.loader.loader import load_ir_from_spec as _load
            import warnings as _w2
            with _w2.catch_warnings():
                _w2.simplefilter("ignore")
                ir = _load({"openapi": "3.0.3", "info": {"title": "u", "version": "1"}, "paths": {}, "components": {"schemas": raw}})
            missing = [k for k in raw if k not in ir.schemas]
            if missing:
                failures.append({"id": "bounded:load_ir_from_spec:union-cycles", "detail": f"{label}: declared names missing from the result: {missing}", "input": {"schemas": raw}})
        except RecursionError:
            failures.append({"id": "bounded:load_ir_from_spec:union-cycles", "detail": f"{label}: RecursionError (interpreter stack exhausted) in the public loader", "input": {"schemas": raw}})
        except Exception:  # noqa  (an ordinary, prompt rejection is fine)
            pass
        finally:
            _sys0.setrecursionlimit(lim1)
    # degenerate reference structures: they may be rejected, but loading must END (an ordinary error or a result), never exhaust the interpreter stack
    R_ = "#/components/schemas/"
    rings = {
        "alias ring of 2": {"A": {"$ref": R_ + "B"}, "B": {"$ref": R_ + "A"}, "Use": {"type": "object", "properties": {"a": {"$ref": R_ + "A"}}}},
        "alias ring of 3 used from an array": {"A": {"$ref": R_ + "B"}, "B": {"$ref": R_ + "C"}, "C": {"$ref": R_ + "A"}, "Use": {"type": "array", "items": {"$ref": R_ + "B"}}},
        "self alias": {"A": {"$ref": R_ + "A"}, "Use": {"type": "object", "additionalProperties": {"$ref": R_ + "A"}}},
        "alias chain ending in a real schema": {"A": {"$ref": R_ + "B"}, "B": {"$ref": R_ + "C"}, "C": {"type": "object", "properties": {"x": {"type": "string"}}}},
        "allOf ring": {"A": {"allOf": [{"$ref": R_ + "B"}]}, "B": {"allOf": [{"$ref": R_ + "A"}]}},
        "oneOf ring": {"A": {"oneOf": [{"$ref": R_ + "B"}, {"type": "string"}]}, "B": {"oneOf": [{"$ref": R_ + "A"}]}},
        "items ring": {"A": {"type": "array", "items": {"$ref": R_ + "B"}}, "B": {"type": "array", "items": {"$ref": R_ + "A"}}},
        "dangling reference": {"A": {"type": "object", "properties": {"x": {"$ref": R_ + "Nowhere"}}}},
    }
    import sys as _sys
    for label, raw in rings.items():
        n += 1
        distinct.add(label)
        try:
            build_schemas_ = __import__("pyopenapi_gen.core.loader.schemas.extractor", fromlist=["build_schemas"]).build_schemas
            lim = _sys.getrecursionlimit()
            try:
                build_schemas_(raw, {"schemas": raw})
            finally:
                _sys.setrecursionlimit(lim)
        except RecursionError:
            failures.append({"id": "bounded:build_schemas:degenerate-references", "detail": f"{label}: RecursionError (interpreter stack exhausted)", "input": {"schemas": raw}})
        except Exception:  # noqa  (an ordinary, prompt rejection is fine)
            pass
    return {"function": "build_schemas with the tracker contracts monitored at every enter/exit event", "backend": "run-time contract monitor",
            "bound": "all pairs of edges over 2 (quick) / 3 (thorough) named schemas x 7 edge kinds x declaration orders (sampled to a cap), "
                     "plus 10 deep / long documents (320..1200 levels; limits 1,2,5,150) and 8 degenerate reference structures (alias / allOf / oneOf / items rings)",
            "evaluations": n, "distinct_nontrivial": len(distinct), "exhaustive": False, "failures": failures}


BOUNDED = [bounded_graphs]

MANIFEST = {
    "category": "proof",
    "text": "depth' = depth is proved for every exit (normal and exceptional) of _parse_schema and of each function of the recursive parser "
            "group, the tracker functions are proved against contracts over (depth, stack, states) including the depth cut for named and "
            "anonymous schemas, and build_schemas is proved to end at depth zero — for all documents, unbounded. A census shows no other "
            "function writes tracker state.",
    "note": "Not proved: termination as such (no ranking function) and the stack/state part of the rest state for _parse_schema (only depth "
            "is carried through the recursive group; stack emptiness and terminal states are checked by the bounded stand-in over small "
            "graphs and deep documents). Slicing abstractions and opaque callees are listed in the evidence.",
    "technique": "contract-based deductive verification: symbolic execution with state merging of the real AST, modular recursion, z3",
}
