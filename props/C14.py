"""C14 — union values are decoded as the right variant, never lossily."""
from __future__ import annotations

import dataclasses
import os
import shutil
import textwrap
from typing import Annotated, Any, Union

ID = "C14"
LEVEL = "other"
CONTRACT_MODULES = ["contracts.unions", "contracts.textsplice"]
EXPLANATION = ("The discriminator branch of _structure_union is verified as a statement contract on one arbitrary iteration of its metadata loop: "
               "(1) the variant handed to converter.structure is exactly mapping[discriminator value] (site assertion); (2) when the payload is a "
               "dict containing the discriminator property and the mapping is non-empty, the iteration never falls through to guessing; (3) every "
               "exceptional exit of the branch is a ValueError. The undiscriminated first-match clause is false by construction (known finding). "
               "The generated <Alias>Discriminator.get_mapping is compared with the spec's mapping on corpus packages.")
TRUSTED = ["converter.structure (cattrs) and typing reflection (get_origin/get_args/hasattr) are opaque; get_mapping returns a dict or None",
           "the rest of _structure_union (variant classification, sequential tries) is not under contract"]


def _disc(prop, mapping):
    @dataclasses.dataclass(frozen=True)
    class D:
        property_name: str = prop

        def get_mapping(self):
            return dict(mapping)
    return D()


def bounded_runtime_unions(tier, seed):
    from pyopenapi_gen.core.cattrs_converter import structure_from_dict, unstructure_to_dict

    @dataclasses.dataclass
    class Cat:
        kind: str
        name: str
        lives: int | None = None

    @dataclasses.dataclass
    class Dog:
        name: str
        kind: str | None = None
        breed: str | None = None

    @dataclasses.dataclass
    class A:
        x: int

    @dataclasses.dataclass
    class B:
        x: int
        y: int | None = None
    Pet = Annotated[Union[Cat, Dog], _disc("kind", {"cat": Cat, "dog": Dog, "kitten": Cat})]
    n, failures = 0, []

    def expect(label, fn, ok):
        nonlocal n
        n += 1
        try:
            r = fn()
            good = ok(r, None)
        except Exception as e:  # noqa
            good = ok(None, e)
            r = e
        if not good:
            failures.append({"id": f"bounded:union:{label}", "detail": f"{label}: got {r!r}", "input": {"case": label}})
    expect("mapped-cat", lambda: structure_from_dict({"kind": "cat", "name": "Tom", "lives": 7}, Pet), lambda r, e: isinstance(r, Cat) and r.lives == 7)
    expect("mapped-dog", lambda: structure_from_dict({"kind": "dog", "name": "Rex", "breed": "lab"}, Pet), lambda r, e: isinstance(r, Dog) and r.breed == "lab")
    expect("aliased-value", lambda: structure_from_dict({"kind": "kitten", "name": "Kit"}, Pet), lambda r, e: isinstance(r, Cat))
    expect("unmapped-value-is-error", lambda: structure_from_dict({"kind": "bird", "name": "Tweety"}, Pet), lambda r, e: isinstance(e, ValueError))
    expect("null-value-is-error", lambda: structure_from_dict({"kind": None, "name": "Tom", "lives": 7}, Pet), lambda r, e: isinstance(e, ValueError))
    expect("empty-value-is-error", lambda: structure_from_dict({"kind": "", "name": "Tom"}, Pet), lambda r, e: isinstance(e, ValueError))
    expect("mapped-variant-failure-reported-not-retried", lambda: structure_from_dict({"kind": "cat", "lives": "x"}, Pet), lambda r, e: isinstance(e, ValueError))
    expect("undiscriminated-no-key-lost", lambda: unstructure_to_dict(structure_from_dict({"x": 1, "y": 2}, Union[A, B])), lambda r, e: r == {"x": 1, "y": 2})
    return {"function": "structure_from_dict on discriminated / undiscriminated dataclass unions (real cattrs)", "backend": "bounded", "bound": f"{n} hand-built payload cases",
            "evaluations": n, "distinct_nontrivial": n, "exhaustive": False, "failures": failures}


def bounded_emitted_mapping(tier, seed):
    """emitted <Alias>Discriminator.get_mapping() has exactly the spec's discriminator values, each mapped to the class of its schema — for mapping
    values written as full references, as bare schema names and mixed, and for a variant that several values select (with and without an enum on the
    variant's discriminator property); every mapped value decodes a payload of its variant to that class, an unmapped value is rejected"""
    import json
    from props import corpus as C, gen_harness as G
    REF = C.REF
    forms = {"full-ref": lambda n: REF + n, "bare-name": lambda n: n, "mixed": lambda n: (REF + n if n == "Cat" else n)}
    failures, n = [], 0
    for form, mk in forms.items():
        for enum_on_variant in (False, True):
            kind_cat = {"type": "string", "enum": ["cat", "kitten"]} if enum_on_variant else C.PRIMS["str"]
            kind_dog = {"type": "string", "enum": ["dog", "puppy"]} if enum_on_variant else C.PRIMS["str"]
            schemas = {"Cat": C.obj({"id": C.PRIMS["str"], "kind": kind_cat, "lives": C.PRIMS["int"]}, ["id", "kind"]),
                       "Dog": C.obj({"id": C.PRIMS["str"], "kind": kind_dog, "breed": C.PRIMS["str"]}, ["id", "kind"]),
                       "Animal": {"oneOf": [C.ref("Cat"), C.ref("Dog")], "discriminator": {"propertyName": "kind", "mapping": {
                           "dog": mk("Dog"), "cat": mk("Cat"), "puppy": mk("Dog"), "kitten": mk("Cat")}}}}
            d = C.doc("U", [C.op("/a", "post", "postA", ["a"], None, C.body_json(C.ref("Animal")), {"200": C.resp_json(C.ref("Animal"))})], schemas)
            root = G.scratch("c14")
            label = f"{form}{'+variant-enum' if enum_on_variant else ''}"
            try:
                n += 1
                err = G.generate(d, root, "un")
                if err is not None:
                    failures.append({"id": f"bounded:emitted-discriminator-mapping:{label}:generation", "detail": f"{type(err).__name__}: {err}"[:300], "input": {"form": label}})
                    continue
                code = textwrap.dedent('''
                    import json
                    from un.models.animal import Animal, AnimalDiscriminator
                    from un.models.cat import Cat
                    from un.models.dog import Dog
                    from un.core.cattrs_converter import structure_from_dict
                    from un.core.utils import DataclassSerializer
                    m = AnimalDiscriminator().get_mapping()
                    want = {"dog": Dog, "cat": Cat, "puppy": Dog, "kitten": Cat}
                    assert m == want, ("mapping", m and sorted(m), sorted(want))
                    for value, cls in want.items():
                        doc = {"id": "1", "kind": value, ("lives" if cls is Cat else "breed"): (9 if cls is Cat else "lab")}
                        obj = structure_from_dict(doc, Animal)
                        assert type(obj) is cls, ("variant", value, type(obj).__name__)
                        back = json.loads(json.dumps(DataclassSerializer.serialize(obj)))
                        assert back == doc, ("re-encoded", doc, back)
                    try:
                        structure_from_dict({"id": "1", "kind": "bird", "lives": 1}, Animal)
                        raise AssertionError(("unmapped value accepted", "bird"))
                    except (ValueError, TypeError, KeyError):
                        pass
                ''')
                ok, out = G.import_modules(root, ["un.models"], extra_code=code)
                if not ok:
                    failures.append({"id": f"bounded:emitted-discriminator-mapping:{label}", "detail": out[-400:], "input": {"form": label, "mapping": ["dog", "cat", "puppy", "kitten"]}})
            finally:
                shutil.rmtree(root, ignore_errors=True)
    return {"function": "emitted <Alias>Discriminator.get_mapping() and discriminated decoding vs. the spec's discriminator mapping (aliased values; full-ref / bare-name / "
                        "mixed mapping values; enum on the variants' discriminator property)", "backend": "bounded",
            "bound": f"{n} documents: 4 discriminator values onto 2 schemas", "evaluations": n, "distinct_nontrivial": n, "exhaustive": False, "failures": failures}


def bounded_generated_union_members(tier, seed):
    """every member of a declared oneOf / anyOf survives into the generated union (inline maps, bare objects, arrays, primitives, refs), and a payload
    of each member decodes and re-encodes to itself through the generated alias"""
    import json
    from props import corpus as C, gen_harness as G
    P = C.PRIMS
    S = {"type": "string"}
    schemas = {
        # (renamed wire keys: a container-of-models variant decodes correctly only if the item model's own key-map hook is registered — in a FRESH interpreter)
        "Item": C.obj({"item-id": P["str"], "meowVolume": P["int"], "n": P["int"]}, ["item-id"]),
        "Text": {"oneOf": [{"type": "array", "items": S}, {"type": "object", "additionalProperties": S}]},
        "Loose": {"anyOf": [{"type": "object", "additionalProperties": P["int"]}, S]},
        "Mixed": {"oneOf": [C.ref("Item"), {"type": "array", "items": C.ref("Item")}, {"type": "object", "additionalProperties": C.ref("Item")}, P["int"]]},
        # an earlier variant whose REQUIRED properties all declare a default: it must not thereby accept every object (a later variant's payload is still the later variant)
        "Circle": C.obj({"unit": dict(P["str"], default="cm"), "radius": P["num"]}, ["unit"]),
        "Square": C.obj({"side": P["num"], "label": P["str"]}, ["side"]),
        "Shape": {"oneOf": [C.ref("Circle"), C.ref("Square")]},
        "Holder": C.obj({"text": C.ref("Text"), "loose": C.ref("Loose"), "mixed": C.ref("Mixed"), "shape": C.ref("Shape")}, []),
    }
    d = C.doc("UM", [C.op("/h", "get", "getH", ["h"], responses={"200": C.resp_json(C.ref("Holder")), "201": C.resp_json(C.ref("Text")), "202": C.resp_json(C.ref("Mixed"))})], schemas)
    payloads = [("text", ["a", "b"]), ("text", {"en": "Hello", "fi": "Hei"}), ("loose", {"a": 1, "b": 0}), ("loose", "plain"),
                ("mixed", {"item-id": "i", "meowVolume": 0, "n": 0}), ("mixed", [{"item-id": "i", "meowVolume": 3}]), ("mixed", {"k": {"item-id": "i", "meowVolume": 2}}), ("mixed", 0),
                ("shape", {"side": 2.0, "label": "b"}), ("shape", {"unit": "mm", "radius": 1.5}), ("shape", {"side": 0.0})]
    root = G.scratch("c14m")
    failures, n = [], 0
    try:
        err = G.generate(d, root, "um")
        if err is not None:
            return {"function": "generated unions", "backend": "bounded", "bound": "generation failed", "evaluations": 0, "distinct_nontrivial": 0, "exhaustive": False,
                    "failures": [{"id": "bounded:generated-union:generation", "detail": f"{type(err).__name__}: {err}"[:300], "input": {}}]}
        n = len(payloads)
        for field, value in payloads:  # one fresh interpreter per payload: hook registration is process-global, an earlier decode would mask a gap
            code = textwrap.dedent('''
                import json
                from um.models.holder import Holder
                from um.core.cattrs_converter import structure_from_dict
                from um.core.utils import DataclassSerializer
                doc = json.loads(%r)
                try:
                    back = json.loads(json.dumps(DataclassSerializer.serialize(structure_from_dict(doc, Holder))))
                    print("RESULT " + json.dumps(None if back == doc else "re-encoded as " + json.dumps(back)))
                except Exception as e:
                    print("RESULT " + json.dumps(type(e).__name__ + ": " + str(e)[:160]))
            ''') % json.dumps({field: value})
            ok, out = G.import_modules(root, ["um.models"], extra_code=code)
            line = next((l for l in out.splitlines() if l.startswith("RESULT ")), None)
            if not ok or line is None:
                failures.append({"id": "bounded:generated-union:harness", "detail": out[-500:], "input": {}})
                continue
            why = json.loads(line[7:])
            if why is not None:
                kind = "map" if isinstance(value, dict) and field != "mixed" or (field == "mixed" and isinstance(value, dict) and "item-id" not in value) else type(value).__name__
                failures.append({"id": f"bounded:generated-union:{field}:{kind}", "detail": f"{field} = {json.dumps(value)[:120]}: {why}"[:400], "input": {"field": field, "value": value}})
    finally:
        shutil.rmtree(root, ignore_errors=True)
    return {"function": "generated union aliases: a conforming payload of EVERY declared member (inline map, array, bare primitive, $ref object) decodes and re-encodes to itself",
            "backend": "bounded", "bound": f"1 document, 3 unions, {len(payloads)} payloads", "evaluations": n, "distinct_nontrivial": n, "exhaustive": False, "failures": failures}


def bounded_random_documents(tier, seed):
    """every union alias of every random corpus document (member names with digits, discriminator mappings): each member's payload decodes and re-encodes"""
    from props import randrt
    return randrt.bounded("unions", tier, seed, ignore=lambda p: p["kind"] == "default-materialised")


BOUNDED = [bounded_runtime_unions, bounded_emitted_mapping, bounded_generated_union_members, bounded_random_documents]


def _w_first_match(k):
    r = bounded_runtime_unions("quick", 0)
    return any(f["id"] == "bounded:union:undiscriminated-no-key-lost" for f in r["failures"])


WITNESS = {"F-C14-first-match-lossy": _w_first_match}

MANIFEST = {
    "category": "other",
    "text": "The three discriminator clauses of the statement are proved on the real discriminator branch for every payload, mapping and metadata object; "
            "the undiscriminated clause cannot hold for first-match decoding and is a recorded finding.",
    "note": "cattrs' own structuring and the typing reflection around the branch are opaque/assumed. Only one iteration of the metadata loop is under contract "
            "(the loop has at most one discriminator metadata in generated code).",
    "technique": "contract-based deductive verification (statement contract with site assertion, z3) + bounded runtime cases on real cattrs",
}
