"""C13 — endpoint clients, their Protocols and their mocks have identical surfaces."""
from __future__ import annotations

import ast
import os

from props import pkgcheck

ID = "C13"
LEVEL = "other"
CONTRACT_MODULES = []
EXPLANATION = ("Per generated package of the shape corpus, an exact (finite) comparison of the emitted code: for every tag, client class, Protocol and "
               "mock class expose the same operation methods with AST-equal signatures (names, order, kinds, defaults, annotations, return "
               "annotation, coroutine vs async-generator nature); every mock method body raises NotImplementedError; MockAPIClient exposes "
               "the same tag properties as APIClient. No function-level contract of the generator is discharged for this property.")
TRUSTED = ["comparison is syntactic on the emitted modules (ast.dump of the argument list and returns annotation)"]


def _sig(fn):
    a = fn.args
    is_gen = any(isinstance(x, (ast.Yield, ast.YieldFrom)) for x in ast.walk(fn))
    return (ast.dump(a), ast.dump(fn.returns) if fn.returns else None, isinstance(fn, ast.AsyncFunctionDef), )


def _methods(cls, overloads=False):
    out = {}
    for x in cls.body:
        if isinstance(x, (ast.AsyncFunctionDef, ast.FunctionDef)) and not x.name.startswith("_"):
            is_ov = any(isinstance(d, ast.Name) and d.id == "overload" for d in x.decorator_list)
            if is_ov != overloads:
                continue
            out.setdefault(x.name, []).append(x)
    return out


def _is_asyncgen_nature(fn, returns_text):
    return "AsyncIterator" in (returns_text or "")


def bounded_surface_parity(tier, seed):
    from props import corpus_run
    base, gens = corpus_run.generate_corpus(tier, seed)
    n, failures = 0, []
    try:
        for g in gens:
            if g.error:
                continue
            shape = g.name.split("@")[0]
            ep_dir = os.path.join(g.pkg_dir, "endpoints")
            mk_dir = os.path.join(g.pkg_dir, "mocks", "endpoints")
            for f in sorted(os.listdir(ep_dir)):
                if not f.endswith(".py") or f == "__init__.py":
                    continue
                n += 1
                tree = pkgcheck.parse(os.path.join(ep_dir, f))
                classes = {c.name: c for c in tree.body if isinstance(c, ast.ClassDef)}
                mock_path = os.path.join(mk_dir, "mock_" + f)
                mocks = {}
                if os.path.exists(mock_path):
                    try:
                        mocks = {c.name: c for c in pkgcheck.parse(mock_path).body if isinstance(c, ast.ClassDef)}
                    except SyntaxError:
                        mocks = {}
                for cname, cls in classes.items():
                    if cname.endswith("Protocol"):
                        continue
                    proto = classes.get(cname + "Protocol")
                    mock = mocks.get("Mock" + cname)
                    cm = _methods(cls)
                    for label, other in (("Protocol", proto), ("mock", mock)):
                        if other is None:
                            failures.append({"id": f"bounded:surface:{shape}:{cname}:missing-{label}", "detail": f"{g.name}: no {label} class for {cname}", "input": {"shape": g.name}})
                            continue
                        om = _methods(other)
                        if sorted(cm) != sorted(om):
                            failures.append({"id": f"bounded:surface:{shape}:{cname}:{label}:method-set", "detail": f"{g.name}: {cname} {sorted(cm)} vs {label} {sorted(om)}", "input": {"shape": g.name}})
                            continue
                        for nm in cm:
                            a, b = cm[nm][-1], om[nm][-1]
                            ra = ast.unparse(a.returns) if a.returns else None
                            rb = ast.unparse(b.returns) if b.returns else None
                            same = ast.dump(a.args) == ast.dump(b.args) and ra == rb
                            # coroutine vs async generator nature: an async-generator client method corresponds to a non-async Protocol stub
                            # returning AsyncIterator (PEP 525 typing convention) — compare the *nature*, not the keyword
                            a_gen = any(isinstance(x, (ast.Yield, ast.YieldFrom)) for x in ast.walk(a))
                            if label == "Protocol":
                                nature_ok = (isinstance(b, ast.AsyncFunctionDef) != a_gen) and (a_gen == ("AsyncIterator" in (rb or "")))
                            else:
                                b_gen = any(isinstance(x, (ast.Yield, ast.YieldFrom)) for x in ast.walk(b))
                                nature_ok = isinstance(a, ast.AsyncFunctionDef) == isinstance(b, ast.AsyncFunctionDef) and a_gen == b_gen
                            if not same or not nature_ok:
                                failures.append({"id": f"bounded:surface:{shape}:{cname}.{nm}:{label}", "detail": f"{g.name}: {cname}.{nm} vs {label}: args equal={ast.dump(a.args) == ast.dump(b.args)} returns {ra!r} vs {rb!r} nature_ok={nature_ok}",
                                                 "input": {"shape": g.name}})
                            if label == "mock":
                                raises = [x for x in ast.walk(b) if isinstance(x, ast.Raise) and x.exc is not None and "NotImplementedError" in ast.unparse(x.exc)]
                                first = [s for s in b.body if not (isinstance(s, ast.Expr) and isinstance(s.value, ast.Constant))]
                                if not raises or not first or not isinstance(first[0], ast.Raise):
                                    failures.append({"id": f"bounded:surface:{shape}:{cname}.{nm}:mock-body", "detail": f"{g.name}: mock {nm} does not start by raising NotImplementedError", "input": {"shape": g.name}})
            # tag properties APIClient vs MockAPIClient
            def props_of(path, clsname):
                try:
                    t = pkgcheck.parse(path)
                except (SyntaxError, FileNotFoundError):
                    return None
                for c in t.body:
                    if isinstance(c, ast.ClassDef) and c.name == clsname:
                        return sorted(x.name for x in c.body if isinstance(x, ast.FunctionDef) and any(isinstance(d, ast.Name) and d.id == "property" for d in x.decorator_list))
                return None
            pa = props_of(os.path.join(g.pkg_dir, "client.py"), "APIClient")
            pm = props_of(os.path.join(g.pkg_dir, "mocks", "mock_client.py"), "MockAPIClient")
            if pa is not None and pa != pm:
                failures.append({"id": f"bounded:surface:{shape}:tag-properties", "detail": f"{g.name}: APIClient {pa} vs MockAPIClient {pm}", "input": {"shape": g.name}})
    finally:
        corpus_run.cleanup(base)
    return {"function": "AST-level signature parity client / Protocol / mock, per tag module, per corpus package", "backend": "bounded exact comparison",
            "bound": f"{len(gens)} generated packages; {n} tag modules", "evaluations": n, "distinct_nontrivial": n, "exhaustive": False, "failures": failures}


BOUNDED = [bounded_surface_parity]

MANIFEST = {
    "category": "other",
    "text": "Exact syntactic comparison of the three emitted surfaces per tag over the shape corpus. No generator function is under a discharged "
            "contract for this property (the mock/Protocol transformers are line-rewriting loops outside the engine's practical reach).",
    "note": "Bounded stand-in only for the signature clause; listed under not_applicable for the deductive technique in DESIGN.md §10.",
    "technique": "bounded exact AST comparison of emitted code over an enumerated shape corpus (stand-in; no obligations discharged)",
}
