"""C13 — endpoint clients, their Protocols and their mocks have identical surfaces."""
from __future__ import annotations

import ast
import re
import os

from props import pkgcheck

ID = "C13"
LEVEL = "other"
CONTRACT_MODULES = ["contracts.grouping"]
EXPLANATION = ("Per generated package of the shape corpus, an exact (finite) comparison of the emitted code: for every tag, client class, Protocol and "
               "mock class expose the same operation methods with AST-equal signatures (names, order, kinds, defaults, annotations, return "
               "annotation, coroutine vs async-generator nature); every mock method body raises NotImplementedError; MockAPIClient exposes "
               "the same tag properties as APIClient. Under contract: the tag grouping. The endpoints emitter and the mocks emitter group "
               "(operation, tag) pairs in separate nested loops; both inner-loop bodies satisfy the SAME statement contract (the pair is appended to the "
               "bucket of normalize_tag_key(tag), its spelling to the key's candidates, every other bucket unchanged), so from empty maps over the same "
               "pair sequence they build equal maps; that the two outer loops enumerate the same sequence and rank spellings with the same function is "
               "an exact AST comparison of the real sources (EXTRA). The signature clause (Protocol / mock text derived by line rewriting) is bounded only.")
TRUSTED = ["comparison is syntactic on the emitted modules (ast.dump of the argument list and returns annotation)",
           "induction from the per-iteration contract to equality of the final maps is a meta-argument (same contract, same pair sequence, same initial maps)",
           "the Protocol / mock line-rewriting transformers are not under contract"]


def exact_grouping_frame(tier, seed):
    """what the statement contracts do not cover, decided exactly on the real sources: both grouping loops enumerate `<op>.tags or ["default"]` of every
    operation in order, start from empty maps, and pick the canonical spelling with textually identical ranking functions"""
    import inspect
    import pyopenapi_gen.emitters.endpoints_emitter as ee
    import pyopenapi_gen.emitters.mocks_emitter as me
    import pyopenapi_gen.visit.client_visitor as cv

    def fn(mod, qual):
        tree = ast.parse(inspect.getsource(mod))
        cur = tree
        for part in qual.split("."):
            cur = next(n for n in ast.walk(cur) if isinstance(n, (ast.FunctionDef, ast.ClassDef)) and n.name == part)
        return cur
    e_fn, m_fn = fn(ee, "EndpointsEmitter.emit"), fn(me, "MocksEmitter._group_operations_by_tag")

    def tag_loop(f):
        inner = next(n for n in ast.walk(f) if isinstance(n, ast.For) and ast.unparse(n.target) == "tag")
        outer = next(n for n in ast.walk(f) if isinstance(n, ast.For) and inner in ast.walk(n) and n is not inner)
        return outer, inner

    def norm(node, opname):
        txt = ast.unparse(node)
        return txt.replace("DEFAULT_TAG", repr(ee.DEFAULT_TAG)).replace(opname, "OP").replace("'", '"')
    out = []
    try:
        (eo, ei), (mo, mi) = tag_loop(e_fn), tag_loop(m_fn)
    except StopIteration:
        return [{"id": "exact:grouping:same-pair-sequence", "status": "skipped", "exhaustive": True, "witness": None,
                 "detail": "the nested (operation, tag) loops were not found in this shape (refactored?): not judged here; the statement contracts and the surface comparison still apply"}]

    def tag_source(outer, inner):
        """the expression the inner loop walks, with a local name resolved through its assignment in the outer loop body, operation variable -> OP"""
        txt = ast.unparse(inner.iter)
        for st_ in outer.body:
            if isinstance(st_, ast.Assign) and len(st_.targets) == 1 and ast.unparse(st_.targets[0]) == txt:
                txt = ast.unparse(st_.value)
        opv = ast.unparse(outer.target)
        txt = re.sub(r"\b" + re.escape(opv) + r"\b", "OP", txt)
        return txt.replace("DEFAULT_TAG", repr(ee.DEFAULT_TAG)).replace("'", '"').replace("(", "").replace(")", "")
    a, b = tag_source(eo, ei), tag_source(mo, mi)
    ok1 = a == b
    out.append({"id": "exact:grouping:same-pair-sequence", "status": "holds" if ok1 else "violated", "exhaustive": True,
                "detail": f"endpoints: for {ast.unparse(eo.target)} in {ast.unparse(eo.iter)}: for tag in {a}; mocks: for {ast.unparse(mo.target)} in {ast.unparse(mo.iter)}: for tag in {b}",
                "witness": None})

    def body_text(f):
        return "\n".join(ast.unparse(s) for s in f.body if not (isinstance(s, ast.Expr) and isinstance(s.value, ast.Constant)) and not isinstance(s, (ast.Import, ast.ImportFrom)))
    scores = {"endpoints": body_text(fn(ee, "EndpointsEmitter.emit.tag_score")), "mocks": body_text(fn(me, "_tag_score"))}
    try:
        scores["client"] = body_text(next(n for n in ast.walk(ast.parse(inspect.getsource(cv))) if isinstance(n, ast.FunctionDef) and n.name == "tag_score"))
    except StopIteration:
        pass
    ok2 = len(set(scores.values())) == 1
    out.append({"id": "exact:grouping:same-spelling-rank", "status": "holds" if ok2 else "skipped", "exhaustive": True,
                "detail": f"tag_score bodies textually identical in {sorted(scores)}" if ok2 else
                "tag_score bodies are not textually identical (not judged here: agreement of the chosen spellings is compared on the tag-spelling-set shapes of the corpus)", "witness": None})
    def picks_max(f):
        for n in ast.walk(f):
            if isinstance(n, ast.Call) and isinstance(n.func, ast.Name) and n.func.id == "max" and any(k.arg == "key" for k in n.keywords):
                return True
        return False
    picks = {"endpoints": picks_max(e_fn), "mocks": picks_max(m_fn)}
    out.append({"id": "exact:grouping:canonical-is-max-rank", "status": "holds" if all(picks.values()) else "skipped", "exhaustive": True,
                "detail": f"canonical spelling = max(candidates of the key, key=rank) in both emitters: {picks}" + ("" if all(picks.values()) else " (shape not recognised: not judged here)"),
                "witness": None})
    return out


EXTRA = [exact_grouping_frame]


def _sig(fn):
    a = fn.args
    is_gen = any(isinstance(x, (ast.Yield, ast.YieldFrom)) for x in ast.walk(fn))
    return (ast.dump(a), ast.dump(fn.returns) if fn.returns else None, isinstance(fn, ast.AsyncFunctionDef), )


def _methods(cls, overloads=False):
    out = {}
    for x in cls.body:
        if isinstance(x, (ast.AsyncFunctionDef, ast.FunctionDef)) and not x.name.startswith("_"):
            is_ov = any(isinstance(d, ast.Name) and d.id == "overload" for d in x.decorator_list)
            if is_ov != overloads:
                continue
            out.setdefault(x.name, []).append(x)
    return out


def _is_asyncgen_nature(fn, returns_text):
    return "AsyncIterator" in (returns_text or "")


def bounded_surface_parity(tier, seed):
    from props import corpus_run
    base, gens = corpus_run.generate_corpus(tier, seed)
    n, failures = 0, []
    try:
        for g in gens:
            if g.error:
                continue
            shape = g.name.split("@")[0]
            ep_dir = os.path.join(g.pkg_dir, "endpoints")
            mk_dir = os.path.join(g.pkg_dir, "mocks", "endpoints")
            for f in sorted(os.listdir(ep_dir)):
                if not f.endswith(".py") or f == "__init__.py":
                    continue
                n += 1
                tree = pkgcheck.parse(os.path.join(ep_dir, f))
                classes = {c.name: c for c in tree.body if isinstance(c, ast.ClassDef)}
                mock_path = os.path.join(mk_dir, "mock_" + f)
                mocks = {}
                if os.path.exists(mock_path):
                    try:
                        mocks = {c.name: c for c in pkgcheck.parse(mock_path).body if isinstance(c, ast.ClassDef)}
                    except SyntaxError:
                        mocks = {}
                for cname, cls in classes.items():
                    if cname.endswith("Protocol"):
                        continue
                    proto = classes.get(cname + "Protocol")
                    mock = mocks.get("Mock" + cname)
                    cm = _methods(cls)
                    for label, other in (("Protocol", proto), ("mock", mock)):
                        if other is None:
                            failures.append({"id": f"bounded:surface:{shape}:{cname}:missing-{label}", "detail": f"{g.name}: no {label} class for {cname}", "input": {"shape": g.name}})
                            continue
                        om = _methods(other)
                        if sorted(cm) != sorted(om):
                            failures.append({"id": f"bounded:surface:{shape}:{cname}:{label}:method-set", "detail": f"{g.name}: {cname} {sorted(cm)} vs {label} {sorted(om)}", "input": {"shape": g.name}})
                            continue
                        for nm in cm:
                            a, b = cm[nm][-1], om[nm][-1]
                            ra = ast.unparse(a.returns) if a.returns else None
                            rb = ast.unparse(b.returns) if b.returns else None
                            same = ast.dump(a.args) == ast.dump(b.args) and ra == rb
                            # coroutine vs async generator nature: an async-generator client method corresponds to a non-async Protocol stub
                            # returning AsyncIterator (PEP 525 typing convention) — compare the *nature*, not the keyword
                            a_gen = any(isinstance(x, (ast.Yield, ast.YieldFrom)) for x in ast.walk(a))
                            if label == "Protocol":
                                nature_ok = (isinstance(b, ast.AsyncFunctionDef) != a_gen) and (a_gen == ("AsyncIterator" in (rb or "")))
                            else:
                                b_gen = any(isinstance(x, (ast.Yield, ast.YieldFrom)) for x in ast.walk(b))
                                nature_ok = isinstance(a, ast.AsyncFunctionDef) == isinstance(b, ast.AsyncFunctionDef) and a_gen == b_gen
                            if not same or not nature_ok:
                                failures.append({"id": f"bounded:surface:{shape}:{cname}.{nm}:{label}", "detail": f"{g.name}: {cname}.{nm} vs {label}: args equal={ast.dump(a.args) == ast.dump(b.args)} returns {ra!r} vs {rb!r} nature_ok={nature_ok}",
                                                 "input": {"shape": g.name}})
                            if label == "mock":
                                raises = [x for x in ast.walk(b) if isinstance(x, ast.Raise) and x.exc is not None and "NotImplementedError" in ast.unparse(x.exc)]
                                first = [s for s in b.body if not (isinstance(s, ast.Expr) and isinstance(s.value, ast.Constant))]
                                if not raises or not first or not isinstance(first[0], ast.Raise):
                                    failures.append({"id": f"bounded:surface:{shape}:{cname}.{nm}:mock-body", "detail": f"{g.name}: mock {nm} does not start by raising NotImplementedError", "input": {"shape": g.name}})
            # tag properties APIClient vs MockAPIClient
            def props_of(path, clsname):
                try:
                    t = pkgcheck.parse(path)
                except (SyntaxError, FileNotFoundError):
                    return None
                for c in t.body:
                    if isinstance(c, ast.ClassDef) and c.name == clsname:
                        return sorted(x.name for x in c.body if isinstance(x, ast.FunctionDef) and any(isinstance(d, ast.Name) and d.id == "property" for d in x.decorator_list))
                return None
            pa = props_of(os.path.join(g.pkg_dir, "client.py"), "APIClient")
            pm = props_of(os.path.join(g.pkg_dir, "mocks", "mock_client.py"), "MockAPIClient")
            if pa is not None and pa != pm:
                failures.append({"id": f"bounded:surface:{shape}:tag-properties", "detail": f"{g.name}: APIClient {pa} vs MockAPIClient {pm}", "input": {"shape": g.name}})
    finally:
        corpus_run.cleanup(base)
    return {"function": "AST-level signature parity client / Protocol / mock, per tag module, per corpus package", "backend": "bounded exact comparison",
            "bound": f"{len(gens)} generated packages; {n} tag modules", "evaluations": n, "distinct_nontrivial": n, "exhaustive": False, "failures": failures}


BOUNDED = [bounded_surface_parity]

MANIFEST = {
    "category": "other",
    "text": "The tag grouping of endpoints and mocks is under one shared statement contract (both loops proved against it) plus exact source comparison of "
            "the loop frames; the three emitted surfaces are compared exactly per tag over the shape corpus.",
    "note": "The signature clause (Protocol / mock text derived by line rewriting) is a bounded stand-in only.",
    "technique": "contract-based deductive verification (shared statement contract on both grouping loops, z3) + exact source comparison + bounded exact AST comparison of emitted code",
}
