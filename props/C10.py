"""C10 — without force, existing output is never touched; writes stay contained."""
from __future__ import annotations

import contextlib
import io
import json
import os
import shutil

ID = "C10"
LEVEL = "other"
CONTRACT_MODULES = ["contracts.writeset", "contracts.showdiffs"]
EXPLANATION = ("The non-force branch of ClientGenerator.generate() carries a frame condition stated as NON-INTERFERENCE and discharged per call site: no value "
               "handed to any emitter constructor, emit(), RenderContext, PostprocessManager, mkdir / write_text or path helper depends on the real project "
               "root, output directory, core directory or the real tree's render context (obligation v == v[src := src'] for every receiver, argument and "
               "keyword; objects tracked by reference; results of opaque calls and abstracted expressions inherit dependence); only the read-only "
               "callees (diff check, exists, logging) may see them. The force branch carries site assertions: rmtree removes exactly str(out_dir), every "
               "emitter is pointed at str(out_dir) / str(core_dir), the only direct open() is <out_dir>/__init__.py. That each emitter writes only "
               "below the directory it is given is assumed by these contracts and exercised by the bounded part: a fault is injected before and after every "
               "stage (load, parse, six emitters, post-processing, diff) for force on/off x existing tree equal / different / partial x three layouts, "
               "with a (path, sha256, mtime_ns) snapshot of a project root holding sentinel user files.")
TRUSTED = ["each emitter / FileManager writes only below the output directory it is given (bounded snapshots only)",
           "relation out_dir == project_root.joinpath(*output_package.split('.')) established by the prelude of generate() is not part of the region contracts",
           "pathlib / tempfile / shutil are uninterpreted; tempfile.TemporaryDirectory() yields a directory outside the project root"]

STAGES = [("load", "fetch_spec", None), ("parse", "load_ir_from_spec", None),
          ("exceptions", "ExceptionsEmitter", "emit"), ("core", "CoreEmitter", "emit"), ("models", "ModelsEmitter", "emit"),
          ("endpoints", "EndpointsEmitter", "emit"), ("client", "ClientEmitter", "emit"), ("mocks", "MocksEmitter", "emit"),
          ("postprocess", "PostprocessManager", "run"), ("diff", "ClientGenerator", "_show_diffs")]


class Injected(Exception):
    pass


@contextlib.contextmanager
def fault(stage, when):
    """make one stage of the pipeline fail, before or after doing its work (names are patched where generate() looks them up)"""
    import pyopenapi_gen.generator.client_generator as cg
    if stage is None:
        yield
        return
    if stage.startswith("write-"):
        # an I/O failure INSIDE a stage: the k-th file write of the run (FileManager.write_file / Path.write_text) fails, so that the emitters' own
        # error handling runs (the stage-level faults above replace a whole stage and never reach it)
        import pathlib
        from pyopenapi_gen.context.file_manager import FileManager
        k, count = int(stage.split("-")[1]), [0]
        o1, o2 = FileManager.write_file, pathlib.Path.write_text

        def w1(self, path, content, *a, **kw):
            count[0] += 1
            if count[0] == k:
                raise Injected(stage)
            return o1(self, path, content, *a, **kw)

        def w2(self, *a, **kw):
            count[0] += 1
            if count[0] == k:
                raise Injected(stage)
            return o2(self, *a, **kw)
        FileManager.write_file, pathlib.Path.write_text = w1, w2
        try:
            yield
        finally:
            FileManager.write_file, pathlib.Path.write_text = o1, o2
        return
    _, name, meth = next(s for s in STAGES if s[0] == stage)
    if meth is None:
        orig = getattr(cg, name)

        def wrapped(*a, **k):
            if when == "before":
                raise Injected(stage)
            orig(*a, **k)
            raise Injected(stage)
        setattr(cg, name, wrapped)
        try:
            yield
        finally:
            setattr(cg, name, orig)
    else:
        cls = getattr(cg, name)
        orig = getattr(cls, meth)

        def wrapped(self, *a, **k):
            if when == "before":
                raise Injected(stage)
            orig(self, *a, **k)
            raise Injected(stage)
        setattr(cls, meth, wrapped)
        try:
            yield
        finally:
            setattr(cls, meth, orig)


def _gen(spec_path, root, pkg, core, force, postprocess=False):
    import logging
    import warnings
    logging.disable(logging.CRITICAL)
    warnings.simplefilter("ignore")
    from pyopenapi_gen import generate_client
    buf = io.StringIO()
    try:
        with contextlib.redirect_stdout(buf), contextlib.redirect_stderr(buf):
            generate_client(spec_path=spec_path, project_root=root, output_package=pkg, core_package=core, force=force, no_postprocess=not postprocess)
        return None
    except BaseException as e:  # noqa
        return e


def _snapshot(root):
    from props.c09_worker import tree
    return tree(root, with_mtime=True)


def _allowed(rel, pkg, core):
    """clause 2: inside the output package dir, inside the core package dir, or __init__.py of a proper ancestor package of either"""
    parts = rel.rstrip("/").split(os.sep)
    for dotted in (pkg, core or pkg + ".core"):
        segs = dotted.split(".")
        if parts[:len(segs)] == segs:
            return True
        for k in range(1, len(segs)):
            if parts == segs[:k] + ["__init__.py"]:
                return True
    return False


def _sentinels(root, pkg, core):
    os.makedirs(os.path.join(root, "_specs"), exist_ok=True)
    # the user's own modules are deliberately NOT formatter-clean (unused imports, unsorted imports, odd spacing): a post-processing step that
    # wanders outside the generated packages changes their bytes
    messy = "import sys,os\nimport json\nY=2\ndef f( a ):\n  return a\n"
    files = {"README.md": "user file\n", "setup.cfg": "[x]\n", "notes/todo.txt": "keep\n", "src_other/mod.py": messy}
    top = pkg.split(".")[0]
    if "." in pkg:
        files[os.path.join(top, "handwritten.py")] = messy  # a user's module in an ancestor package
        files[os.path.join(top, "tools", "__init__.py")] = ""
        files[os.path.join(top, "tools", "script.py")] = messy  # ... and in a sibling sub-package of the generated one
    for rel, text in files.items():
        p = os.path.join(root, rel)
        os.makedirs(os.path.dirname(p), exist_ok=True)
        open(p, "w").write(text)


def bounded_fault_injection(tier, seed):
    from props import corpus, gen_harness as G
    names = ["two-tags", "schema-graph"] if tier == "quick" else ["two-tags", "schema-graph", "params-all-locations", "streams", "multi-2xx"]
    docs = {n: d for n, f, d in corpus.shapes(tier, seed) if n in names}
    layouts = [("cli", None), ("acme.clients.cli", "acme.shared.core"), ("cli", "cli.runtime.core"), ("api_client", "shared_core")]
    failures, n = [], 0
    base = G.scratch("c10")
    cwd0 = os.getcwd()

    def fail(fid, detail, inp):
        if not any(f["id"] == fid for f in failures):
            failures.append({"id": fid, "detail": detail[:500], "input": inp})
    try:
        for name, d in docs.items():
            older = dict(d, info=dict(d.get("info", {}), title="older revision"))
            older = json.loads(json.dumps(older))
            for item in older["paths"].values():
                for op in item.values():
                    if isinstance(op, dict) and "responses" in op:
                        op["responses"].setdefault("409", {"description": "conflict"})
            for li, (pkg, core) in enumerate(layouts if tier == "thorough" or name == "two-tags" else layouts[:2]):
                lay = f"{pkg}+{core}"
                for existing in ("equal", "different", "partial", "absent"):
                    proto = os.path.join(base, f"proto_{name}_{li}_{existing}")
                    os.makedirs(proto)
                    _sentinels(proto, pkg, core)
                    sp = os.path.join(proto, "_specs", "s.json")
                    json.dump(d, open(sp, "w"))
                    if existing != "absent":
                        osp = os.path.join(proto, "_specs", "older.json")
                        json.dump(older if existing == "different" else d, open(osp, "w"))
                        if _gen(osp, proto, pkg, core, True) is not None:
                            break
                        if existing == "partial":
                            shutil.rmtree(os.path.join(proto, *pkg.split("."), "endpoints"))
                            os.unlink(os.path.join(proto, *pkg.split("."), "client.py"))
                    for force in (False, True):
                        stages = [(None, None)] + [(s[0], w) for s in STAGES for w in ("before", "after")]
                        if tier == "quick" and not (name == "two-tags" and li < 2):
                            stages = [(None, None)] + [(s[0], "after") for s in STAGES]
                        stages = stages + [(f"write-{k}", "at") for k in ((1, 4, 9, 15, 22, 30, 40) if tier == "quick" else range(1, 70, 2))]
                        for stage, when in stages:
                            if stage == "postprocess":
                                continue  # post-processing is exercised separately below (it is skipped in these runs)
                            work = os.path.join(base, "work")
                            shutil.rmtree(work, ignore_errors=True)
                            shutil.copytree(proto, work, copy_function=shutil.copy2)
                            for dp, dn, fs in os.walk(work):  # copy2 keeps mtimes; directories do not matter
                                pass
                            before = _snapshot(work)
                            os.chdir(work)
                            try:
                                with fault(stage, when):
                                    e = _gen(os.path.join(work, "_specs", "s.json"), work, pkg, core, force)
                            finally:
                                os.chdir(cwd0)
                            n += 1
                            after = _snapshot(work)
                            changed = sorted(k for k in set(before) | set(after) if before.get(k) != after.get(k))
                            inp = {"shape": name, "layout": lay, "existing": existing, "force": force, "fault": [stage, when]}
                            tag = f"{stage or 'none'}-{when or 'x'}"
                            if not force and existing != "absent":
                                # clause 1
                                if changed:
                                    fail(f"bounded:noforce-touched:{existing}:{tag}", f"{name} [{lay}] existing={existing} fault={tag}: non-force run changed {changed[:6]}", inp)
                                reached = stage is None or isinstance(e, Injected) or e is not None
                                if stage is not None and not stage.startswith("write-") and e is None:
                                    fail(f"bounded:noforce-swallowed-failure:{tag}", f"{name} [{lay}] existing={existing}: a failure injected at {tag} did not make the run raise", inp)
                                if stage is None and existing == "equal" and e is not None:
                                    fail("bounded:noforce-equal-fails", f"{name} [{lay}]: up-to-date tree, non-force run raised {type(e).__name__}: {str(e)[:100]}", inp)
                                if stage is None and existing in ("different", "partial") and e is None:
                                    fail(f"bounded:noforce-difference-succeeds:{existing}", f"{name} [{lay}] existing={existing}: non-force run reported success", inp)
                                del reached
                            # clause 2 (every mode)
                            outside = [k for k in changed if not _allowed(k, pkg, core)]
                            if outside:
                                fail(f"bounded:outside-write-set:{'force' if force else 'noforce'}:{tag}",
                                     f"{name} [{lay}] existing={existing} force={force} fault={tag}: paths outside the package / core / ancestor __init__.py changed: {outside[:6]}", inp)
                    shutil.rmtree(proto, ignore_errors=True)
        # post-processing on, run from the project root (the usual CLI situation)
        for name, d in list(docs.items())[:1 if tier == "quick" else 2]:
            for pkg, core in layouts[:2]:
                for force in (True, False):
                    work = os.path.join(base, "pp")
                    shutil.rmtree(work, ignore_errors=True)
                    os.makedirs(work)
                    _sentinels(work, pkg, core)
                    sp = os.path.join(work, "_specs", "s.json")
                    json.dump(d, open(sp, "w"))
                    pristine = _snapshot(work)  # the user's files before anything was generated
                    os.chdir(work)
                    try:
                        if _gen(sp, work, pkg, core, True, postprocess=True) is not None:
                            continue
                        shutil.rmtree(os.path.join(work, ".ruff_cache"), ignore_errors=True) if False else None
                        before = _snapshot(work)
                        e = _gen(sp, work, pkg, core, force, postprocess=True)
                    finally:
                        os.chdir(cwd0)
                    n += 1
                    after = _snapshot(work)
                    changed = sorted(k for k in set(before) | set(after) if before.get(k) != after.get(k))
                    inp = {"shape": name, "layout": f"{pkg}+{core}", "force": force, "postprocess": True, "cwd": "project root"}
                    if not force and (changed or e is not None):
                        fail("bounded:noforce-touched:postprocess", f"{name} [{pkg}+{core}] post-processing on, cwd=project root: non-force re-run "
                             f"{'raised ' + type(e).__name__ + ': ' + str(e)[:80] if e is not None else 'changed'} {changed[:6]}", inp)
                    touched = sorted(k for k in _user_files(pkg) if k in pristine and (after.get(k) or [None])[0] != pristine[k][0])
                    if touched:
                        fail(f"bounded:user-file-rewritten:{'force' if force else 'noforce'}:postprocess", f"{name} [{pkg}+{core}] post-processing on: the user's own files were "
                             f"rewritten: {touched[:6]}", inp)
                    first = sorted(k for k in after if not _allowed(k, pkg, core) and k not in _user_files(pkg))
                    if first:
                        fail(f"bounded:outside-write-set:{'force' if force else 'noforce'}:postprocess", f"{name} [{pkg}+{core}] post-processing on, cwd=project root: "
                             f"paths outside the package / core / ancestor __init__.py exist afterwards: {first[:6]}", inp)
    finally:
        os.chdir(cwd0)
        shutil.rmtree(base, ignore_errors=True)
    return {"function": "generate_client under fault injection: every stage (load, parse, 6 emitters, diff) failed before / after its work x force on/off x existing "
                        "tree equal / different / partial / absent x layouts; (path, sha256, mtime_ns) snapshots of a project root with sentinel user files; plus "
                        "post-processing on with cwd = project root",
            "backend": "bounded", "bound": f"{len(docs)} corpus documents x up to 4 layouts x 4 existing-tree states x 2 modes x up to 19 fault points", "evaluations": n,
            "distinct_nontrivial": n, "exhaustive": False, "failures": failures}


def _user_files(pkg):
    out = {"README.md", "setup.cfg", os.path.join("notes", "todo.txt"), os.path.join("src_other", "mod.py")}
    if "." in pkg:
        top = pkg.split(".")[0]
        out |= {os.path.join(top, "handwritten.py"), os.path.join(top, "tools", "__init__.py"), os.path.join(top, "tools", "script.py")}
    return out


BOUNDED = [bounded_fault_injection]

MANIFEST = {
    "category": "other",
    "text": "Non-interference of the non-force branch from the real directories is proved per call site; the force branch's removal and emitter targets are "
            "proved equal to the package / core directories; fault injection at every stage with whole-root snapshots checks both clauses on the corpus.",
    "note": "Emitters' own write frames are assumed by the region contracts (bounded only). pathlib/tempfile uninterpreted.",
    "technique": "contract-based deductive verification (frame condition as non-interference VCs, site assertions; z3) + bounded fault injection with snapshots",
}
