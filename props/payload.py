"""Conforming JSON payloads for a schema of an OpenAPI document (used by the round-trip checks over the random corpus documents).
variant 0: typical values; variant 1: falsy / edge values (0, "", False, empty containers, falsy enum members); variant 2: required properties only."""
from __future__ import annotations

R = "#/components/schemas/"


def discriminated(schemas):
    """member schema name -> (discriminator property, mapped value) for every discriminated union of named members"""
    out = {}
    for s in schemas.values():
        d = s.get("discriminator") if isinstance(s, dict) else None
        if d:
            for val, ref in (d.get("mapping") or {}).items():
                out[ref.split("/")[-1]] = (d["propertyName"], val)
    return out


def conforming(schemas, sch, variant=0, depth=0, name=None):
    """a JSON value conforming to `sch`; a member of a discriminated union always carries its own mapped discriminator value"""
    if "$ref" in sch:
        name = sch["$ref"].split("/")[-1]
        return conforming(schemas, schemas[name], variant, depth + 1, name)
    if name is not None:
        v = conforming(schemas, sch, variant, depth, None)
        d = discriminated(schemas).get(name)
        if d and isinstance(v, dict):
            v[d[0]] = d[1]
        return v
    if "allOf" in sch:
        out = {}
        for m in sch["allOf"]:
            v = conforming(schemas, m, variant, depth + 1)
            if isinstance(v, dict):
                out.update(v)
        return out
    if "oneOf" in sch or "anyOf" in sch:
        members = sch.get("oneOf") or sch.get("anyOf")
        disc = sch.get("discriminator")
        idx = variant % len(members)
        v = conforming(schemas, members[idx], variant, depth + 1)
        if disc and isinstance(v, dict):
            target = members[idx].get("$ref")
            for val, ref in (disc.get("mapping") or {}).items():
                if ref == target:
                    v[disc["propertyName"]] = val
        return v
    if "enum" in sch:
        vals = sch["enum"]
        if variant == 1:
            falsy = [x for x in vals if not x and x is not None]
            return falsy[0] if falsy else vals[-1]
        return vals[0]
    t = sch.get("type")
    if t == "object" or (t is None and ("properties" in sch or "additionalProperties" in sch)):
        out = {}
        req = set(sch.get("required", []))
        for pn, ps in (sch.get("properties") or {}).items():
            if variant == 2 and pn not in req:
                continue
            if depth > 4 and pn not in req:
                continue
            out[pn] = conforming(schemas, ps, variant, depth + 1)
        ap = sch.get("additionalProperties")
        if not sch.get("properties"):
            if isinstance(ap, dict):
                return {} if variant == 1 else {"k1": conforming(schemas, ap, variant, depth + 1), "k2": conforming(schemas, ap, 0 if variant else 1, depth + 1)}
            if ap is True or ap is None:
                return {} if variant == 1 else {"any": 1, "thing": "x"}
        return out
    if t == "array":
        if variant == 1:
            return []
        return [conforming(schemas, sch.get("items", {}), 0, depth + 1), conforming(schemas, sch.get("items", {}), 1, depth + 1)]
    f = sch.get("format")
    if t == "string":
        if f == "date":
            return "2024-01-02"
        if f == "date-time":
            return "2024-01-02T03:04:05+00:00"
        if f == "uuid":
            return "12345678-1234-5678-1234-567812345678"
        if f == "byte":
            return "" if variant == 1 else "aGk="
        if f == "binary":
            return "raw"
        return "" if variant == 1 else "text é"
    if t == "integer":
        return 0 if variant == 1 else (2 ** 40 if f == "int64" else 7)
    if t == "number":
        return 0.0 if variant == 1 else 1.5
    if t == "boolean":
        return variant != 1
    return {"free": "form"} if variant != 1 else {}


def same(a, b):
    """JSON equality modulo absent / null-valued keys"""
    if isinstance(a, dict) and isinstance(b, dict):
        for k in set(a) | set(b):
            va, vb = a.get(k), b.get(k)
            if va is None and vb is None:
                continue
            if not same(va, vb):
                return False
        return True
    if isinstance(a, list) and isinstance(b, list):
        return len(a) == len(b) and all(same(x, y) for x, y in zip(a, b))
    if isinstance(a, bool) != isinstance(b, bool):
        return False
    return a == b


def diffs(a, b, path="$"):
    """differences between a sent JSON value `a` and what came back `b`: (path, category, sent, back); categories:
    tolerated (absent optional -> null / empty container), appeared (absent -> a non-empty value), lost, changed"""
    out = []
    if isinstance(a, dict) and isinstance(b, dict):
        for k in sorted(set(a) | set(b)):
            p = f"{path}.{k}"
            if k not in a or a[k] is None:
                if k not in b or b[k] is None:
                    continue
                if k in a:
                    out.append((p, "changed", None, b[k]))
                elif b[k] in ([], {}):
                    out.append((p, "tolerated", None, b[k]))
                else:
                    out.append((p, "appeared", None, b[k]))
            elif k not in b or b[k] is None:
                out.append((p, "lost", a[k], None))
            else:
                out.extend(diffs(a[k], b[k], p))
        return out
    if isinstance(a, list) and isinstance(b, list):
        if len(a) != len(b):
            return [(path, "changed", a, b)]
        for i, (x, y) in enumerate(zip(a, b)):
            out.extend(diffs(x, y, f"{path}[{i}]"))
        return out
    if isinstance(a, bool) != isinstance(b, bool) or a != b or type(a) is not type(b) and not (isinstance(a, (int, float)) and isinstance(b, (int, float))):
        return [(path, "changed", a, b)]
    return out


def with_defaults(schemas, sch, value, depth=0):
    """`value` with every absent property that declares a `default` filled in (what a client that materialises schema defaults sends back)"""
    if depth > 12 or not isinstance(sch, dict):
        return value
    if "$ref" in sch:
        return with_defaults(schemas, schemas[sch["$ref"].split("/")[-1]], value, depth + 1)
    if "allOf" in sch:
        for m in sch["allOf"]:
            value = with_defaults(schemas, m, value, depth + 1)
        return value
    if "oneOf" in sch or "anyOf" in sch:
        d = sch.get("discriminator")
        if d and isinstance(value, dict):
            ref = (d.get("mapping") or {}).get(value.get(d["propertyName"]))
            if ref:
                return with_defaults(schemas, {"$ref": ref}, value, depth + 1)
        return value
    if isinstance(value, dict):
        out = dict(value)
        props = sch.get("properties") or {}
        for pn, ps in props.items():
            if pn in out and out[pn] is not None:
                out[pn] = with_defaults(schemas, ps, out[pn], depth + 1)
            elif isinstance(ps, dict) and "default" in ps and pn not in out:
                out[pn] = ps["default"]
        ap = sch.get("additionalProperties")
        if isinstance(ap, dict):
            for k in out:
                if k not in props:
                    out[k] = with_defaults(schemas, ap, out[k], depth + 1)
        return out
    if isinstance(value, list) and isinstance(sch.get("items"), dict):
        return [with_defaults(schemas, sch["items"], v, depth + 1) for v in value]
    return value
