"""Shared harness: run the generator (public API, current /repo tree) into a scratch project and inspect the result."""
from __future__ import annotations

import json
import os
import shutil
import subprocess
import sys
import tempfile
import textwrap

PY = sys.executable


def scratch(prefix="gen"):
    return tempfile.mkdtemp(prefix=prefix + "_", dir=os.environ.get("TMPDIR"))


def generate(spec: dict, project_root: str, output_package: str, core_package=None, force=True, no_postprocess=True, spec_name="spec.json", yaml_text=None):
    """-> None on success, or the exception"""
    from pyopenapi_gen import generate_client
    sp = os.path.join(project_root, "_specs")
    os.makedirs(sp, exist_ok=True)
    path = os.path.join(sp, spec_name)
    if yaml_text is not None:
        open(path, "w").write(yaml_text)
    else:
        json.dump(spec, open(path, "w"))
    try:
        generate_client(spec_path=path, project_root=project_root, output_package=output_package, core_package=core_package,
                        force=force, no_postprocess=no_postprocess)
        return None
    except Exception as e:  # noqa
        return e


BLOCKER = textwrap.dedent('''
    import sys, importlib, importlib.abc
    class _Block(importlib.abc.MetaPathFinder):
        def find_spec(self, name, path=None, target=None):
            if name == "pyopenapi_gen" or name.startswith("pyopenapi_gen."):
                raise ModuleNotFoundError("pyopenapi_gen is blocked: generated clients must be self-contained", name=name)
            return None
    sys.meta_path.insert(0, _Block())
    for k in [k for k in sys.modules if k == "pyopenapi_gen" or k.startswith("pyopenapi_gen.")]:
        del sys.modules[k]
''')


def import_modules(project_root: str, modules: list[str], extra_code: str = "", block_generator=True, timeout=60):
    """import the modules in a fresh interpreter whose sys.path has the project root (and site-packages for httpx/cattrs)
    -> (ok, output)"""
    code = (BLOCKER if block_generator else "") + "import sys\nsys.path.insert(0, %r)\nimport importlib\n" % project_root
    code += "mods = %r\nfor m in mods:\n    importlib.import_module(m)\n" % modules
    code += extra_code + "\nprint('IMPORT-OK')\n"
    env = dict(os.environ)
    env.pop("PYTHONPATH", None)
    p = subprocess.run([PY, "-c", code], capture_output=True, text=True, timeout=timeout, env=env, cwd=project_root)
    ok = p.returncode == 0 and "IMPORT-OK" in p.stdout
    return ok, (p.stdout + p.stderr)[-1500:]


def package_modules(project_root: str, package: str):
    """dotted names of every module of the emitted package (by walking the directory)"""
    base = os.path.join(project_root, *package.split("."))
    out = []
    for dp, dn, fs in os.walk(base):
        dn[:] = [d for d in dn if d != "__pycache__"]
        for f in sorted(fs):
            if f.endswith(".py"):
                rel = os.path.relpath(os.path.join(dp, f), project_root)[:-3].replace(os.sep, ".")
                if rel.endswith(".__init__"):
                    rel = rel[: -len(".__init__")]
                out.append(rel)
    return sorted(set(out))


def simple_spec(title, ops):
    """ops: list of dicts {path, method, operationId, tags, parameters, requestBody, responses}"""
    paths = {}
    for op in ops:
        item = paths.setdefault(op["path"], {})
        o = {k: v for k, v in op.items() if k not in ("path", "method")}
        item[op["method"]] = o
    return {"openapi": "3.0.0", "info": {"title": title, "version": "1.0.0"}, "paths": paths}
