"""C11 — clients sharing one core package keep working as more are generated."""
from __future__ import annotations

import itertools
import json
import os
import random
import shutil

from props import gen_harness as G

ID = "C11"
LEVEL = "proof"
CONTRACT_MODULES = ["contracts.status", "contracts.aliases", "contracts.registry", "contracts.writeset"]
EXPLANATION = ("ExceptionsEmitter._update_registry is proved (loop invariant in set algebra over the registry's key sequence) to write back every "
               "other client's entry unchanged and to return a list covering every code of every registered client; _generate_for_codes is "
               "proved to render one alias per 4xx/5xx code of its argument; emit is proved to regenerate from exactly that union whenever the "
               "core is shared; _is_shared_core is proved to decide sharing from the package names (any depth). Histories are handled one step "
               "at a time through the invariant on the persisted registry.")
TRUSTED = ["json.load/json.dump round-trip the registry object; open/os.path are the stdlib functions (the registry file is a JSON object of "
           "integer lists — assumed well-formed)", "CoreEmitter rewrites only spec-independent runtime files (C12)"]


def bounded_histories(tier, seed):
    """histories of generations into one shared core: after every step every client generated so far imports in a fresh interpreter
    and every alias its endpoints import exists in the core"""
    rnd = random.Random(seed)
    code_sets = [(), (404,), (409, 500), (503,), (404, 422, 500)]
    layouts = [("shared_core", "client_{}"), ("apis.core", "apis.client_{}"), ("apis.v1.shared.core", "apis.v1.client_{}")]
    seqs = list(itertools.permutations(range(len(code_sets)), 3))
    rnd.shuffle(seqs)
    seqs = seqs[: (4 if tier == "quick" else 40)]
    n, failures = 0, []
    for (core_pkg, client_fmt), seq in itertools.product(layouts, seqs):
        root = G.scratch("c11")
        try:
            made = []
            steps = list(seq) + [seq[0]]  # regenerate the first client at the end
            for step, k in enumerate(steps):
                codes = code_sets[k]
                resp = {"200": {"description": "ok"}}
                for c in codes:
                    resp[str(c)] = {"description": "err"}
                spec = G.simple_spec(f"S{k}", [{"path": "/x", "method": "get", "operationId": "getX", "tags": ["t"], "responses": resp}])
                pkg = client_fmt.format(k)
                err = G.generate(spec, root, pkg, core_package=core_pkg)
                n += 1
                if err is not None:
                    failures.append({"id": "bounded:shared-core:generation-failed", "detail": f"{type(err).__name__}: {err}", "input": {"layout": core_pkg, "history": steps[: step + 1]}})
                    break
                if pkg not in made:
                    made.append(pkg)
                mods = [f"{p}.endpoints.t" for p in made] + [f"{p}.client" for p in made] + [core_pkg]
                ok, out = G.import_modules(root, mods)
                if not ok:
                    failures.append({"id": "bounded:shared-core:client-broken", "detail": out[-400:],
                                     "input": {"layout": core_pkg, "history": [list(code_sets[j]) for j in steps[: step + 1]]}})
                    break
        finally:
            shutil.rmtree(root, ignore_errors=True)
        if len(failures) >= 3:
            break
    return {"function": "generate_client histories into a shared core + import of every client in a fresh interpreter", "backend": "bounded enumeration",
            "bound": f"{len(layouts)} layouts (core depth 1-3) x {len(seqs)} histories of 4 generations over {len(code_sets)} error-code sets",
            "evaluations": n, "distinct_nontrivial": n, "exhaustive": False, "failures": failures}


BOUNDED = [bounded_histories]

MANIFEST = {
    "category": "proof",
    "text": "One-step preservation of the registry invariant is proved for all registries, client names and code lists: the written registry keeps "
            "the other clients, the regenerated alias module covers the union. Any history is a sequence of such steps.",
    "note": "Assumed: the registry file is well-formed JSON (object of int lists); json/os are the stdlib. Not proved: that the import block of the "
            "regenerated alias module names both base classes (decided by the bounded histories, which import every client after every step).",
    "technique": "contract-based deductive verification (loop invariant in set algebra, ghost call log, z3) + bounded histories with import in a fresh interpreter",
}
