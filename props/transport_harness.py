"""Native harness for HttpxTransport / auth plugins: builds real objects from solver models or enumerated cases,
records what reaches `self._client.request` (the dependency boundary), and evaluates the sidecar contracts natively."""
from __future__ import annotations

import asyncio
import copy
import itertools

import httpx

from pyvc import monitor, spec
from pyvc import contracts as pc


def clean(v):
    """solver model value -> plain Python (finite dicts: the array default is dropped)."""
    if isinstance(v, dict):
        if "__set__" in v:
            return set(v["__set__"])
        if "__opaque__" in v:
            return object()
        if "__absent__" in v:
            return None
        return {k: clean(x) for k, x in v.items() if k != "__default__"}
    if isinstance(v, list):
        return [clean(x) for x in v]
    return v


def strmap(d):
    return {str(k): (x if isinstance(x, str) else str(x)) for k, x in (d or {}).items()} if isinstance(d, dict) else d


def plugin_effect_native(p, args):
    """reference semantics of an arbitrary plugin: run the plugin itself on a copy (plugins here are deterministic)."""
    a = copy.deepcopy(args)
    q = copy.copy(p)
    return asyncio.run(q.authenticate_request(a))


spec.UF_TABLE["plugin_effect"] = plugin_effect_native


def header_text_ref(v):
    """reference (OpenAPI style `simple`): text as it is, booleans as true / false, numbers in decimal, arrays comma-separated"""
    if isinstance(v, str):
        return v
    if isinstance(v, bool):
        return "true" if v else "false"
    if isinstance(v, (list, tuple)):
        return ",".join(header_text_ref(x) for x in v)
    return str(v)


spec.UF_TABLE["fn.header_text"] = header_text_ref
spec.UF_TABLE["fn.header_texts"] = lambda d: {k: header_text_ref(v) for k, v in d.items()}


def make_plugin(kind, f):
    from pyopenapi_gen.core.auth.plugins import ApiKeyAuth, BearerAuth, HeadersAuth
    if kind == "bearer":
        return BearerAuth(f.get("token", "t"))
    if kind == "headers":
        return HeadersAuth(strmap(f.get("headers", {})))
    if kind == "apikey":
        return ApiKeyAuth(f.get("key", "k"), f.get("location", "header"), f.get("name", "X-API-Key"))
    raise KeyError(kind)


class ParamsPlugin:
    """a third-party plugin that authenticates through query and cookie (arbitrary BaseAuth implementation)"""

    def __init__(self, tag="s"):
        self.tag = tag

    async def authenticate_request(self, request_args):
        p = dict(request_args.get("params", {}) or {})
        p["sig"] = self.tag
        request_args["params"] = p
        h = dict(request_args.get("headers", {}) or {})
        h["X-Signed"] = self.tag
        request_args["headers"] = h
        return request_args


def run_transport_request(defaults, bearer, auth, method, url, kwargs, status):
    """-> (MonitorResult of HttpxTransport.request's contract)"""
    from pyopenapi_gen.core.http_transport import HttpxTransport
    c = pc.REGISTRY["pyopenapi_gen.core.http_transport:HttpxTransport.request"]
    t = HttpxTransport("https://example.invalid", auth=auth, bearer_token=bearer, default_headers=defaults)
    log = []

    async def fake_request(m, u, **kw):
        resp = httpx.Response(status, text="body", request=httpx.Request(m, "https://example.invalid" + u))
        log.append(("self._client.request", (m, u), dict(kw), resp))
        return resp
    t._client.request = fake_request  # the dependency boundary
    kw = copy.deepcopy(kwargs)
    bound = {"self": t, "method": method, "url": url, "kwargs": kw}

    def call():
        async def go():
            try:
                return await t.request(method, url, **kw)
            finally:
                await t._client.aclose()
        return asyncio.run(go())
    # `kwargs` inside request is a fresh dict built from **kw: `old.kwargs` is what the caller passed
    return monitor.run_contract(c, call, bound, call_log=log), log


def run_plugin(plugin, qual, request_args):
    c = pc.REGISTRY[qual]
    ra = copy.deepcopy(request_args)
    bound = {"self": plugin, "request_args": ra}
    return monitor.run_contract(c, lambda: asyncio.run(plugin.authenticate_request(ra)), bound)
