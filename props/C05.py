"""C05 — response fidelity: declared success bodies come back as typed values."""
from __future__ import annotations

import ast
import json
import os
import shutil
import textwrap

from props import emitted, pkgcheck

ID = "C05"
LEVEL = "other"
CONTRACT_MODULES = ["contracts.responses", "contracts.streaming"]
EXPLANATION = ("Proved: the two primary-response selectors (ResponseStrategyResolver._get_primary_response builds the signature, "
               "endpoint_utils._get_primary_response the status dispatch) both return the response with the best status priority, for every list of "
               "responses — hence they agree, whatever the order of the entries (loop invariants, quantified priority spec); the streaming helpers "
               "yield exactly the spec function of the line sequence (shared with C18). Per corpus package, every declared 2xx response is matched "
               "with the decoding expression of its `case` arm (exact syntactic classification), and a generated client is driven through a mock "
               "transport with conforming bodies.")
TRUSTED = ["cattrs decodes conforming bodies into the annotated models (C03/C16, dependency)", "classification of decoding expressions is syntactic"]


def _kind_of_media(ct, content):
    if ct in ("text/event-stream",):
        return "sse"
    if ct in ("application/x-ndjson", "application/jsonl"):
        return "ndjson"
    if ct == "application/octet-stream":
        return "bytes"
    if ct == "application/json" or ct.endswith("+json"):
        sch = (content[ct] or {}).get("schema") or {}
        return "other" if (sch.get("type") == "string" and sch.get("format") == "binary") else "json"
    if ct.startswith("text/"):
        return "text"
    return "other"


def _multi_content_problems(arm_src, content):
    """several content types on one response: every declared non-binary content type is decoded by its own kind in a branch selected by the
    Content-Type header (the last one may be the fallback `else`). Responses that include a binary type are delivered as a byte stream: not judged."""
    kinds = {ct: _kind_of_media(ct, content) for ct in content}
    if any(k in ("bytes", "other", "sse", "ndjson") for k in kinds.values()):
        return None
    try:
        tree = ast.parse(arm_src)
    except SyntaxError:
        return ["arm does not parse"]
    branches, fallback = {}, None
    for node in ast.walk(tree):
        if isinstance(node, ast.If) and isinstance(node.test, ast.Compare) and isinstance(node.test.left, ast.Name) and node.test.left.id == "content_type":
            comp = node.test.comparators[0]
            if isinstance(comp, ast.Constant):
                branches[comp.value] = _kind_of_arm("\n".join(ast.unparse(x) for x in node.body))
            if node.orelse and not (len(node.orelse) == 1 and isinstance(node.orelse[0], ast.If)):
                fallback = _kind_of_arm("\n".join(ast.unparse(x) for x in node.orelse))
    if not branches:
        return ["no dispatch on the Content-Type header"]
    out = []
    missing = [ct for ct in kinds if ct.lower() not in branches]
    for ct, k in kinds.items():
        got = branches.get(ct.lower())
        if got is None:
            if len(missing) == 1 and fallback is not None:
                got = fallback
            else:
                out.append(f"{ct}: no branch")
                continue
        if got != k:
            out.append(f"{ct}: declared {k}, decoded as {got}")
    return out


def _expected_kind(resp):
    content = resp.get("content") or {}
    if not content:
        return "none"
    cts = list(content)
    if len(cts) > 1:
        return "multi"
    ct = cts[0]
    if ct in ("text/event-stream",):
        return "sse"
    if ct in ("application/x-ndjson", "application/jsonl"):
        return "ndjson"
    if ct == "application/octet-stream":
        return "bytes"
    if ct == "application/json" or ct.endswith("+json"):
        sch = (content[ct] or {}).get("schema") or {}
        if sch.get("type") == "string" and sch.get("format") == "binary":
            # `format: binary` under a JSON media type is self-contradictory; the statement only speaks of bodies conforming to the declared
            # schema, and delivering the raw bytes sent satisfies it as well as decoding JSON would: not judged
            return "other"
        return "json"
    if ct.startswith("text/"):
        return "text"
    return "other"


def _kind_of_arm(body_src):
    if "iter_sse" in body_src:
        return "sse"
    if "iter_ndjson" in body_src:
        return "ndjson"
    if "iter_bytes" in body_src or "response.content" in body_src:
        return "bytes"
    if "response.json()" in body_src:
        return "json"
    if "response.text" in body_src:
        return "text"
    if "return None" in body_src or body_src.strip() == "return":
        return "none"
    return "other"


def bounded_case_arms(tier, seed):
    import os
    from props import corpus_run, pkgcheck
    base, gens = corpus_run.generate_corpus(tier, seed)
    n, failures = 0, []
    try:
        for g in gens:
            if g.error:
                continue
            for f_, ln_, name_ in pkgcheck.unbound_names(g):
                if "/endpoints/" in f_.replace(os.sep, "/") or f_.replace(os.sep, "/").endswith("client.py"):
                    failures.append({"id": f"bounded:unbound-name:{g.name.split('@')[0]}:{os.path.basename(f_)}:{name_}",
                                     "detail": f"{g.name}: {f_}:{ln_} uses `{name_}`, which nothing in that module binds (NameError when the call reaches it)", "input": {"shape": g.name}})
            pairs, _ = emitted.match_ops(g)
            for em, o in pairs:
                arms = {}
                for m in [x for x in ast.walk(em.fn) if isinstance(x, ast.Match)]:
                    for case in m.cases:
                        if isinstance(case.pattern, ast.MatchValue) and isinstance(case.pattern.value, ast.Constant):
                            arms[str(case.pattern.value.value)] = "\n".join(ast.unparse(s) for s in case.body)
                for code, resp in o["responses"].items():
                    if not (code.isdigit() and code.startswith("2")):
                        continue
                    n += 1
                    if isinstance(resp, dict) and isinstance(resp.get("$ref"), str) and resp["$ref"].startswith("#/components/responses/"):
                        resp = ((g.doc.get("components") or {}).get("responses") or {}).get(resp["$ref"].rsplit("/", 1)[1], resp)  # a shared response object
                    want = _expected_kind(resp)
                    if code not in arms:
                        failures.append({"id": f"bounded:case-arm:{g.name.split('@')[0]}:{o['method']} {o['path']}:{code}:missing",
                                         "detail": f"{g.name}: no `case {code}:` arm in {em.cls.name}.{em.fn.name}", "input": {"shape": g.name}})
                        continue
                    if want == "multi":
                        probs = _multi_content_problems(arms[code], resp.get("content") or {})
                        for pr in probs or []:
                            failures.append({"id": f"bounded:case-arm:{g.name.split('@')[0]}:{o['method']} {o['path']}:{code}:multi-content:{pr.split(':')[0]}",
                                             "detail": f"{g.name}: {em.cls.name}.{em.fn.name} case {code}: {pr}", "input": {"shape": g.name}})
                        continue
                    got = _kind_of_arm(arms[code])
                    if want in ("json", "none", "text", "bytes", "sse", "ndjson") and got != want:
                        failures.append({"id": f"bounded:case-arm:{g.name.split('@')[0]}:{o['method']} {o['path']}:{code}:{want}-as-{got}",
                                         "detail": f"{g.name}: {em.cls.name}.{em.fn.name} case {code}: declared {want}, decoded as {got}: {arms[code][:120]}", "input": {"shape": g.name}})
    finally:
        corpus_run.cleanup(base)
    return {"function": "declared 2xx responses vs. the decoding expression of their `case` arm in the emitted method", "backend": "bounded exact comparison",
            "bound": f"{len(gens)} corpus packages; {n} declared 2xx responses", "evaluations": n, "distinct_nontrivial": n, "exhaustive": False, "failures": failures}


def bounded_runtime(tier, seed):
    """drive a generated client through httpx.MockTransport with conforming bodies for every declared 2xx response, in every listing order"""
    from props import corpus as C, gen_harness as G
    pet = {"id": 7, "name": "Tom", "tag-name": "t", "born": "2020-01-02"}
    rec = {"code": 1, "message": "m"}
    failures, n = [], 0
    for order in (["200", "201", "202", "400"], ["400", "202", "201", "200"], ["201", "200", "202", "400"]):
        resp = {"200": C.resp_json(C.ref("Pet")), "201": C.resp_json(C.ref("Err"), "created"), "202": {"description": "later"}, "400": {"description": "bad"}}
        d = C.doc("RT", [C.op("/m", "put", "upsert", ["m"], None, C.body_json(C.ref("NewPet")), {k: resp[k] for k in order}),
                         C.op("/l", "get", "listPets", ["m"], responses={"200": C.resp_json({"type": "array", "items": C.ref("Pet")})})], C.BASE_SCHEMAS)
        root = G.scratch("c05")
        try:
            if G.generate(d, root, "rt") is not None:
                continue
            code = textwrap.dedent('''
                import asyncio, json, httpx
                from rt.client import APIClient
                from rt.core.config import ClientConfig
                from rt.core.http_transport import HttpxTransport
                from rt.core.cattrs_converter import unstructure_to_dict
                from rt.models.new_pet import NewPet
                pet, rec = json.loads(%r), json.loads(%r)
                state = {}
                def handler(req):
                    sc = state["status"]
                    if state["body"] is None:
                        return httpx.Response(sc)
                    return httpx.Response(sc, json=state["body"])
                async def main():
                    t = HttpxTransport("https://x.invalid")
                    t._client = httpx.AsyncClient(base_url="https://x.invalid", transport=httpx.MockTransport(handler))
                    c = APIClient(ClientConfig(base_url="https://x.invalid"), transport=t)
                    for sc, body, cls in ((200, pet, "Pet"), (201, rec, "Err"), (202, None, None)):
                        state.update(status=sc, body=body)
                        r = await c.m.upsert(body=NewPet(name="n"))
                        if body is None:
                            assert r is None, (sc, r)
                        else:
                            assert type(r).__name__ == cls, (sc, type(r).__name__, cls)
                            back = unstructure_to_dict(r)
                            assert all(back.get(k) == v for k, v in body.items()), (sc, body, back)
                    state.update(status=200, body=[pet, pet])
                    r = await c.m.list_pets()
                    assert isinstance(r, list) and len(r) == 2 and type(r[0]).__name__ == "Pet", r
                asyncio.run(main())
            ''') % (json.dumps(pet), json.dumps(rec))
            ok, out = G.import_modules(root, ["rt.client"], extra_code=code)
            n += 4
            if not ok:
                failures.append({"id": f"bounded:runtime-2xx:{'-'.join(order)}", "detail": out[-500:], "input": {"responses order": order}})
        finally:
            shutil.rmtree(root, ignore_errors=True)
    return {"function": "generated client driven through httpx.MockTransport: typed value per declared 2xx status, re-serialisation equals the body", "backend": "bounded",
            "bound": "1 document x 3 listing orders of its responses; 4 calls each", "evaluations": n, "distinct_nontrivial": n, "exhaustive": False, "failures": failures}


def bounded_runtime_kinds(tier, seed):
    """response kinds through a real generated client: discriminated unions whose variants overlap (every payload must come back as ITS variant with all
    its keys), arrays / maps of models, enums, primitives (falsy values included), nested optional structures"""
    from props import corpus as C, gen_harness as G
    P = C.PRIMS
    R = C.ref
    schemas = dict(C.BASE_SCHEMAS,
                   Cat=C.obj({"petType": P["str"], "name": P["str"], "lives": P["int"]}, ["petType", "name"]),
                   Dog=C.obj({"petType": P["str"], "name": P["str"], "packSize": P["int"], "bark": P["bool"]}, ["petType", "name"]),
                   Bird=C.obj({"petType": P["str"], "name": P["str"], "wingspan": P["int"]}, ["petType", "name"]),
                   Animal={"oneOf": [R("Cat"), R("Dog"), R("Bird")], "discriminator": {"propertyName": "petType", "mapping": {
                       "cat": "#/components/schemas/Cat", "dog": "#/components/schemas/Dog", "bird": "#/components/schemas/Bird"}}},
                   Color={"type": "string", "enum": ["red", "dark-green", ""]},
                   Priority={"type": "integer", "enum": [0, 1, 2]},
                   Full=C.obj({"title": P["str"], "rows": {"type": "array", "items": P["int"]}}, ["title", "rows"]),
                   Summary=C.obj({"total": P["int"], "note": P["str"]}, ["total"]),
                   Zoo=C.obj({"star": R("Animal"), "all": {"type": "array", "items": R("Animal")}, "byName": {"type": "object", "additionalProperties": R("Animal")}, "tint": R("Color")}, ["star"]))
    ops = [C.op("/animal", "get", "getAnimal", ["k"], responses={"200": C.resp_json(R("Animal")), "203": C.resp_json(R("Animal"))}),
           C.op("/animals", "get", "listAnimals", ["k"], responses={"200": C.resp_json({"type": "array", "items": R("Animal")})}),
           C.op("/zoo", "get", "getZoo", ["k"], responses={"200": C.resp_json(R("Zoo"))}),
           C.op("/pets", "get", "mapPets", ["k"], responses={"200": C.resp_json({"type": "object", "additionalProperties": R("Pet")})}),
           C.op("/color", "get", "getColor", ["k"], responses={"200": C.resp_json(R("Color")), "201": C.resp_json(R("Color"))}),
           C.op("/priority", "get", "getPriority", ["k"], responses={"200": C.resp_json(R("Priority"))}),
           C.op("/colors", "get", "listColors", ["k"], responses={"200": C.resp_json({"type": "array", "items": R("Color")})}),
           # formatted strings as the whole body: the annotated return type is the Python type of the format
           C.op("/when", "get", "getWhen", ["k"], responses={"200": C.resp_json(P["datetime"])}),
           C.op("/day", "get", "getDay", ["k"], responses={"200": C.resp_json(P["date"])}),
           C.op("/ident", "get", "getIdent", ["k"], responses={"200": C.resp_json(P["uuid"])}),
           # several JSON-family media types with DIFFERENT schemas on one response: the Content-Type of the answer selects the schema
           C.op("/report", "get", "getReport", ["k"], responses={"200": {"description": "ok", "content": {
               "application/json": {"schema": R("Full")}, "application/vnd.acme.summary+json": {"schema": R("Summary")}, "application/vnd.acme.v2+json": {"schema": R("Full")}}}}),
           C.op("/count", "get", "getCount", ["k"], responses={"200": C.resp_json(P["int"])}),
           C.op("/flag", "get", "getFlag", ["k"], responses={"200": C.resp_json(P["bool"])}),
           C.op("/text", "get", "getText", ["k"], responses={"200": C.resp_json(P["str"])})]
    d = C.doc("RK", ops, schemas)
    cat = {"petType": "cat", "name": "Tom", "lives": 9}
    dog = {"petType": "dog", "name": "Rex", "packSize": 3, "bark": False}
    bird = {"petType": "bird", "name": "Io", "wingspan": 0}
    pet = {"id": 7, "name": "Tom", "tag-name": "t", "born": "2020-01-02"}
    cases = [("get_animal", 200, cat, "Cat"), ("get_animal", 200, dog, "Dog"), ("get_animal", 200, bird, "Bird"), ("get_animal", 203, dog, "Dog"),
             ("list_animals", 200, [bird, dog, cat], None), ("get_zoo", 200, {"star": dog, "all": [cat, bird], "byName": {"x": bird, "y": dog}, "tint": ""}, "Zoo"),
             ("map_pets", 200, {"a": pet}, None), ("get_color", 200, "dark-green", "Color"), ("get_color", 200, "", "Color"), ("get_color", 201, "red", "Color"),
             ("get_priority", 200, 0, "Priority"), ("get_priority", 200, 2, "Priority"), ("list_colors", 200, ["red", ""], None),
             ("get_when", 200, "2024-01-02T03:04:05+00:00", "datetime"), ("get_day", 200, "2024-01-02", "date"), ("get_ident", 200, "12345678-1234-5678-1234-567812345678", "UUID"),
             ("get_report", 200, {"title": "t", "rows": [1, 0]}, "Full", "application/json"), ("get_report", 200, {"total": 0, "note": "n"}, "Summary", "application/vnd.acme.summary+json"),
             ("get_report", 200, {"title": "t2", "rows": []}, "Full", "application/vnd.acme.v2+json; charset=utf-8"), ("get_count", 200, 0, None),
             ("get_flag", 200, False, None), ("get_text", 200, "", None)]
    failures, n = [], 0
    root = G.scratch("c05k")
    try:
        err = G.generate(d, root, "rk")
        if err is not None:
            return {"function": "response kinds at run time", "backend": "bounded", "bound": "generation failed", "evaluations": 0, "distinct_nontrivial": 0, "exhaustive": False,
                    "failures": [{"id": "bounded:runtime-kinds:generation", "detail": f"{type(err).__name__}: {err}"[:300], "input": {}}]}
        code = textwrap.dedent('''
            import asyncio, json, httpx
            from rk.client import APIClient
            from rk.core.config import ClientConfig
            from rk.core.http_transport import HttpxTransport
            from rk.core.utils import DataclassSerializer
            cases = json.loads(%r)
            state = {}
            def handler(req):
                return httpx.Response(state["status"], content=json.dumps(state["body"]).encode("utf-8"), headers={"content-type": state.get("ctype") or "application/json"})
            def norm(x):
                if isinstance(x, dict):
                    return {k: norm(v) for k, v in x.items() if v is not None}
                if isinstance(x, list):
                    return [norm(v) for v in x]
                return x
            async def main():
                t = HttpxTransport("https://x.invalid")
                t._client = httpx.AsyncClient(base_url="https://x.invalid", transport=httpx.MockTransport(handler))
                c = APIClient(ClientConfig(base_url="https://x.invalid"), transport=t)
                bad = []
                for case in cases:
                    meth, sc, body, cls = case[:4]
                    state.update(status=sc, body=body, ctype=(case[4] if len(case) > 4 else None))
                    try:
                        r = await getattr(c.k, meth)()
                        back = json.loads(json.dumps(DataclassSerializer.serialize(r)))
                        if cls is not None and type(r).__name__ != cls:
                            bad.append((meth, sc, body, "returned " + type(r).__name__ + ", expected " + cls))
                        elif norm(back) != norm(body):
                            bad.append((meth, sc, body, "re-serialised as " + json.dumps(back)))
                    except Exception as e:
                        bad.append((meth, sc, body, type(e).__name__ + ": " + str(e)[:120]))
                print("RESULT " + json.dumps(bad))
            asyncio.run(main())
        ''') % json.dumps(cases)
        ok, out = G.import_modules(root, ["rk.client"], extra_code=code)
        n = len(cases)
        line = next((l for l in out.splitlines() if l.startswith("RESULT ")), None)
        if not ok or line is None:
            failures.append({"id": "bounded:runtime-kinds:harness", "detail": out[-500:], "input": {}})
        else:
            for meth, sc, body, why in json.loads(line[7:]):
                kind = "union" if "animal" in meth or "zoo" in meth else ("media-type" if meth == "get_report" else ("formatted-leaf" if meth in ("get_when", "get_day", "get_ident") else "scalar-or-container"))
                failures.append({"id": f"bounded:runtime-kinds:{meth}:{kind}:{(body.get('petType') if isinstance(body, dict) else type(body).__name__)}",
                                 "detail": f"{meth} answering {sc} with {json.dumps(body)[:160]}: {why}"[:500], "input": {"method": meth, "status": sc, "body": body}})
    finally:
        shutil.rmtree(root, ignore_errors=True)
    return {"function": "generated client through httpx.MockTransport: discriminated unions with overlapping variants (primary and secondary 2xx, nested in arrays / maps / "
                        "objects), maps and arrays of models, enums, falsy primitives — returned variant and re-serialisation", "backend": "bounded",
            "bound": f"1 document, {len(cases)} (operation, status, body) cases", "evaluations": n, "distinct_nontrivial": n, "exhaustive": False, "failures": failures}


BOUNDED = [bounded_case_arms, bounded_runtime, bounded_runtime_kinds]
WITNESS = {"F-C05-text-plain-as-json": lambda k: any(":text-as-json" in f["id"] for f in bounded_case_arms("quick", 0)["failures"])}

MANIFEST = {
    "category": "other",
    "text": "Deductive: the signature-side and the dispatch-side primary-response selectors are each proved to pick the best-priority response for all "
            "response lists (so they agree); streaming helpers proved (C18 contracts). Structural: each declared 2xx response is decoded by the "
            "expression kind its content type demands, per corpus package. Runtime: typed values and re-serialisation through a mock transport.",
    "note": "Value-level decoding is cattrs (assumed). Known findings: a top-level date-time / date body is returned as text; operations of a tag spelled like a schema return raw dicts.",
    "technique": "contract-based deductive verification (loop invariants, quantified spec, z3) + bounded structural / runtime checks on emitted clients",
}


def _wk(sub):
    return lambda k: any(sub in f["id"] for f in bounded_case_arms("quick", 0)["failures"])


WITNESS.update({"F-C05-ndjson-decoded-as-sse": _wk(":ndjson-as-sse"), "F-C05-secondary-binary-as-json": _wk(":bytes-as-json")})


def _witness_top_level_date(k):
    """generate a client for one operation returning a date-time string and look at the emitted handler: it casts instead of structuring"""
    import shutil
    from props import corpus as C, gen_harness as G
    d = C.doc("W", [C.op("/when", "get", "getWhen", ["w"], responses={"200": C.resp_json(C.PRIMS["datetime"])})])
    root = G.scratch("c05w")
    try:
        if G.generate(d, root, "cli") is not None:
            return None
        src = open(os.path.join(root, "cli", "endpoints", "w.py"), encoding="utf-8").read()
        return "-> datetime" in src and "cast(datetime, response.json())" in src
    finally:
        shutil.rmtree(root, ignore_errors=True)


WITNESS["F-C05-top-level-date-returned-as-text"] = _witness_top_level_date
WITNESS["F-C05-tag-named-like-model"] = lambda k: any(":getPet" in f["id"] for f in bounded_tag_named_like_model("quick", 0)["failures"])


def bounded_streams(tier, seed):
    """streaming clause: the helpers used by generated streaming methods yield exactly the events / records sent (shared with C18)"""
    from props import C18
    r = C18.bounded_helpers_chunked(tier, seed)
    r["function"] = "streaming helpers against a reference decoder (shared with C18): " + r["function"]
    return r


BOUNDED.append(bounded_streams)


def bounded_random_documents(tier, seed):
    """every declared 2xx JSON / empty response of every operation of every random corpus document, through a real generated client"""
    from props import randrt
    return randrt.bounded("responses", tier, seed)


BOUNDED.append(bounded_random_documents)


def _tag_like_model_doc():
    from props import corpus as C
    return C.doc("TG", [C.op("/pet", "get", "getPet", ["pet"], responses={"200": C.resp_json(C.ref("Pet"))}),
                        C.op("/pets", "get", "listPets", ["pet"], responses={"200": C.resp_json({"type": "array", "items": C.ref("Pet")})}),
                        C.op("/err", "get", "getErr", ["Err"], responses={"200": C.resp_json(C.ref("Err")), "201": C.resp_json(C.ref("Pet"))})], C.BASE_SCHEMAS)


def bounded_tag_named_like_model(tier, seed):
    """a tag whose endpoint module has the same stem as a model's module (tag `pet`, schema `Pet`): the operations still return typed values"""
    from props import randrt
    r = randrt.run(_tag_like_model_doc(), parts=("responses",))
    failures = []
    if r.get("error"):
        failures.append({"id": "bounded:tag-like-model:harness", "detail": r["error"][-400:], "input": {}})
    for pr in r.get("problems", []):
        if pr["part"] == "responses":
            failures.append({"id": f"bounded:tag-like-model:{pr['kind']}:{pr.get('op')}", "detail": f"{pr.get('op')} {pr.get('case', '')}: {pr['detail']}"[:500],
                             "input": {"operation": pr.get("op"), "sent": pr.get("sent")}})
    n = (r.get("counts") or {}).get("responses", 0)
    return {"function": "generated client of a document whose tags are spelled like its schemas: returned class and re-serialisation of every 2xx response", "backend": "bounded",
            "bound": "1 document, 3 operations, 2 payload variants each", "evaluations": n, "distinct_nontrivial": n, "exhaustive": False, "failures": failures}


BOUNDED.append(bounded_tag_named_like_model)
