"""C15 document family: one OpenAPI document with a text-bearing position for every kind of free text the generator copies into code.
doc({position: text}) puts `text` at that position and the position's own benign text everywhere else."""
from __future__ import annotations

R = "#/components/schemas/"

# position -> (benign text, is the text a literal that carries meaning (must be recoverable as an exact string constant)?)
POSITIONS = {
    "info.title": ("Benign title", False),
    "info.description": ("benign text", False),
    "tag.description": ("benign text", False),
    "server.description": ("benign text", False),
    "op.summary": ("benign text", False),
    "op.description": ("benign text", False),
    "op.tag": ("benign-tag", False),
    "param.description": ("benign text", False),
    "query.name": ("benign-q", True),
    "header.name": ("X-Benign", True),
    "cookie.name": ("benign-c", False),
    "body.description": ("benign text", False),
    "response.description": ("benign text", False),
    "error.description": ("benign text", False),
    "request.media-type": ("application/vnd.benign+json", False),
    "schema.title": ("benign text", False),
    "schema.description": ("benign text", False),
    "prop.description": ("benign text", False),
    "prop.name": ("benign-name", True),
    "prop.default": ("benign text", True),
    "enum.description": ("benign text", False),
    "enum.value": ("benign-value", True),
    "alias.description": ("benign text", False),
    "union.description": ("benign text", False),
    "disc.value": ("benign-cat", True),
    "inline-enum.value": ("benign-inline", True),
    "array-item.description": ("benign text", False),
    "freeform.description": ("benign text", False),
    "map.description": ("benign text", False),
    "map-prop.description": ("benign text", False),
}


def doc(t: dict) -> dict:
    def g(k):
        return t.get(k, POSITIONS[k][0])
    return {
        "openapi": "3.0.3",
        "info": {"title": g("info.title"), "version": "1", "description": g("info.description")},
        "servers": [{"url": "https://api.example.test", "description": g("server.description")}],
        "tags": [{"name": "pets", "description": g("tag.description")}],
        "paths": {
            "/pets/{petId}": {
                "get": {"operationId": "getPet", "tags": ["pets"], "summary": g("op.summary"), "description": g("op.description"),
                        "parameters": [{"name": "petId", "in": "path", "required": True, "schema": {"type": "string"}, "description": g("param.description")},
                                       {"name": g("query.name"), "in": "query", "schema": {"type": "string"}, "description": "d"},
                                       {"name": "required_q", "in": "query", "required": True, "schema": {"type": "string"}},
                                       {"name": g("header.name"), "in": "header", "schema": {"type": "string"}},
                                       {"name": g("cookie.name"), "in": "cookie", "schema": {"type": "string"}}],
                        "responses": {"200": {"description": g("response.description"), "content": {"application/json": {"schema": {"$ref": R + "Pet"}}}},
                                      "404": {"description": g("error.description")}}},
                "put": {"operationId": "putPet", "tags": [g("op.tag")],
                        "parameters": [{"name": "petId", "in": "path", "required": True, "schema": {"type": "string"}}],
                        "requestBody": {"required": True, "description": g("body.description"), "content": {"application/json": {"schema": {"$ref": R + "Pet"}}}},
                        "responses": {"200": {"description": "ok", "content": {"application/json": {"schema": {"$ref": R + "Animal"}}}}}},
                "patch": {"operationId": "patchPet", "tags": ["pets"],
                          "parameters": [{"name": "petId", "in": "path", "required": True, "schema": {"type": "string"}}],
                          "requestBody": {"required": True, "content": {g("request.media-type"): {"schema": {"type": "object", "additionalProperties": True}}}},
                          "responses": {"204": {"description": "done"}}}}},
        "components": {"schemas": {
            "Pet": {"type": "object", "title": g("schema.title"), "description": g("schema.description"), "required": ["id"],
                    "properties": {"id": {"type": "string", "description": g("prop.description")},
                                   g("prop.name"): {"type": "string"},
                                   "motto": {"type": "string", "default": g("prop.default")},
                                   "mood": {"type": "string", "enum": ["calm", g("inline-enum.value")]},
                                   "kind": {"$ref": R + "Kind"}, "labels": {"$ref": R + "Labels"}, "bag": {"$ref": R + "Bag"}, "counts": {"$ref": R + "Counts"},
                                   "extras": {"type": "object", "additionalProperties": {"type": "string"}, "description": g("map-prop.description")}}},
            "Bag": {"type": "object", "additionalProperties": True, "description": g("freeform.description")},
            "Counts": {"type": "object", "additionalProperties": {"type": "integer"}, "description": g("map.description")},
            "Kind": {"type": "string", "description": g("enum.description"), "enum": ["plain", g("enum.value")]},
            "Labels": {"type": "array", "items": {"type": "string", "description": g("array-item.description")}, "description": g("alias.description")},
            "Cat": {"type": "object", "properties": {"petType": {"type": "string"}, "lives": {"type": "integer"}}, "required": ["petType"]},
            "Dog": {"type": "object", "properties": {"petType": {"type": "string"}, "bark": {"type": "boolean"}}, "required": ["petType"]},
            "Animal": {"oneOf": [{"$ref": R + "Cat"}, {"$ref": R + "Dog"}], "description": g("union.description"),
                       "discriminator": {"propertyName": "petType", "mapping": {g("disc.value"): R + "Cat", "dog": R + "Dog"}}}}}}


# hostile payload dictionary: name -> text
PAYLOADS = {
    "dq": 'say "hi"', "dq-end": 'ends with"', "dq-only": '"', "tq": 'a """ b', "tq-end": 'ends """', "tq-only": '"""', "q5": 'five """"" quotes',
    "sq": "it's", "sq3": "a ''' b", "sq3-end": "ends '''",
    "bs": 'a\\b', "bs-end": 'ends\\', "bs2-end": 'ends\\\\', "bs-dq": 'a\\"b', "bs-tq-end": 'x\\"""',
    "esc": '\\n\\t\\x41\\u0041\\N{BULLET}\\101', "nl": 'l1\nl2', "nl-end": 'ends\n', "cr": 'l1\rl2', "crlf": 'a\r\nb', "tab": 'a\tb',
    "vt": 'a\x0bb', "ff": 'a\x0cb', "fs": 'a\x1cb', "nel": 'a\x85b', "ls": 'a b', "ps": 'a b', "nul": 'a\x00b', "bel": 'a\x07b', "del": 'a\x7fb',
    "braces": '{x} {0} {{y}} }{', "pct": '%s %d %(a)s %', "hash": 'x # noqa: E501', "hash-nl": '#\nimport os',
    "inject": '"""\nimport os\nX = 1\n"""', "inject-sq": "'''\nimport os\n'''", "inject-code": '"; import os; x = "', "inject-cmt": 'text\n    pass\nclass Z: pass',
    "uni": 'é日本', "emoji": '😀', "rtl": 'a‮b', "zwsp": 'a​b', "bom": '﻿x', "combining": 'é', "nbsp": 'a b', "surrogate-free-astral": '\U0001f600\U00010348',
    "alnum-not-ident": 'area m² ½ ① ₂', "digits-first": "9lives ²",
    "long": "word " * 60, "ws-only": "   ", "lead-ws": "   lead", "colon": "Args: x: y", "keyword": "class", "dunder": "__init__", "digits": "123", "dot-slash": "../../etc/passwd",
}
QUICK = ["dq", "dq-end", "tq", "tq-end", "q5", "bs", "bs-end", "bs-dq", "esc", "nl", "cr", "crlf", "ff", "ls", "nul", "braces", "hash-nl", "inject", "inject-code", "uni", "emoji", "sq3", "alnum-not-ident"]
