"""C04 — request fidelity: what the caller passes is what goes on the wire."""
from __future__ import annotations

ID = "C04"
LEVEL = "other"
CONTRACT_MODULES = ["contracts.params", "contracts.textsplice", "contracts.auth", "contracts.transport", "contracts.serializer"]
EXPLANATION = ("For every operation of the shape corpus the EMITTED endpoint method is verified by pyvc against a contract computed from the raw "
               "OpenAPI document by an oracle written from the statement: exactly one transport.request call on every exit that follows it; "
               "method literal; URL = base_url + path with every {p} replaced by the serialised argument; query and header maps = exactly the "
               "entries {original name: serialised argument} of the supplied arguments (each optional argument symbolic: every subset at once); "
               "body keyword by content type. Proved for all argument values; bounded in the set of spec shapes (stated). Independently of shapes, the "
               "GENERATOR loops that emit those maps carry statement contracts (one arbitrary parameter): exactly one dict entry is written per query / "
               "header / cookie parameter, it contains the wire-name literal python_string_literal(original_name) and the serialised argument of that "
               "parameter — for every specification. What the emitted method hands to the transport then passes through the bundled transport and auth "
               "plugins unchanged except for the plugin's own contribution (contracts shared with C17: nothing of the caller's params / cookies / body is "
               "lost or moved to another location).")
TRUSTED = ["DataclassSerializer.serialize is an uninterpreted function of its argument in the emitted-code contracts; that serialize(None) is None and that "
           "str / int / bool arguments pass through unchanged is discharged on the real serializer under C16 (contracts/serializer.py: "
           "ser_scalars_unchanged, swt_scalars_unchanged); its behaviour on models and containers is C16's subject",
           "the oracle reads parameters/body straight from the raw document (no $ref'd parameters in the corpus)",
           "argument naming: parameters are matched to arguments through a reference snake-case derivation (naming itself is C20)"]


def EMITTED(tier, seed):
    from props import corpus_run, emitted
    base, gens = corpus_run.generate_corpus(tier, seed)
    try:
        r = emitted.verify_emitted(gens, "C04")
        r["bound"] = f"{len(gens)} generated packages of the shape corpus ({tier}); {r['methods']} emitted endpoint methods"
        r["generation_errors"] = [f"{g.name}: {g.error}" for g in gens if g.error]
        return r
    finally:
        corpus_run.cleanup(base)


def witness_cookie(k):
    """cookie parameter accepted in the signature and never sent"""
    from props import corpus_run, emitted
    base, gens = corpus_run.generate_corpus("quick", 0, only=["cookie-param"])
    try:
        r = emitted.verify_emitted(gens, "C04")
        return any(v["status"] == "refuted" for kk, v in r["results"].items() if "get_c" in kk)
    finally:
        corpus_run.cleanup(base)


WITNESS = {"F-C04-cookie-params-dropped": witness_cookie}


def bounded_random_documents(tier, seed):
    """run-time counterpart over the random corpus documents: every operation called through httpx.MockTransport with typed argument values (strings with
    reserved characters, integers, booleans, arrays), all arguments and required-only: one request, method, path, query, headers, JSON body"""
    from props import randrt
    return randrt.bounded("requests", tier, seed)


BOUNDED = [bounded_random_documents]

MANIFEST = {
    "category": "other",
    "text": "Deductive verification of the emitted request-building code itself, per operation shape: unbounded in run-time argument values "
            "(all values, every subset of optional arguments), bounded in the enumerated spec shapes. A generator change that drops the "
            "None-guard, keys an entry by the sanitised name, or sends a body under the wrong keyword fails a named obligation of a named shape.",
    "note": "Bounded in spec shapes (the corpus is listed in evidence). The serializer's scalar / visited-set laws, the auth plugins and the bundled transport are "
            "under contract (shared with C16 / C17); httpx itself and cattrs are dependencies. A run-time monitor drives every operation of the random documents.",
    "technique": "contract-based deductive verification of emitted code (pyvc + z3) against an oracle contract over an enumerated shape corpus + statement contracts on the generator's parameter loops + contracts on serializer / auth plugins / transport + bounded run-time monitor",
}


def _shared_replay():
    from props import C17
    return C17.REPLAY


REPLAY = _shared_replay()  # auth plugins / transport: the replay hooks of C17 (same contracts)
