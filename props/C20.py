"""C20 — name derivation is total, valid and collision-safe."""
from __future__ import annotations

import itertools
import keyword
import random
import re

ID = "C20"
LEVEL = "proof"
CONTRACT_MODULES = ["contracts.names", "contracts.decollision"]
EXPLANATION = ("NameSanitizer.sanitize_method_name (method, field and parameter names) is proved, for every input string, to return a non-empty "
               "ASCII identifier that is not a keyword: the regex pipeline is modelled by named axioms on re.sub / strip / lower / isdigit "
               "(assumed stdlib contracts, differential-tested against CPython on every run), keyword.iskeyword is exact, obligations are "
               "split per path and discharged by z3's string solver. The three de-collision loops (class names and module stems in "
               "ModelsEmitter.emit, field names in DataclassGenerator.generate, method names in EndpointsEmitter) are proved never to "
               "record a name that is already taken. Class/module/enum-member sanitisers are covered by the exhaustive bounded stand-in.")
TRUSTED = ["re / str axioms listed under assumptions (each differential-tested on 20 000 random strings per run)",
           "SMT-LIB strings cover code points <= 0x2FFFF"]
ALPHABET = ["a", "B", "1", "_", "-", " ", ".", "$", "{", "é", "²", "日"]
EXTRA_INPUTS = ["", "true", "false", "none", "True", "class", "import", "def", "1a", "type", "id", "async", "match", "__init__", "mro", "_", "__",
                "Ünï", "user-id", "user_id", "userId", "get_a", "AAA", "HTTPServer2XX", "a.b", "a b-c", "ÀÉ", "٣", "ǅ", "x" * 300]


def valid(r):
    return isinstance(r, str) and r.isidentifier() and not keyword.iskeyword(r)


def differential_axioms(tier, seed):
    """the assumed stdlib contracts used by the proofs, checked against CPython on random strings (a check of assumptions)"""
    rnd = random.Random(seed)
    chars = "abzAZ09_-${} .é²日\t\n\"'\\/ǅ٣"
    out, n = [], 0
    A = re.compile(r"[0-9a-zA-Z_]*\Z")
    L = re.compile(r"[0-9a-z_]*\Z")
    bad = []
    for _ in range(20000 if tier == "quick" else 200000):
        s = "".join(rnd.choice(chars) for _ in range(rnd.randint(0, 8)))
        n += 1
        r = re.sub(r"[^0-9a-zA-Z_]", "_", s)
        if not (A.match(r) and len(r) == len(s)):
            bad.append(("sub-nonalnum", s))
        if A.match(s):
            r2 = re.sub(r"_+", "_", s)
            if not A.match(r2) or (len(r2) == 0) != (len(s) == 0):
                bad.append(("sub-underscores", s))
            r3 = s.strip("_")
            if not A.match(r3) or r3.startswith("_") or r3.endswith("_") or len(r3) > len(s):
                bad.append(("strip", s))
            r4 = s.lower()
            if not L.match(r4) or len(r4) != len(s) or r4.startswith("_") != s.startswith("_"):
                bad.append(("lower", s))
        if len(s) == 1 and L.match(s) and s.isdigit() != bool(re.match(r"[0-9]\Z", s)):
            bad.append(("isdigit", s))
    if bad:
        return [{"id": "assumption:stdlib-axioms", "status": "fault", "detail": f"axiom contradicted by CPython: {bad[:3]}"}]
    return [{"id": "assumption:stdlib-axioms", "status": "holds", "detail": f"{n} random strings, 5 axiom families", "exhaustive": False}]


EXTRA = [differential_axioms]


def bounded_sanitizers(tier, seed):
    from pyopenapi_gen.core.utils import NameSanitizer as N
    from pyopenapi_gen.visit.model.enum_generator import EnumGenerator
    fns = {"sanitize_module_name": N.sanitize_module_name, "sanitize_class_name": N.sanitize_class_name, "sanitize_method_name": N.sanitize_method_name}
    try:
        eg = EnumGenerator.__new__(EnumGenerator)
        fns["enum_member(str)"] = lambda s: eg._generate_member_name_for_string_enum(s)
    except Exception:  # noqa
        pass
    L = 3 if tier == "quick" else 4
    n, failures, distinct = 0, [], set()
    inputs = ["".join(t) for k in range(L + 1) for t in itertools.product(ALPHABET, repeat=k)] + EXTRA_INPUTS
    for s in inputs:
        for nm, f in fns.items():
            n += 1
            try:
                r = f(s)
            except Exception as e:  # noqa
                failures.append({"id": f"bounded:{nm}:raises", "detail": f"{nm}({s!r}) raised {type(e).__name__}: {e}", "input": {"name": s}})
                continue
            distinct.add((nm, r))
            if not valid(r):
                failures.append({"id": f"bounded:{nm}:invalid", "detail": f"{nm}({s!r}) -> {r!r}", "input": {"name": s}})
        if len(failures) > 40:
            break
    return {"function": "NameSanitizer.sanitize_module_name / sanitize_class_name / sanitize_method_name, EnumGenerator member names", "backend": "exhaustive enumeration",
            "bound": f"all strings of length <= {L} over {ALPHABET!r} ({len(inputs) - len(EXTRA_INPUTS)}) + {len(EXTRA_INPUTS)} hand-picked", "evaluations": n,
            "distinct_nontrivial": len(distinct), "exhaustive": True, "failures": failures}


# value lists whose member names collide, are reserved by Enum itself, or collide only after a second renaming step
ENUMS = {"EDash": ["member-", "-"], "ESunder": ["member_id_", "_id_"], "EUnders": ["_", "__", "___"], "ECase": ["Red", "red", "RED", "r-e-d"],
         "EAffix": ["x", "X_", "x_", "_x", "-x"], "ENums": [1, -1, 10, 0], "EReserved": ["name", "value", "mro", "NAME"], "EDigits": ["1", "_1", "01", "1_"],
         "EValue": ["value-", "VALUE_1", "value_1"]}


def bounded_namespaces(tier, seed):
    """collision safety inside one namespace, end to end: colliding property / parameter / schema / enum-member / operation names in
    one generated package stay distinct, none dropped"""
    import ast
    import os
    from props import corpus_run, corpus, pkgcheck
    C = corpus
    props = ["user-id", "user_id", "userId", "user-id-2", "UserID", "1st", "class", "_x", "x"]
    params = ["page-size", "page_size", "pageSize"]
    d = C.doc("NS", [C.op("/ns", "get", "getNs", ["ns"], [C.param(p, "query") for p in params], responses={"200": C.resp_json(C.ref("Thing"))}),
                     C.op("/ns2", "get", "get_ns", ["ns"]), C.op("/ns3", "get", "get-ns", ["ns"]),
                     # colliding operation ids on operations whose tags are different SPELLINGS of one tag (one client class), and on an untagged one
                     C.op("/u1", "get", "get-user", ["Users"]), C.op("/u2", "get", "get_user", ["users"]), C.op("/u3", "get", "getUser", ["USERS"]),
                     C.op("/d1", "get", "list-it", None), C.op("/d2", "get", "list_it", ["Default"]),
                     # two schemas whose names give ONE class name, each used by an operation of its own
                     C.op("/fb1", "get", "getFb1", ["fb"], responses={"200": C.resp_json(C.ref("Foo-Bar"))}), C.op("/fb2", "get", "getFb2", ["fb"], responses={"200": C.resp_json(C.ref("foo_bar"))}),
                     C.op("/em1", "post", "postEm", ["fb"], None, C.body_json(C.ref("Email")), {"200": C.resp_json(C.ref("email"))})],
              {"Thing": C.obj({p: C.PRIMS["str"] for p in props}, ["user-id-2"]), "thing": C.obj({"a": C.PRIMS["str"]}), "THING": C.obj({"b": C.PRIMS["str"]}),
               "Foo-Bar": C.obj({"only_in_dashed": C.PRIMS["str"]}), "foo_bar": C.obj({"only_in_snake": C.PRIMS["int"]}),
               "Email": C.obj({"only_in_upper": C.PRIMS["str"]}), "email": C.obj({"only_in_lower": C.PRIMS["bool"]}),
               "Col": {"type": "string", "enum": ["a-b", "a b", "a_b", "A_B", "1", "-1", ""]}, **{k: {"type": ("integer" if isinstance(v[0], int) else "string"), "enum": v} for k, v in ENUMS.items()}})
    base = None
    failures, n = [], 0
    try:
        from props import gen_harness as G
        base = G.scratch("c20")
        err = G.generate(d, base, "nsp")
        n = 1
        if err is not None:
            return {"function": "namespace collisions end to end", "backend": "bounded", "bound": "1 document", "evaluations": 1, "distinct_nontrivial": 1, "failures": []}
        mdir = os.path.join(base, "nsp", "models")
        thing = [f for f in os.listdir(mdir) if f.startswith("thing") and f.endswith(".py")]
        if len(thing) != 3:
            failures.append({"id": "bounded:namespace:schemas", "detail": f"schemas Thing/thing/THING -> files {thing}", "input": {}})
        for f in thing:
            tree = pkgcheck.parse(os.path.join(mdir, f))
            for cls in [c for c in tree.body if isinstance(c, ast.ClassDef)]:
                flds = [x.target.id for x in cls.body if isinstance(x, ast.AnnAssign) and isinstance(x.target, ast.Name)]
                if len(flds) != len(set(flds)):
                    failures.append({"id": "bounded:namespace:fields", "detail": f"{cls.name}: duplicate fields {flds}", "input": {}})
                if any(set(props) <= set() for _ in [0]):
                    pass
                if len(flds) == len(props) or len(flds) in (1,):
                    continue
                if cls.name.lower().startswith("thing") and len(flds) not in (1, len(props)):
                    failures.append({"id": "bounded:namespace:fields-dropped", "detail": f"{cls.name}: {len(flds)} fields for {len(props)} properties: {flds}", "input": {}})
        # referenced schemas with colliding class names: each keeps a class of its own (its marker field is found in exactly one class, the classes differ)
        owners = {}
        for f in sorted(os.listdir(mdir)):
            if f.endswith(".py") and f != "__init__.py":
                for cls in [c for c in pkgcheck.parse(os.path.join(mdir, f)).body if isinstance(c, ast.ClassDef)]:
                    for x in cls.body:
                        if isinstance(x, ast.AnnAssign) and isinstance(x.target, ast.Name) and x.target.id.startswith("only_in_"):
                            owners.setdefault(x.target.id, []).append(f"{f}:{cls.name}")
        for a, b in (("only_in_dashed", "only_in_snake"), ("only_in_upper", "only_in_lower")):
            oa, ob = owners.get(a, []), owners.get(b, [])
            # (a schema emitted twice under two class names is C02's "exactly one model", not judged here: each schema needs SOME class no other schema shares)
            if not oa or not ob or set(oa) & set(ob) or {x.split(":")[1] for x in oa} & {x.split(":")[1] for x in ob}:
                failures.append({"id": f"bounded:namespace:referenced-schemas-merge:{a[8:]}-{b[8:]}", "detail": f"marker fields {a} in {oa}, {b} in {ob}: the two schemas do not each have a class of their own",
                                 "input": {"schemas": [a, b]}})
        ep = pkgcheck.parse(os.path.join(base, "nsp", "endpoints", "ns.py"))
        for cls in [c for c in ep.body if isinstance(c, ast.ClassDef) and not c.name.endswith("Protocol")]:
            for fn in [x for x in cls.body if isinstance(x, ast.AsyncFunctionDef) and x.name == "get_ns"]:
                args = [a.arg for a in fn.args.args[1:]]
                if len(args) != len(set(args)) or len(args) != len(params):
                    failures.append({"id": "bounded:namespace:parameters", "detail": f"parameters {params} -> arguments {args}", "input": {}})
        # every operation of the document is a distinct public coroutine of exactly one class per tag client (no `def` replaced by a later one)
        want = {"users": 3, "default": 2, "ns": 3}
        edir = os.path.join(base, "nsp", "endpoints")
        for f in sorted(os.listdir(edir)):
            if not f.endswith(".py") or f == "__init__.py":
                continue
            for cls in [c for c in pkgcheck.parse(os.path.join(edir, f)).body if isinstance(c, ast.ClassDef) and not c.name.endswith("Protocol")]:
                names = [x.name for x in cls.body if isinstance(x, ast.AsyncFunctionDef) and not x.name.startswith("_")]
                key = f[:-3]
                if len(names) != len(set(names)):
                    failures.append({"id": "bounded:namespace:operations-collapse", "detail": f"{cls.name}: method names {names} (a later definition replaces an earlier one)", "input": {"module": f}})
                elif key in want and len(set(names)) != want[key]:
                    failures.append({"id": "bounded:namespace:operations-missing", "detail": f"{cls.name}: {len(set(names))} methods {sorted(set(names))} for {want[key]} operations", "input": {"module": f}})
        # every enum: one member per declared value, each value recoverable, in a fresh interpreter (duplicate or reserved member names fail at import)
        import json as _json
        from pyopenapi_gen.core.utils import NameSanitizer as _NS
        plan = [[k, _NS.sanitize_module_name(k), _NS.sanitize_class_name(k), v] for k, v in dict(ENUMS, Col=["a-b", "a b", "a_b", "A_B", "1", "-1", ""]).items()]
        code = ("import json, importlib\nbad = []\nfor name, mod, cls, values in json.loads(%r):\n"
                "    try:\n        E = getattr(importlib.import_module('nsp.models.' + mod), cls)\n        got = [m.value for m in E]\n"
                "        if sorted(map(str, got)) != sorted(map(str, values)) or len(got) != len(values):\n            bad.append([name, 'members ' + repr(got)])\n"
                "        for v in values:\n            if E(v).value != v: bad.append([name, 'lookup ' + repr(v)])\n"
                "    except Exception as e:\n        bad.append([name, type(e).__name__ + ': ' + str(e)[:160]])\nprint('RESULT ' + json.dumps(bad))\n") % _json.dumps(plan)
        ok, out = G.import_modules(base, [], extra_code=code)
        n += len(plan)
        line = next((l for l in out.splitlines() if l.startswith("RESULT ")), None)
        if line is None:
            failures.append({"id": "bounded:namespace:enum-members:harness", "detail": out[-400:], "input": {}})
        else:
            for name, why in _json.loads(line[7:]):
                failures.append({"id": f"bounded:namespace:enum-members:{name}", "detail": f"enum {name} {ENUMS.get(name)}: {why}", "input": {"enum": name, "values": ENUMS.get(name)}})
    finally:
        if base:
            import shutil
            shutil.rmtree(base, ignore_errors=True)
    return {"function": "generate_client on a document with colliding property / parameter / schema / operation / enum-member names", "backend": "bounded",
            "bound": "1 hand-built document (9 colliding properties, 3 parameters, 3 schemas, 8 operations incl. colliding ids across tag spellings)", "evaluations": n, "distinct_nontrivial": 2, "failures": failures}


BOUNDED = [bounded_sanitizers, bounded_namespaces]

MANIFEST = {
    "category": "proof",
    "text": "For all strings: sanitize_method_name returns a non-empty non-keyword ASCII identifier (per-path string obligations, z3); for all "
            "inputs the de-collision loops never record a taken name. The remaining sanitisers are decided exhaustively up to the stated bound.",
    "note": "The regex/str primitives are assumed stdlib contracts (axioms differential-tested every run). sanitize_class_name / sanitize_module_name / enum "
            "member names are only bounded (their token pipeline needs quantified sequence reasoning). sanitize_tag_attr_name / sanitize_tag_class_name are "
            "dead code in the generator and not claimed.",
    "technique": "contract-based deductive verification (string theory, per-path VCs, z3; site assertions) + exhaustive bounded enumeration",
}


def _w(idx):
    def w(k):
        r = bounded_namespaces("quick", 0)
        return any(f["id"] == idx for f in r["failures"])
    return w


WITNESS = {"F-C20-schema-names-merge": _w("bounded:namespace:schemas"), "F-C20-parameter-names-collide": _w("bounded:namespace:parameters")}
