"""C12 — generated clients are self-contained (no dependency on the generator)."""
from __future__ import annotations

import ast
import os
import re

from props import pkgcheck

ID = "C12"
LEVEL = "other"
CONTRACT_MODULES = ["contracts.core_emit"]
SRC = "/repo/src/pyopenapi_gen"
EXPLANATION = ("CoreEmitter.emit is proved to write, for each RUNTIME_FILES entry, exactly the text it read from the packaged file (so what is "
               "verified about the runtime modules applies to every client). Three finite, exhaustive censuses over the current source tree: "
               "every Import/ImportFrom node (top-level, nested, under TYPE_CHECKING) of the 8 runtime files; every string literal of the "
               "generator that is import-statement text; every call site of an import sink with its module argument. The bounded stand-in "
               "imports every corpus package in a fresh interpreter with the generator blocked and scans every emitted file.")
TRUSTED = ["importlib.resources reads the packaged file; FileManager.write_file writes the given text unchanged (opaque)",
           "data-dependent import-sink call sites (module taken from a resolved type or schema) are listed, not proved"]
ALLOWED_TOP = pkgcheck.STDLIB | pkgcheck.ALLOWED_THIRD


def runtime_files():
    from pyopenapi_gen.emitters.core_emitter import RUNTIME_FILES
    return [(m, f) for m, f, _ in RUNTIME_FILES]


def census_runtime_imports(tier, seed):
    out = []
    n = 0
    for mod, fn in runtime_files():
        path = os.path.join("/repo/src", *mod.split("."), fn)
        tree = pkgcheck.parse(path)
        for m, level, ln in pkgcheck.imports_of(tree):
            n += 1
            if level:
                continue
            top = m.split(".")[0]
            if top in ALLOWED_TOP or top == "__future__":
                continue
            out.append({"id": f"census:runtime-imports:{fn}:{m}", "status": "violated", "detail": f"{mod}/{fn}:{ln} imports {m}", "witness": {"file": fn, "line": ln, "module": m}})
    out.append({"id": "census:runtime-imports", "status": "holds" if not out else "violated", "detail": f"{n} import nodes in {len(runtime_files())} runtime files", "exhaustive": True})
    return out


IMPORT_TEXT = re.compile(r"^\s*(from\s+([A-Za-z_][\w.]*)\s+import\s|import\s+([A-Za-z_][\w.]*))")


def census_template_literals(tier, seed):
    """every string constant of the generator (visit/, emitters/, core/writers/, generator/, helpers/, types/, context/) that is
    import-statement text names an allowed module"""
    out, n = [], 0
    for sub in ("visit", "emitters", "core/writers", "generator", "helpers", "types", "context"):
        for dp, _, fs in os.walk(os.path.join(SRC, sub)):
            for f in fs:
                if not f.endswith(".py"):
                    continue
                p = os.path.join(dp, f)
                tree = pkgcheck.parse(p)
                for node in ast.walk(tree):
                    parts = []
                    if isinstance(node, ast.Constant) and isinstance(node.value, str):
                        parts = node.value.splitlines()
                    for line in parts:
                        m = IMPORT_TEXT.match(line)
                        if not m:
                            continue
                        n += 1
                        mod = m.group(2) or m.group(3)
                        top = mod.split(".")[0]
                        if top in ALLOWED_TOP or top == "__future__":
                            continue
                        import importlib.util
                        try:
                            real = importlib.util.find_spec(top) is not None
                        except Exception:  # noqa
                            real = False
                        if not real:
                            continue  # illustrative text in an emitted docstring (e.g. `from myapi.mocks import ...`): not a module of this environment
                        out.append({"id": f"census:template-import:{os.path.relpath(p, SRC)}:{node.lineno}", "status": "violated",
                                    "detail": f"template text `{line.strip()[:80]}`", "witness": {"file": os.path.relpath(p, SRC), "line": node.lineno}})
    # docstrings are not templates: drop hits that are the docstring of a module/class/function
    out = [o for o in out if not _is_docstring_hit(o)]
    out.append({"id": "census:template-import-literals", "status": "holds" if not out else "violated", "detail": f"{n} import-text literals", "exhaustive": True})
    return out


_DOC_CACHE = {}


def _is_docstring_hit(o):
    f, ln = o["witness"]["file"], o["witness"]["line"]
    if f not in _DOC_CACHE:
        tree = pkgcheck.parse(os.path.join(SRC, f))
        lines = set()
        for n in ast.walk(tree):
            if isinstance(n, (ast.Module, ast.ClassDef, ast.FunctionDef, ast.AsyncFunctionDef)) and n.body and isinstance(n.body[0], ast.Expr) \
                    and isinstance(n.body[0].value, ast.Constant) and isinstance(n.body[0].value.value, str):
                lines.add(n.body[0].value.lineno)
        _DOC_CACHE[f] = lines
    return ln in _DOC_CACHE[f]


SINKS = {"add_import", "add_plain_import", "add_conditional_import", "add_relative_import"}


def census_import_sinks(tier, seed):
    """every call site of an import sink: the module argument is a constant naming an allowed module, or an f-string / expression
    rooted at the core package name / the package being generated; anything else is listed as data-dependent"""
    out, n, dd = [], 0, []
    for dp, _, fs in os.walk(SRC):
        for f in fs:
            if not f.endswith(".py"):
                continue
            p = os.path.join(dp, f)
            tree = pkgcheck.parse(p)
            for node in ast.walk(tree):
                if not (isinstance(node, ast.Call) and isinstance(node.func, ast.Attribute) and node.func.attr in SINKS and node.args):
                    continue
                n += 1
                a = node.args[0]
                if node.func.attr == "add_conditional_import" and len(node.args) > 1:
                    a = node.args[1]
                where = f"{os.path.relpath(p, SRC)}:{node.lineno}"
                if isinstance(a, ast.Constant) and isinstance(a.value, str):
                    top = a.value.lstrip(".").split(".")[0]
                    if a.value.startswith(".") or top in ALLOWED_TOP or top == "__future__":
                        continue
                    out.append({"id": f"census:import-sink:{where}", "status": "violated", "detail": f"constant module {a.value!r}", "witness": {"site": where}})
                elif isinstance(a, ast.JoinedStr) and a.values and isinstance(a.values[0], ast.FormattedValue) and \
                        re.search(r"core_package|package_root|output_package|core_pkg|package_name", ast.unparse(a.values[0].value)):
                    continue
                else:
                    dd.append(f"{where}: {ast.unparse(a)[:60]}")
    out.append({"id": "census:import-sinks", "status": "holds" if not out else "violated",
                "detail": f"{n} sink call sites; {len(dd)} data-dependent (module computed from a resolved type/schema), listed", "exhaustive": True,
                "data_dependent_sites": dd[:80]})
    return out


EXTRA = [census_runtime_imports, census_template_literals, census_import_sinks]


def bounded_corpus_selfcontained(tier, seed):
    from props import corpus, corpus_run
    base, gens = corpus_run.generate_corpus(tier, seed, layouts=corpus.LAYOUTS)
    n, failures = 0, []
    try:
        for g in gens:
            if g.error:
                continue
            n += 1
            for f, ln, mod in pkgcheck.foreign_imports(g):
                failures.append({"id": f"bounded:foreign-import:{os.path.basename(f)}:{mod}", "detail": f"{g.name}: {f}:{ln} imports {mod}", "input": {"shape": g.name}})
            # runtime files byte-identical to the shipped ones
            for mod, fn in runtime_files():
                src = os.path.join("/repo/src", *mod.split("."), fn)
                rel = os.path.join(*mod.split(".")[2:], fn) if len(mod.split(".")) > 2 else fn
                dst = os.path.join(g.root, *g.core_pkg.split("."), rel)
                if not os.path.exists(dst) or open(dst, "rb").read() != open(src, "rb").read():
                    failures.append({"id": f"bounded:runtime-file-differs:{fn}", "detail": f"{g.name}: {dst}", "input": {"shape": g.name}})
            ok, out = pkgcheck.import_check(g, block_generator=True)
            if not ok and ("pyopenapi_gen is blocked" in out or "No module named 'pyopenapi_gen" in out):
                failures.append({"id": "bounded:needs-generator-at-import", "detail": f"{g.name}: {out[-300:]}", "input": {"shape": g.name}})
    finally:
        corpus_run.cleanup(base)
    return {"function": "generate_client over the shape corpus: import scan of every emitted file, byte comparison of the runtime files, import with the generator blocked",
            "backend": "bounded enumeration", "bound": f"{len(gens)} generated packages (shape corpus x layouts)", "evaluations": n, "distinct_nontrivial": n,
            "exhaustive": False, "failures": failures}


def bounded_regeneration_over_existing_core(tier, seed):
    """the runtime modules are the shipped ones also when a core directory already exists: an older, hand-edited or truncated copy (with any mtime) is
    replaced by every generation, in the embedded and in the shared-core layout, with and without force"""
    import shutil
    import time
    from props import corpus, gen_harness as G
    d = {n: x for n, f, x in corpus.shapes("quick", seed)}["two-tags"]
    n, failures = 0, []
    for pkg, core in (("cli", None), ("apis.cli", "apis.shared_core")):
        root = G.scratch("c12r")
        try:
            if G.generate(d, root, pkg, core_package=core) is not None:
                continue
            cdir = os.path.join(root, *(core or pkg + ".core").split("."))
            for tamper in ("edited-newer", "truncated-newer", "edited-older"):
                for mod, fn in runtime_files():
                    rel = os.path.join(*mod.split(".")[2:], fn) if len(mod.split(".")) > 2 else fn
                    dst = os.path.join(cdir, rel)
                    if not os.path.exists(dst) or fn == "__init__.py":
                        continue
                    if tamper.startswith("truncated"):
                        open(dst, "w").write("# truncated\n")
                    else:
                        open(dst, "a").write("\n# local edit\n")
                    t = time.time() + (3600 if tamper.endswith("newer") else -10 ** 7)
                    os.utime(dst, (t, t))
                err = G.generate(d, root, pkg, core_package=core, force=True)
                n += 1
                if err is not None:
                    failures.append({"id": f"bounded:regenerate-core:{tamper}:error", "detail": f"[{pkg}+{core}] {type(err).__name__}: {err}"[:300], "input": {"layout": f"{pkg}+{core}"}})
                    continue
                stale = []
                for mod, fn in runtime_files():
                    src = os.path.join("/repo/src", *mod.split("."), fn)
                    rel = os.path.join(*mod.split(".")[2:], fn) if len(mod.split(".")) > 2 else fn
                    dst = os.path.join(cdir, rel)
                    if fn != "__init__.py" and (not os.path.exists(dst) or open(dst, "rb").read() != open(src, "rb").read()):
                        stale.append(rel)
                if stale:
                    failures.append({"id": f"bounded:regenerate-core:{tamper}:stale-runtime-file", "detail": f"[{pkg}+{core}] after regenerating over a {tamper} core: {stale[:5]} differ "
                                     "from the shipped runtime modules", "input": {"layout": f"{pkg}+{core}", "tamper": tamper}})
        finally:
            shutil.rmtree(root, ignore_errors=True)
    return {"function": "generate_client(force=True) over an existing core directory whose runtime files were edited / truncated, with newer and older mtimes: byte comparison with the shipped files",
            "backend": "bounded", "bound": "1 document x 2 layouts (embedded, shared core) x 3 tamperings", "evaluations": n, "distinct_nontrivial": n, "exhaustive": False, "failures": failures}


BOUNDED = [bounded_corpus_selfcontained, bounded_regeneration_over_existing_core]


def witness_black(k):
    src = open("/repo/src/pyopenapi_gen/core/utils.py").read()
    return "from black import" in src


WITNESS = {"F-C12-optional-black-import": witness_black}

MANIFEST = {
    "category": "other",
    "text": "Proof that the runtime modules are copied verbatim, plus exhaustive censuses of the current generator source (every import node of "
            "the runtime files, every import-text literal, every import-sink call site). 'No emitted file imports the generator' for arbitrary "
            "documents is decided only as far as these censuses and the bounded corpus reach.",
    "note": "Data-dependent import-sink sites are listed, not proved. The corpus import check is bounded. The guarded optional `from black import` in "
            "the runtime utils module is a recorded known finding.",
    "technique": "contract-based deductive verification (CoreEmitter.emit) + exhaustive syntactic censuses + bounded corpus with the generator blocked",
}
