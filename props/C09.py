"""C09 — generation is deterministic; re-running on unchanged input is a no-op."""
from __future__ import annotations

import contextlib
import io
import json
import multiprocessing as mp
import os
import random
import shutil
import subprocess
import sys

ID = "C09"
LEVEL = "other"
CONTRACT_MODULES = ["contracts.showdiffs", "contracts.status", "contracts.aliases", "contracts.registry", "contracts.rendering", "contracts.writeset"]
EXPLANATION = ("'Two runs agree' is a relation between executions of the whole pipeline; no contract on one function states it. What is under contract is "
               "the function that DECIDES the non-force run: both loops of ClientGenerator._show_diffs carry a statement contract (one arbitrary "
               "iteration, for every file): a generated file without an equal counterpart sets has_diff, an existing module that is no longer "
               "generated sets has_diff, an equal file does not, and has_diff is never cleared. Determinism itself (hash seed, process, clock, prior "
               "runs, warm caches, output root) and the three run-level clauses (up-to-date re-run succeeds and leaves mtimes alone; a perturbed "
               "tree makes the non-force run raise) are exercised by a bounded matrix over the shape corpus.")
TRUSTED = ["pathlib / difflib are uninterpreted deterministic functions in the _show_diffs contracts; difflib.unified_diff is empty exactly for equal line lists",
           "the byte-identity relation between two runs is only sampled (hash seeds, roots, orders listed in the bounded entry)",
           "the `if has_diff_client or has_diff_core: raise` statement of generate() is exercised, not proved"]

WORKER = os.path.join(os.path.dirname(os.path.abspath(__file__)), "c09_worker.py")
SHAPES = ["schema-graph", "two-tags", "undeclared-path-vars", "params-all-locations", "multi-2xx", "streams", "opid-collisions", "keyword-names", "free-text", "tag-spellings"]


def _run_worker(arg):
    jobs, hashseed, cwd = arg
    import tempfile
    fd, path = tempfile.mkstemp(suffix=".json", dir=os.environ.get("TMPDIR"))
    os.close(fd)
    json.dump(jobs, open(path, "w"))
    env = dict(os.environ, PYTHONHASHSEED=str(hashseed))
    p = subprocess.run([sys.executable, WORKER, path], capture_output=True, text=True, env=env, timeout=600, cwd=cwd)
    os.unlink(path)
    out = []
    for line in p.stdout.splitlines():
        if line.startswith("{"):
            out.append(json.loads(line))
    if len(out) != len(jobs):
        return [{"id": j.get("id"), "error": "worker crashed: " + p.stderr[-300:], "tree": {}} for j in jobs]
    return out


def _strip_root(tree):
    return {k: v for k, v in tree.items() if not k.startswith("_specs")}


def _older_revision(d):
    """another revision of a document: same schema names with other fields, and error status codes the subject documents do not use"""
    import copy
    d = copy.deepcopy(d)
    for sch in (d.get("components") or {}).get("schemas", {}).values():
        if isinstance(sch, dict) and isinstance(sch.get("properties"), dict):
            sch["properties"]["legacy_field"] = {"type": "integer"}
            sch["properties"].pop(next(iter(sch["properties"])), None)
    for item in d["paths"].values():
        for op in item.values():
            if isinstance(op, dict) and "responses" in op:
                for code in ("409", "418", "503"):
                    op["responses"].setdefault(code, {"description": "gone in the next revision"})
    return d


def bounded_determinism(tier, seed):
    from props import corpus, gen_harness as G
    rnd = random.Random(seed)
    docs = {n: d for n, f, d in corpus.shapes(tier, seed) if n in SHAPES or (tier == "thorough" and not n.startswith(("param-", "body-", "codes-")))}
    other = _older_revision(docs.get("schema-graph") or next(iter(docs.values())))
    base = G.scratch("c09")
    failures, n = [], 0
    try:
        work = []
        layouts = [("cli", None), ("acme.clients.cli", "acme.shared.core")]
        for name, d in docs.items():
            for li, (pkg, core) in enumerate(layouts):
                only_history = li > 0 and not (tier == "thorough" or name in ("two-tags", "schema-graph"))
                def job(tag, sub, docs_, **kw):
                    root = os.path.join(base, f"{len(work)}_{tag}", *sub)
                    os.makedirs(root)
                    return dict(id=f"{name}|{li}|{tag}", root=root, pkg=pkg, core=core, docs=docs_, **kw)
                rs = rnd.randrange(2, 2 ** 31)
                variants = [
                    ("ref", 0, job("ref", ["r"], [d])),
                    ("hashseed-1", 1, job("hashseed-1", ["r"], [d])),
                    (f"hashseed-{rs}+deeper-root+clock", rs, job("hs-root-clock", ["some", "deeper", "root dir"], [d], clock_shift=86400 * 400)),
                    ("warm-process-after-other-document", 7, job("warm", ["r"], [other, d, d])),
                    ("prior-run-of-other-document", 3, job("prior", ["r"], [other, d])),
                ]
                for tag, hs, j in variants:
                    if only_history and not tag.startswith(("ref", "prior")):
                        shutil.rmtree(os.path.dirname(j["root"]) if j["root"].endswith("/r") else j["root"], ignore_errors=True)
                        continue
                    work.append((tag, hs, j))
        with mp.get_context("fork").Pool(min(16, len(work))) as pool:
            res = pool.map(_run_worker, [([j], hs, base) for tag, hs, j in work], chunksize=1)
        by = {}
        for (tag, hs, j), r in zip(work, res):
            n += 1
            name, li, _ = j["id"].split("|")
            by.setdefault((name, li), {})[tag] = r[0]
        for (name, li), vs in by.items():
            ref = vs["ref"]
            for tag, r in vs.items():
                if tag == "ref":
                    continue
                if (r["error"] is None) != (ref["error"] is None):
                    failures.append({"id": f"bounded:determinism:{name}:{tag.split('-')[0]}:outcome", "detail": f"{name} layout {li}: {tag}: {r['error']} vs reference {ref['error']}",
                                     "input": {"shape": name, "variant": tag}})
                    continue
                a, b = _strip_root(ref["tree"]), _strip_root(r["tree"])
                if tag.startswith("prior") or tag.startswith("warm"):
                    # the earlier document may legitimately leave nothing behind; stale files of it inside the package would be a difference
                    pass
                if a != b:
                    diff = sorted(k for k in set(a) | set(b) if a.get(k) != b.get(k))
                    failures.append({"id": f"bounded:determinism:{name}:{tag.split('-')[0]}:tree", "detail": f"{name} layout {li}: {tag}: files differ from the reference run: {diff[:6]}",
                                     "input": {"shape": name, "variant": tag, "files": diff[:20]}})
    finally:
        shutil.rmtree(base, ignore_errors=True)
    return {"function": "generate_client: sha256 of every file of the project root, reference run vs. other hash seeds / deeper root + shifted clock / warm "
                        "process that generated another document first / root holding a prior run of another document",
            "backend": "bounded", "bound": f"{len(docs)} corpus documents x up to 2 layouts x 4 variations (hash seeds 0,1,7,3 and one drawn from seed {seed})",
            "evaluations": n, "distinct_nontrivial": n, "exhaustive": False, "failures": failures}


def _snapshot(root):
    sys.path.insert(0, os.path.dirname(WORKER))
    from props.c09_worker import tree
    return tree(root, with_mtime=True)


def _gen(spec_path, root, pkg, core, force):
    import logging
    import warnings
    logging.disable(logging.CRITICAL)
    warnings.simplefilter("ignore")
    from pyopenapi_gen import generate_client
    buf = io.StringIO()
    try:
        with contextlib.redirect_stdout(buf), contextlib.redirect_stderr(buf):
            generate_client(spec_path=spec_path, project_root=root, output_package=pkg, core_package=core, force=force, no_postprocess=True)
        return None
    except Exception as e:  # noqa
        return e


def _perturbations(root, pkg, core):
    """(name, apply) pairs; each makes the existing tree differ from what would be generated"""
    pdir = os.path.join(root, *pkg.split("."))
    cdir = os.path.join(root, *(core or pkg + ".core").split("."))

    def first(d, pred):
        for dp, dn, fs in os.walk(d):
            dn[:] = sorted(x for x in dn if x != "__pycache__")
            for f in sorted(fs):
                if pred(os.path.join(dp, f)):
                    return os.path.join(dp, f)
        return None
    out = []
    ep = first(os.path.join(pdir, "endpoints"), lambda p: p.endswith(".py") and not p.endswith("__init__.py"))
    if ep:
        out.append(("endpoint-module-edited", lambda: open(ep, "a").write("\n# edited by hand\n")))
        out.append(("endpoint-module-deleted", lambda: os.unlink(ep)))
    out.append(("client-edited", lambda: open(os.path.join(pdir, "client.py"), "a").write("\nX = 1\n")))
    out.append(("stale-extra-module", lambda: open(os.path.join(pdir, "endpoints", "zz_removed_tag.py"), "w").write("class ZzClient: ...\n")))
    mf = first(os.path.join(pdir, "models"), lambda p: p.endswith(".py") and not p.endswith("__init__.py"))
    if mf:
        out.append(("model-deleted", lambda: os.unlink(mf)))
    cf = os.path.join(cdir, "http_transport.py")
    out.append(("core-module-edited", lambda: open(cf, "a").write("\n# local patch\n")))
    out.append(("core-module-deleted", lambda: os.unlink(os.path.join(cdir, "exceptions.py"))))
    return out


def bounded_rerun(tier, seed):
    from props import corpus, gen_harness as G
    # (the random documents declare their responses out of ascending order, mix tag spellings and parameter orders)
    rand = ["random-3", "random-21"] if tier != "thorough" else [f"random-{k}" for k in (1, 3, 5, 8, 13, 21, 34, 55)]
    docs = {n: d for n, f, d in corpus.shapes(tier, seed) if n in (SHAPES if tier == "thorough" else SHAPES[:3]) or n in rand}
    layouts = [("cli", None), ("acme.clients.cli", "acme.shared.core"), ("cli", "cli.runtime.core")]
    failures, n = [], 0
    base = G.scratch("c09r")
    try:
        for name, d in docs.items():
            for li, (pkg, core) in enumerate(layouts):
                lay = f"{pkg}+{core}"
                root = os.path.join(base, f"{name}_{li}")
                os.makedirs(os.path.join(root, "_specs"))
                sp = os.path.join(root, "_specs", "s.json")
                json.dump(d, open(sp, "w"))
                e = _gen(sp, root, pkg, core, True)
                if e is not None:
                    continue  # not an accepted document in this layout (other properties report that)
                before = _snapshot(root)
                e = _gen(sp, root, pkg, core, False)
                n += 1
                after = _snapshot(root)
                if e is not None:
                    failures.append({"id": f"bounded:rerun:up-to-date-fails:{'default-core' if core is None else 'explicit-core'}",
                                     "detail": f"{name} [{lay}]: non-force re-run over its own output raised {type(e).__name__}: {str(e)[:120]}", "input": {"shape": name, "layout": lay}})
                if after != before:
                    ch = sorted(k for k in set(before) | set(after) if before.get(k) != after.get(k))
                    failures.append({"id": "bounded:rerun:up-to-date-touches-files", "detail": f"{name} [{lay}]: non-force re-run changed {ch[:5]}", "input": {"shape": name, "layout": lay}})
                for pname, _ in _perturbations(root, pkg, core):
                    work = root + "_p"
                    shutil.copytree(root, work)
                    try:
                        dict(_perturbations(work, pkg, core))[pname]()
                        b2 = _snapshot(work)
                        e = _gen(os.path.join(work, "_specs", "s.json"), work, pkg, core, False)
                        n += 1
                        a2 = _snapshot(work)
                        if e is None:
                            failures.append({"id": f"bounded:rerun:difference-not-reported:{pname}",
                                             "detail": f"{name} [{lay}]: existing output differs ({pname}) but the non-force run reported success", "input": {"shape": name, "layout": lay, "perturbation": pname}})
                        elif type(e).__name__ != "GenerationError":
                            failures.append({"id": f"bounded:rerun:wrong-failure:{pname}", "detail": f"{name} [{lay}]: {pname}: raised {type(e).__name__}: {str(e)[:100]}",
                                             "input": {"shape": name, "layout": lay, "perturbation": pname}})
                        if a2 != b2:
                            ch = sorted(k for k in set(b2) | set(a2) if b2.get(k) != a2.get(k))
                            failures.append({"id": f"bounded:rerun:differing-tree-touched:{pname}", "detail": f"{name} [{lay}]: {pname}: the failing non-force run changed {ch[:5]}",
                                             "input": {"shape": name, "layout": lay, "perturbation": pname}})
                    finally:
                        shutil.rmtree(work, ignore_errors=True)
    finally:
        shutil.rmtree(base, ignore_errors=True)
    return {"function": "generate_client(force=False) over its own up-to-date output (must succeed, (path, sha256, mtime_ns) snapshot unchanged) and over 7 "
                        "perturbed trees (edited / deleted / stale extra module, in package and in core: must raise GenerationError, snapshot unchanged)",
            "backend": "bounded", "bound": f"{len(docs)} corpus documents x 3 layouts (embedded, sibling, nested core) x (1 + 7 perturbations)", "evaluations": n,
            "distinct_nontrivial": n, "exhaustive": False, "failures": failures}


def census_set_iteration(tier, seed):
    """exact syntactic census (props/setorder.py) over the generator's whole source: every order-sensitive use of a set-typed expression is either absent
    or listed in props/setorder_accepted.json with the reason why the visiting order cannot reach the output.  An unlisted site is a CANDIDATE for
    hash-seed dependent output — reported as undecided, never as a violation (the two-run comparison below decides with a witness)."""
    import json
    from props import setorder
    here = os.path.dirname(os.path.abspath(__file__))
    accepted = json.load(open(os.path.join(here, "setorder_accepted.json")))
    found = setorder.census("/repo/src/pyopenapi_gen")
    out, n = [], 0
    for key, sites in sorted(found.items()):
        for kind, text in sites:
            n += 1
            if any(a[0] == kind and a[1] == text for a in accepted.get(key, [])):
                continue
            out.append({"id": f"census:set-iteration:{key}", "status": "undecided", "exhaustive": True,
                        "detail": f"{key}: {kind}: `{text}` — the iteration order of a set is hash-seed dependent; not in props/setorder_accepted.json", "witness": {"site": key, "line": text}})
    out.append({"id": "census:set-iteration", "status": "holds" if not out else "undecided", "exhaustive": True,
                "detail": f"{n} order-sensitive uses of set-typed expressions in the generator source, {sum(len(v) for v in accepted.values())} accepted with a stated reason"})
    return out


def bounded_prior_core_state(tier, seed):
    """independence from what an earlier run left behind, for the shared runtime files: an existing core directory whose files were edited / truncated, with
    newer and older mtimes, is brought to exactly the shipped content by every generation (shared with C12: same scenarios, judged here as "the result does
    not depend on prior runs or on file times")"""
    from props import C12
    r = C12.bounded_regeneration_over_existing_core(tier, seed)
    r = dict(r)
    r["function"] = "independence from prior runs / file times for the core files — " + r.get("function", "")
    r["failures"] = [dict(f, id=f["id"].replace("bounded:", "bounded:prior-state:", 1)) for f in r.get("failures", [])]
    return r


EXTRA = [census_set_iteration]
BOUNDED = [bounded_determinism, bounded_rerun, bounded_prior_core_state]

MANIFEST = {
    "category": "other",
    "text": "The diff check that decides a non-force run is under statement contracts (every generated / existing file is accounted for); determinism and "
            "the re-run clauses are compared over a matrix of hash seeds, processes, roots, clocks, prior runs and perturbed trees.",
    "note": "Byte identity between runs is sampled, not proved. pathlib/difflib uninterpreted.",
    "technique": "contract-based deductive verification (statement contracts over uninterpreted pathlib, ordered-iteration contracts, z3) + exact set-iteration census of the generator source + bounded differential runs in subprocesses",
}
