ID = "C09"
LEVEL = "other"
CONTRACT_MODULES = ["contracts.showdiffs"]
EXPLANATION = "x"
TRUSTED = []
MANIFEST = {"category": "other", "text": "x", "note": "x", "technique": "x"}
