"""C15 — spec text can never alter the structure of generated code."""
from __future__ import annotations

import ast
import contextlib
import io
import json
import multiprocessing as mp
import os
import random
import shutil

ID = "C15"
LEVEL = "other"
CONTRACT_MODULES = ["contracts.textsplice"]
EXPLANATION = ("Text reaches code through many independent splice sites. The two escaping primitives the sites now share are under contract: "
               "python_string_literal appends exactly one token per input character (statement contract on its loop; the token depends on that character "
               "only), and every one of the 1,114,112 code points is checked exhaustively against the Python lexer (the token is self-delimiting, "
               "evaluates back to the character, contains no raw quote / backslash / line break); escape_docstring_text is checked exhaustively over "
               "all strings up to length 6 of a critical alphabet inside a real docstring. That the splice sites of meaning-carrying text USE the primitive is "
               "proved per site as non-interference modulo declassification: for one arbitrary iteration of each emitting loop (enum members, both Meta "
               "key maps, discriminator tuple and dict, query / header / cookie names) every line handed to write_line satisfies "
               "line == line[text := text'] with python_string_literal(..text..) held fixed — the line varies with the text only through the "
               "primitive; likewise the result of _get_field_default for string defaults, and the result of DocumentationWriter.render_docstring with "
               "respect to summary / description through escape_docstring_text (comprehension results carry their dependence explicitly). Sites that "
               "use neither primitive (one-line docstrings, comments) and the end-to-end effect are exercised by the position x payload matrix: one document family with 27 text-bearing positions, a dictionary of hostile "
               "payloads plus seeded random Unicode strings, each compared with the benign-text build: every file parses, the statement skeleton is "
               "the same, meaning-carrying literals evaluate to the original text.")
TRUSTED = ["Python's lexer: a string literal made of self-delimiting tokens evaluates to the concatenation of the tokens' values (meta-argument over the exhaustive per-token check)",
           "the position x payload matrix is a sample of documents; a splice site not reachable from the document family is not covered"]


def exhaustive_string_literal(tier, seed):
    """python_string_literal against CPython's lexer: every code point alone, every code point between two critical neighbours (self-delimiting),
    all strings up to length 3 over a critical alphabet"""
    import itertools
    from pyopenapi_gen.core.writers.code_writer import python_string_literal as psl
    out, bad = [], []
    # 1. every code point (surrogates included: they can come out of a JSON document)
    chunk = 8192
    n = 0
    for lo in range(0, 0x110000, chunk):
        cps = [chr(c) for c in range(lo, min(lo + chunk, 0x110000))]
        toks = [psl(c) for c in cps]
        for c, t in zip(cps, toks):
            inner = t[1:-1]
            if not (t.startswith('"') and t.endswith('"') and "\n" not in t and "\r" not in t and "\x00" not in t and len(t.splitlines()) == 1
                    and (inner == c or (inner.startswith("\\") and len(inner) in (2, 4, 6, 10)))):
                bad.append(("token-shape", c))
        try:
            vals = eval("(" + ",".join(toks) + ",)")  # the lexer itself
        except Exception as e:  # noqa
            bad.append((f"chunk {lo:#x} does not lex: {e}", ""))
            continue
        n += len(cps)
        for c, v in zip(cps, vals):
            if v != c:
                bad.append(("value", c))
    out.append({"id": "exhaustive:python_string_literal:every-code-point", "status": "violated" if bad else "holds", "exhaustive": True,
                "detail": f"{n} code points: one-line double-quoted token, evaluates to the character" + (f"; FAILS for {bad[:5]!r}" if bad else ""),
                "witness": {"text": bad[0][1]} if bad else None})
    # 2. self-delimiting: c between critical neighbours (an escape must not swallow or be extended by what follows)
    bad2, n2 = [], 0
    crit = ['"', "\\", "0", "7", "a", "f", "x", "u", "U", "N", "{", "\n", "'", " "]
    sample = list(range(0, 0x3000)) + list(range(0xD7F0, 0xE010)) + list(range(0xFFF0, 0x10010)) + list(range(0x1F600, 0x1F610)) + [0x10FFFF]
    strings = [a + chr(c) + b for c in sample for a in crit[:4] for b in crit]
    for i in range(0, len(strings), 4096):
        part = strings[i:i + 4096]
        try:
            vals = eval("(" + ",".join(psl(s_) for s_ in part) + ",)")
        except Exception as e:  # noqa
            bad2.append((f"does not lex: {e}", part[0]))
            continue
        n2 += len(part)
        bad2 += [("value", s_) for s_, v in zip(part, vals) if s_ != v]
    alpha = ['"', "\\", "\n", "\r", "a", "'", "\x00", "\x85", "\u2028", "é", "😀", "{", "#"]
    L = 3 if tier == "quick" else 4
    for k in range(L + 1):
        for tup in itertools.product(alpha, repeat=k):
            s_ = "".join(tup)
            n2 += 1
            try:
                if ast.literal_eval(psl(s_)) != s_ or len(psl(s_).splitlines()) != 1:
                    bad2.append(("value", s_))
            except Exception as e:  # noqa
                bad2.append((f"does not lex: {e}", s_))
    out.append({"id": "exhaustive:python_string_literal:self-delimiting", "status": "violated" if bad2 else "holds", "exhaustive": False,
                "detail": f"{n2} strings (every sampled code point between critical neighbours; all strings of length <= {L} over {len(alpha)} critical characters)"
                          + (f"; FAILS for {bad2[:5]!r}" if bad2 else ""), "witness": {"text": bad2[0][1]} if bad2 else None})
    return out


def exhaustive_docstring_escape(tier, seed):
    """escape_docstring_text inside a real triple-quoted docstring, all strings up to length L over the characters that matter to the lexer"""
    import itertools
    from pyopenapi_gen.core.writers.documentation_writer import escape_docstring_text as esc
    alpha = ['"', "\\", "a", "\n", "'", "\x00", "n", "x"]
    L = 5 if tier == "quick" else 7
    bad, n = [], 0
    for k in range(L + 1):
        for tup in itertools.product(alpha, repeat=k):
            s_ = "".join(tup)
            n += 1
            src = 'def f():\n    """\n' + esc(s_) + '\n    """\n    return 1\n'
            try:
                tree = ast.parse(src)
                fn = tree.body[0]
                ok = (len(tree.body) == 1 and len(fn.body) == 2 and isinstance(fn.body[0], ast.Expr) and isinstance(fn.body[0].value, ast.Constant)
                      and fn.body[0].value.value == "\n" + s_ + "\n    ")
            except (SyntaxError, ValueError):
                ok = False
            if not ok:
                bad.append(s_)
    return [{"id": "exhaustive:escape_docstring_text:short-strings", "status": "violated" if bad else "holds", "exhaustive": False,
             "detail": f"{n} strings (all of length <= {L} over {alpha!r}) placed in a real docstring: module parses to one function with one docstring "
                       f"whose value is the original text" + (f"; FAILS for {bad[:5]!r}" if bad else ""),
             "witness": {"text": bad[0]} if bad else None}]


EXTRA = [exhaustive_string_literal, exhaustive_docstring_escape]


def _strip_docstrings(tree):
    for node in ast.walk(tree):
        body = getattr(node, "body", None)
        if isinstance(body, list):
            node.body = [s for s in body if not (isinstance(s, ast.Expr) and isinstance(s.value, ast.Constant) and isinstance(s.value.value, str))] or [ast.Pass()]
    return tree


def _skeleton(tree):
    """order-insensitive statement skeleton: per statement the tuple of its node types (identifiers, constants and docstrings ignored); class
    and function bodies recursively as sorted multisets — so renaming, reordering of sibling declarations and docstring text do not matter, an
    added / removed / restructured statement does"""
    def stmt(s):
        if isinstance(s, (ast.ClassDef, ast.FunctionDef, ast.AsyncFunctionDef)):
            head = tuple(type(n).__name__ for d in s.decorator_list for n in ast.walk(d))
            sig = tuple(type(n).__name__ for n in ast.walk(s.args)) if not isinstance(s, ast.ClassDef) else tuple(type(n).__name__ for b in s.bases for n in ast.walk(b))
            return (type(s).__name__, head, sig, tuple(sorted(stmt(x) for x in s.body)))
        return tuple(type(n).__name__ for n in ast.walk(s))
    return tuple(sorted(map(repr, (stmt(s) for s in _strip_docstrings(tree).body))))


def _generate(t, root):
    """-> ("error", text) | ("ok", {relative file: ast | "SYNTAX ..."})"""
    import logging
    import warnings
    logging.disable(logging.CRITICAL)
    warnings.simplefilter("ignore")
    from props import c15_doc
    from pyopenapi_gen import generate_client
    shutil.rmtree(root, ignore_errors=True)
    os.makedirs(root)
    sp = os.path.join(root, "s.json")
    json.dump(c15_doc.doc(t), open(sp, "w"))
    buf = io.StringIO()
    try:
        with contextlib.redirect_stdout(buf), contextlib.redirect_stderr(buf):
            generate_client(spec_path=sp, project_root=root, output_package="cli", force=True, no_postprocess=True)
    except Exception as e:  # noqa
        return "error", f"{type(e).__name__}: {str(e)[:100]}"
    out = {}
    base = os.path.join(root, "cli")
    for dp, dn, fs in os.walk(base):
        dn[:] = sorted(x for x in dn if x not in ("core", "__pycache__"))
        for f in sorted(fs):
            if f.endswith(".py"):
                p = os.path.join(dp, f)
                rel = os.path.relpath(p, root)
                try:
                    src = open(p, encoding="utf-8").read()
                    out[rel] = ast.parse(src)
                except (SyntaxError, ValueError, UnicodeDecodeError) as e:
                    out[rel] = f"SYNTAX {type(e).__name__}: {str(e)[:70]}"
    return "ok", out


def _summary(files):
    skels = sorted(_skeleton(v) for v in files.values() if not isinstance(v, str))
    consts = {n.value for v in files.values() if not isinstance(v, str) for n in ast.walk(v) if isinstance(n, ast.Constant) and isinstance(n.value, str)}
    return skels, consts


_BASE = {}


def _case(arg):
    pos, pname, text, workdir = arg
    from props import c15_doc
    root = os.path.join(workdir, f"w{os.getpid()}")
    try:
        st, files = _generate({pos: text}, root)
        if st == "error":
            return pos, pname, "generation-refused", files
        bad = sorted(f"{k}: {v}" for k, v in files.items() if isinstance(v, str))
        if bad:
            return pos, pname, "syntax", "; ".join(bad)[:300]
        skels, consts = _summary(files)
        if not any(skels == b for b in _BASE[pos]):
            ref = _BASE[pos][0]
            d = [i for i, (a, b) in enumerate(zip(skels, ref)) if a != b][:1]
            extra = ""
            if len(skels) == len(ref) and d:
                a, b = skels[d[0]], ref[d[0]]
                from collections import Counter
                ca, cb = Counter(a), Counter(b)
                extra = f" node-count differences {dict((k, ca[k] - cb[k]) for k in set(ca) | set(cb) if ca[k] != cb[k])}"
            return pos, pname, "skeleton", f"{len(skels)} modules vs {len(ref)} in the benign build;{extra}"[:300]
        if c15_doc.POSITIONS[pos][1] and text not in consts:
            return pos, pname, "literal-lost", "no string constant of the generated package evaluates to the original text"
        return pos, pname, None, None
    finally:
        shutil.rmtree(root, ignore_errors=True)


def _random_text(rnd):
    pools = ['"\'\\\n\r\t #{}%', "abcXYZ019 _-./:", "\x00\x0b\x0c\x1c\x7f\x85", "é日本😀  ​"]
    n = rnd.randrange(1, 14)
    out = []
    for _ in range(n):
        pool = pools[0] if rnd.random() < 0.5 else rnd.choice(pools)
        if rnd.random() < 0.08:
            cp = rnd.randrange(0x20, 0x110000)
            if 0xD800 <= cp < 0xE000:
                cp = 0x41
            out.append(chr(cp))
        else:
            out.append(rnd.choice(pool))
    return "".join(out)


def bounded_position_payload_matrix(tier, seed):
    from props import c15_doc, gen_harness as G
    rnd = random.Random(seed)
    base = G.scratch("c15")
    failures, n, refused = [], 0, []
    try:
        # benign builds: the default document, plus per name-bearing position a second benign text that needs no renaming
        alt = {"prop.name": "benignname", "query.name": "benignq", "header.name": "benign", "cookie.name": "benignc", "op.tag": "benigntag", "enum.value": "benignvalue",
               "inline-enum.value": "benigninline", "disc.value": "benigncat"}
        st, files = _generate({}, os.path.join(base, "benign"))
        if st != "ok" or any(isinstance(v, str) for v in files.values()):
            raise RuntimeError(f"benign document does not generate cleanly: {files if st != 'ok' else [v for v in files.values() if isinstance(v, str)]}")
        default = _summary(files)[0]
        for pos in c15_doc.POSITIONS:
            _BASE[pos] = [default]
            if pos in alt:
                st, files = _generate({pos: alt[pos]}, os.path.join(base, "benign2"))
                _BASE[pos].append(_summary(files)[0])
        names = c15_doc.QUICK if tier == "quick" else list(c15_doc.PAYLOADS)
        cases = [(pos, pn, c15_doc.PAYLOADS[pn], base) for pos in c15_doc.POSITIONS for pn in names]
        nrand = 2 if tier == "quick" else 12
        for pos in c15_doc.POSITIONS:
            for k in range(nrand):
                cases.append((pos, f"random#{k}", _random_text(rnd), base))
        with mp.get_context("fork").Pool(16) as pool:
            res = pool.map(_case, cases, chunksize=4)
        texts = {(c[0], c[1]): c[2] for c in cases}
        for pos, pn, kind, detail in res:
            n += 1
            if kind is None:
                continue
            if kind == "generation-refused":
                refused.append(f"{pos}:{pn}")
                continue
            cls = "random" if pn.startswith("random#") else pn
            failures.append({"id": f"bounded:text:{pos}:{cls}:{kind}", "detail": f"text {texts[(pos, pn)]!r} at {pos}: {kind}: {detail}"[:500],
                             "input": {"position": pos, "payload": pn, "text": texts[(pos, pn)]}})
    finally:
        shutil.rmtree(base, ignore_errors=True)
    seen, uniq = set(), []
    for f in failures:
        if f["id"] not in seen:
            seen.add(f["id"])
            uniq.append(f)
    return {"function": "generate_client on the C15 document family: (position, text) -> every emitted file parses; statement skeleton (node types, docstrings "
                        "removed, identifiers and constants ignored) equals the benign-text build; meaning-carrying literals are recoverable as exact constants",
            "backend": "bounded", "bound": f"{len(c15_doc.POSITIONS)} positions x ({len(names)} dictionary payloads + {nrand} random strings, seed {seed}); "
                                           f"generation refused for {len(refused)} cases (not judged): {refused[:8]}",
            "evaluations": n, "distinct_nontrivial": n - len(refused), "exhaustive": False, "failures": uniq}


BOUNDED = [bounded_position_payload_matrix]

MANIFEST = {
    "category": "other",
    "text": "The string-literal primitive is proved token-per-character and checked against the Python lexer for every code point; eight splice sites, the "
            "default renderer and the docstring writer are proved to let text through only via the escaping primitives (non-interference modulo "
            "declassification); the docstring escape is checked exhaustively over short critical strings; everything end to end through a 27-position x "
            "hostile-payload matrix against the benign build.",
    "note": "Lexer composition is a meta-argument. Sites outside the document family are not covered.",
    "technique": "contract-based deductive verification (statement contracts, non-interference VCs with declassification, z3) + exhaustive finite checks against CPython's lexer + bounded position x payload matrix",
}
