"""C17 — transport applies defaults, per-request headers and auth as documented."""
from __future__ import annotations

import itertools
import random

from props import transport_harness as H
from props.transport_harness import clean, strmap

ID = "C17"
LEVEL = "proof"
CONTRACT_MODULES = ["contracts.auth", "contracts.transport"]
EXPLANATION = ("Every auth plugin, CompositeAuth (loop invariant over the plugin prefix, recursive spec function), "
               "HttpxTransport._prepare_headers and HttpxTransport.request are verified against sidecar contracts whose "
               "top-level postcondition is the property statement (whole-map postconditions over the request arguments). "
               "request is verified once per configured plugin class (case split on the collaborator) and once for an "
               "arbitrary BaseAuth implementation modelled as an uninterpreted function.")
TRUSTED = ["httpx.AsyncClient.request passes its keyword arguments through to the wire (dependency, not under contract)",
           "BaseAuth protocol: an arbitrary plugin is a deterministic function of (plugin, request_args) returning a dict"]
P = "pyopenapi_gen.core.auth.plugins"
T = "pyopenapi_gen.core.http_transport"


# ---- replay of solver counter-models on the real code ---------------------------------------------------
def _plugin_from_model(variant, m):
    if variant is None or variant == "no-auth":
        return None
    if variant == "bearer-plugin":
        return H.make_plugin("bearer", {"token": m.get("self._auth.token", "t")})
    if variant == "headers-plugin":
        return H.make_plugin("headers", {"headers": clean(m.get("self._auth.headers", {}))})
    if variant.startswith("apikey"):
        return H.make_plugin("apikey", {"key": m.get("self._auth.key", "k"), "name": m.get("self._auth.name", "n"),
                                        "location": m.get("self._auth.location", "header")})
    return H.ParamsPlugin()


def _kwargs_from_model(m):
    kw = clean(m.get("kwargs", {})) or {}
    out = {}
    for k, v in kw.items():
        if k in ("headers", "params", "cookies"):
            out[k] = strmap(v) if isinstance(v, dict) else v
        elif isinstance(v, (str, int, bool, dict, list)) or v is None:
            out[str(k)] = v
    return out


def _status_from_model(m):
    for k, v in (m.get("__apps__") or {}).items():
        if "attr.status_code" in k and isinstance(v, int):
            return v
    return 200


def replay_request(variant, m, ob):
    auth = _plugin_from_model(variant, m)
    defaults = clean(m.get("self._default_headers"))
    defaults = strmap(defaults) if isinstance(defaults, dict) else None
    bearer = m.get("self._bearer_token") if isinstance(m.get("self._bearer_token"), str) else None
    status = _status_from_model(m)
    if ob.info.get("exit", "").startswith("ret") and not (200 <= status < 300):
        status = 200
    kwargs = _kwargs_from_model(m)
    res, log = H.run_transport_request(defaults, bearer, auth, "GET", "/x", kwargs, status)
    clause = ob.info.get("clause")
    failed = [f for f in res.failed if f[0] == clause]
    return {"confirmed": bool(failed) if res.pre_ok else None,
            "detail": f"native run: pre_ok={res.pre_ok} failed={res.failed} raised={type(res.raised).__name__ if res.raised else None}",
            "inputs": {"defaults": defaults, "bearer": bearer, "auth": type(auth).__name__ if auth else None,
                       "auth_fields": dict(getattr(auth, "__dict__", {})) if auth else None, "kwargs": kwargs, "status": status}}


def replay_plugin(qual, kind):
    def hook(variant, m, ob):
        f = {k.split(".", 1)[1]: clean(v) for k, v in m.items() if k.startswith("self.")}
        plugin = H.make_plugin(kind, f)
        ra = clean(m.get("request_args", {})) or {}
        res = H.run_plugin(plugin, qual, ra)
        clause = ob.info.get("clause")
        failed = [x for x in res.failed if x[0] == clause or clause is None]
        return {"confirmed": bool(failed) if res.pre_ok else None, "detail": f"pre_ok={res.pre_ok} failed={res.failed}",
                "inputs": {"plugin": f, "request_args": ra}}
    return hook


REPLAY = {
    f"{T}:HttpxTransport.request": replay_request,
    f"{P}:BearerAuth.authenticate_request": replay_plugin(f"{P}:BearerAuth.authenticate_request", "bearer"),
    f"{P}:HeadersAuth.authenticate_request": replay_plugin(f"{P}:HeadersAuth.authenticate_request", "headers"),
    f"{P}:ApiKeyAuth.authenticate_request": replay_plugin(f"{P}:ApiKeyAuth.authenticate_request", "apikey"),
}


# ---- bounded stand-in: the same contracts evaluated natively over an enumerated domain -----------------------
def bounded_transport(tier, seed):
    from pyopenapi_gen.core.auth.base import CompositeAuth
    from pyopenapi_gen.core.auth.plugins import ApiKeyAuth, BearerAuth, HeadersAuth, OAuth2Auth

    async def refresh(tok):
        return "fresh-token"
    plugins = [
        ("none", lambda: None), ("bearer", lambda: BearerAuth("tok")), ("headers", lambda: HeadersAuth({"X-A": "1", "Authorization": "H"})),
        ("apikey-header", lambda: ApiKeyAuth("K", "header", "X-Key")), ("apikey-query", lambda: ApiKeyAuth("K", "query", "api_key")),
        ("apikey-cookie", lambda: ApiKeyAuth("K", "cookie", "sid")), ("oauth2", lambda: OAuth2Auth("at")),
        ("oauth2-refresh", lambda: OAuth2Auth("at", refresh)),
        ("composite(bearer,apikey-query)", lambda: CompositeAuth(BearerAuth("t1"), ApiKeyAuth("K", "query", "k"))),
        ("composite(headers,bearer,apikey-cookie)", lambda: CompositeAuth(HeadersAuth({"Authorization": "H"}), BearerAuth("t2"), ApiKeyAuth("C", "cookie", "c"))),
        ("composite(nested)", lambda: CompositeAuth(BearerAuth("a"), CompositeAuth(HeadersAuth({"Authorization": "b", "X": "1"}), ApiKeyAuth("q", "query", "k")), BearerAuth("c"))),
        ("third-party(params+header)", lambda: H.ParamsPlugin("sg")),
    ]
    defaults = [None, {}, {"A": "d", "Authorization": "default", "X-Key": "dk"}]
    bearers = [None, "bt"]
    kwargss = [{}, {"headers": {"A": "r", "B": "2"}}, {"params": {"q": "1"}, "json": {"x": 1}}, {"headers": {"Authorization": "req"}, "cookies": {"c0": "v"}, "data": "raw"}]
    statuses = [200, 204] if tier == "quick" else [200, 201, 204, 299]
    n = 0
    distinct = set()
    failures = []
    for (pn, mk), d, b, kw, sc in itertools.product(plugins, defaults, bearers, kwargss, statuses):
        res, log = H.run_transport_request(d, b, mk(), "POST", "/p", kw, sc)
        n += 1
        distinct.add((pn, repr(d), b, repr(kw), sc))
        if res.failed:
            failures.append({"id": f"bounded:HttpxTransport.request:{res.failed[0][0]}", "detail": str(res.failed),
                             "input": {"plugin": pn, "defaults": d, "bearer": b, "kwargs": kw, "status": sc}})
    return {"function": "HttpxTransport.request (+ real plugins) — sidecar contract evaluated natively", "backend": "run-time contract monitor",
            "bound": f"{len(plugins)} plugin configurations x {len(defaults)} default-header maps x {len(bearers)} bearer x {len(kwargss)} kwargs x {len(statuses)} statuses",
            "evaluations": n, "distinct_nontrivial": len(distinct), "exhaustive": True, "failures": failures}


BOUNDED = [bounded_transport]

MANIFEST = {
    "category": "proof",
    "text": "Every obligation generated from the current source of the four auth plugins, CompositeAuth, HttpxTransport._prepare_headers "
            "and HttpxTransport.request is discharged by z3 for all header maps, tokens, keys, kwargs and plugin compositions (unbounded); "
            "the top-level postcondition of request is the property statement. A change that breaks it fails a named obligation and the "
            "solver's counter-model is replayed on the real transport.",
    "note": "Assumed: httpx passes kwargs through; an arbitrary third-party plugin is a deterministic function of (plugin, args) returning a dict; "
            "OAuth2 refresh callback modelled as an uninterpreted function; await without interleaving (OAuth2Auth shares access_token across "
            "awaits — not modelled). The enumerated native run of the same contracts is a bounded stand-in, reported separately.",
    "technique": "contract-based deductive verification (own VC generator over the real AST + z3/cvc5), counter-model replay",
}
