"""C17 — transport applies defaults, per-request headers and auth as documented."""
from __future__ import annotations

import itertools
import random

from props import transport_harness as H
from props.transport_harness import clean, strmap

ID = "C17"
LEVEL = "proof"
CONTRACT_MODULES = ["contracts.auth", "contracts.transport"]
EXPLANATION = ("Every auth plugin, CompositeAuth (loop invariant over the plugin prefix, recursive spec function), "
               "HttpxTransport._prepare_headers and HttpxTransport.request are verified against sidecar contracts whose "
               "top-level postcondition is the property statement (whole-map postconditions over the request arguments). "
               "request is verified once per configured plugin class (case split on the collaborator) and once for an "
               "arbitrary BaseAuth implementation modelled as an uninterpreted function.")
TRUSTED = ["httpx.AsyncClient.request passes its keyword arguments through to the wire (dependency, not under contract)",
           "BaseAuth protocol: an arbitrary plugin is a deterministic function of (plugin, request_args) returning a dict"]
P = "pyopenapi_gen.core.auth.plugins"
T = "pyopenapi_gen.core.http_transport"


# ---- replay of solver counter-models on the real code ---------------------------------------------------
def _plugin_from_model(variant, m):
    if variant is None or variant == "no-auth":
        return None
    if variant == "bearer-plugin":
        return H.make_plugin("bearer", {"token": m.get("self._auth.token", "t")})
    if variant == "headers-plugin":
        return H.make_plugin("headers", {"headers": clean(m.get("self._auth.headers", {}))})
    if variant.startswith("apikey"):
        return H.make_plugin("apikey", {"key": m.get("self._auth.key", "k"), "name": m.get("self._auth.name", "n"),
                                        "location": m.get("self._auth.location", "header")})
    return H.ParamsPlugin()


def _kwargs_from_model(m):
    kw = clean(m.get("kwargs", {})) or {}
    out = {}
    for k, v in kw.items():
        if k in ("headers", "params", "cookies"):
            out[k] = strmap(v) if isinstance(v, dict) else v
        elif isinstance(v, (str, int, bool, dict, list)) or v is None:
            out[str(k)] = v
    return out


def _status_from_model(m):
    for k, v in (m.get("__apps__") or {}).items():
        if "attr.status_code" in k and isinstance(v, int):
            return v
    return 200


def replay_request(variant, m, ob):
    auth = _plugin_from_model(variant, m)
    defaults = clean(m.get("self._default_headers"))
    defaults = strmap(defaults) if isinstance(defaults, dict) else None
    bearer = m.get("self._bearer_token") if isinstance(m.get("self._bearer_token"), str) else None
    status = _status_from_model(m)
    if ob.info.get("exit", "").startswith("ret") and not (200 <= status < 300):
        status = 200
    kwargs = _kwargs_from_model(m)
    res, log = H.run_transport_request(defaults, bearer, auth, "GET", "/x", kwargs, status)
    clause = ob.info.get("clause")
    failed = [f for f in res.failed if f[0] == clause]
    return {"confirmed": bool(failed) if res.pre_ok else None,
            "detail": f"native run: pre_ok={res.pre_ok} failed={res.failed} raised={type(res.raised).__name__ if res.raised else None}",
            "inputs": {"defaults": defaults, "bearer": bearer, "auth": type(auth).__name__ if auth else None,
                       "auth_fields": dict(getattr(auth, "__dict__", {})) if auth else None, "kwargs": kwargs, "status": status}}


def replay_plugin(qual, kind):
    def hook(variant, m, ob):
        f = {k.split(".", 1)[1]: clean(v) for k, v in m.items() if k.startswith("self.")}
        plugin = H.make_plugin(kind, f)
        ra = clean(m.get("request_args", {})) or {}
        res = H.run_plugin(plugin, qual, ra)
        clause = ob.info.get("clause")
        failed = [x for x in res.failed if x[0] == clause or clause is None]
        return {"confirmed": bool(failed) if res.pre_ok else None, "detail": f"pre_ok={res.pre_ok} failed={res.failed}",
                "inputs": {"plugin": f, "request_args": ra}}
    return hook


REPLAY = {
    f"{T}:HttpxTransport.request": replay_request,
    f"{P}:BearerAuth.authenticate_request": replay_plugin(f"{P}:BearerAuth.authenticate_request", "bearer"),
    f"{P}:HeadersAuth.authenticate_request": replay_plugin(f"{P}:HeadersAuth.authenticate_request", "headers"),
    f"{P}:ApiKeyAuth.authenticate_request": replay_plugin(f"{P}:ApiKeyAuth.authenticate_request", "apikey"),
}


# ---- bounded stand-in: the same contracts evaluated natively over an enumerated domain -----------------------
def bounded_transport(tier, seed):
    from pyopenapi_gen.core.auth.base import CompositeAuth
    from pyopenapi_gen.core.auth.plugins import ApiKeyAuth, BearerAuth, HeadersAuth, OAuth2Auth

    async def refresh(tok):
        return "fresh-token"
    plugins = [
        ("none", lambda: None), ("bearer", lambda: BearerAuth("tok")), ("headers", lambda: HeadersAuth({"X-A": "1", "Authorization": "H"})),
        ("apikey-header", lambda: ApiKeyAuth("K", "header", "X-Key")), ("apikey-query", lambda: ApiKeyAuth("K", "query", "api_key")),
        ("apikey-cookie", lambda: ApiKeyAuth("K", "cookie", "sid")), ("oauth2", lambda: OAuth2Auth("at")),
        ("oauth2-refresh", lambda: OAuth2Auth("at", refresh)),
        ("composite(bearer,apikey-query)", lambda: CompositeAuth(BearerAuth("t1"), ApiKeyAuth("K", "query", "k"))),
        ("composite(headers,bearer,apikey-cookie)", lambda: CompositeAuth(HeadersAuth({"Authorization": "H"}), BearerAuth("t2"), ApiKeyAuth("C", "cookie", "c"))),
        ("composite(nested)", lambda: CompositeAuth(BearerAuth("a"), CompositeAuth(HeadersAuth({"Authorization": "b", "X": "1"}), ApiKeyAuth("q", "query", "k")), BearerAuth("c"))),
        ("third-party(params+header)", lambda: H.ParamsPlugin("sg")),
    ]
    defaults = [None, {}, {"A": "d", "Authorization": "default", "X-Key": "dk"}]
    bearers = [None, "bt"]
    kwargss = [{}, {"headers": {"A": "r", "B": "2"}}, {"params": {"q": "1"}, "json": {"x": 1}}, {"headers": {"Authorization": "req"}, "cookies": {"c0": "v"}, "data": "raw"},
               # the caller's own params / cookies spelled like a plugin's key name up to letter case (query and cookie names are case sensitive: they stay)
               {"params": {"API_KEY": "caller", "Api_Key": "c2", "q": "1"}, "cookies": {"SID": "caller", "Sid": "c2"}, "headers": {"x-key": "lower"}},
               {"headers": {"X-Int": 7, "X-Zero": 0, "X-Flag": False, "X-Yes": True, "X-List": ["a", "b"], "X-Nums": [1, 2], "X-Text": "7"}}]
    statuses = [200, 204] if tier == "quick" else [200, 201, 204, 299]
    n = 0
    distinct = set()
    failures = []
    for (pn, mk), d, b, kw, sc in itertools.product(plugins, defaults, bearers, kwargss, statuses):
        res, log = H.run_transport_request(d, b, mk(), "POST", "/p", kw, sc)
        n += 1
        distinct.add((pn, repr(d), b, repr(kw), sc))
        if res.failed:
            failures.append({"id": f"bounded:HttpxTransport.request:{res.failed[0][0]}", "detail": str(res.failed),
                             "input": {"plugin": pn, "defaults": d, "bearer": b, "kwargs": kw, "status": sc}})
    return {"function": "HttpxTransport.request (+ real plugins) — sidecar contract evaluated natively", "backend": "run-time contract monitor",
            "bound": f"{len(plugins)} plugin configurations x {len(defaults)} default-header maps x {len(bearers)} bearer x {len(kwargss)} kwargs x {len(statuses)} statuses",
            "evaluations": n, "distinct_nontrivial": len(distinct), "exhaustive": True, "failures": failures}


def _send(transport, log, **kw):
    import asyncio

    async def go():
        return await transport.request("GET", "/p", **kw)
    asyncio.run(go())
    return log[-1]


def _transport(auth, log):
    import httpx
    from pyopenapi_gen.core.http_transport import HttpxTransport
    t = HttpxTransport("https://example.invalid", auth=auth, default_headers={"A": "d"})

    async def fake_request(m, u, **kw):
        log.append(dict(kw))
        return httpx.Response(200, text="ok", request=httpx.Request(m, "https://example.invalid" + u))
    t._client.request = fake_request
    return t


def bounded_composition_order(tier, seed):
    """nested composites: the header written last in depth-first, left-to-right order of the CONSTRUCTION tree wins (oracle: a fold over the
    tree the harness built, not over the object's own .plugins)"""
    from pyopenapi_gen.core.auth.base import CompositeAuth
    from pyopenapi_gen.core.auth.plugins import HeadersAuth
    leaves = ["L1", "L2", "L3", "L4"]

    def trees(names):
        # all ways to nest a sequence of leaves into composites (ordered partitions, one level of recursion per group)
        if len(names) == 1:
            yield names[0]
            return
        for k in range(1, len(names) + 1):
            for rest in ([()] if k == len(names) else [None]):
                pass
        # split into consecutive groups
        def splits(seq):
            if not seq:
                yield []
                return
            for i in range(1, len(seq) + 1):
                for tail in splits(seq[i:]):
                    yield [seq[:i]] + tail
        for groups in splits(names):
            if len(groups) == 1:
                continue
            for combo in itertools.product(*[list(trees(g)) for g in groups]):
                yield tuple(combo)

    def build(t):
        if isinstance(t, str):
            return HeadersAuth({"Authorization": t, "X-" + t: "1"})
        return CompositeAuth(*[build(x) for x in t])

    def order(t):
        return [t] if isinstance(t, str) else [y for x in t for y in order(x)]
    n, failures = 0, []
    for k in (2, 3, 4):
        for names in itertools.permutations(leaves, k):
            for t in trees(list(names)):
                if isinstance(t, str):
                    continue
                log = []
                sent = _send(_transport(build(t), log), log)
                n += 1
                exp = order(t)[-1]
                got = (sent.get("headers") or {}).get("Authorization")
                missing = [x for x in order(t) if (sent.get("headers") or {}).get("X-" + x) != "1"]
                if got != exp or missing:
                    failures.append({"id": "bounded:composite:composition-order", "detail": f"CompositeAuth tree {t!r}: Authorization sent {got!r}, expected {exp!r} "
                                     f"(last writer in composition order); contributions missing: {missing}", "input": {"tree": repr(t)}})
                    break
    return {"function": "CompositeAuth (arbitrarily nested) under HttpxTransport.request: last writer in depth-first construction order wins, every leaf contributes",
            "backend": "bounded", "bound": "every nesting of every ordered selection of 2..4 distinct header-writing leaves", "evaluations": n, "distinct_nontrivial": n,
            "exhaustive": False, "failures": failures[:3]}


def bounded_repeated_requests(tier, seed):
    """the plugin chain runs for EVERY request: a credential that changes between two otherwise identical requests is sent changed"""
    from pyopenapi_gen.core.auth.base import CompositeAuth
    from pyopenapi_gen.core.auth.plugins import ApiKeyAuth, BearerAuth, OAuth2Auth
    n, failures = 0, []
    counter = {"n": 0}

    async def refresh(tok):
        counter["n"] += 1
        return f"token-{counter['n']}"

    def mutate_bearer(p):
        p.token = "rotated"

    def mutate_key(p):
        p.key = "rotated"
    cases = [("oauth2-refresh", lambda: OAuth2Auth("t0", refresh), None, lambda h, i: h.get("Authorization") == f"Bearer token-{i}"),
             ("bearer-token-reassigned", lambda: BearerAuth("first"), mutate_bearer, lambda h, i: h.get("Authorization") == ("Bearer first" if i == 1 else "Bearer rotated")),
             ("apikey-reassigned", lambda: ApiKeyAuth("first", "header", "X-Key"), mutate_key, lambda h, i: h.get("X-Key") == ("first" if i == 1 else "rotated")),
             ("composite(oauth2-refresh)", lambda: CompositeAuth(ApiKeyAuth("k", "header", "X-Key"), OAuth2Auth("t0", refresh)), None, None)]
    for name, mk, mutate, ok in cases:
        for kw in ({}, {"headers": {"B": "1"}}, {"params": {"page": "1"}}):
            counter["n"] = 0
            plugin = mk()
            log = []
            t = _transport(plugin, log)
            seen = []
            for i in (1, 2, 3):
                sent = _send(t, log, **{k: dict(v) for k, v in kw.items()})
                n += 1
                h = sent.get("headers") or {}
                seen.append(h.get("Authorization") or h.get("X-Key"))
                if ok is not None and not ok(h, i):
                    failures.append({"id": f"bounded:repeated-request:{name}", "detail": f"{name}: request {i} of 3 identical requests ({kw}) carried {seen[-1]!r}: "
                                     f"the plugin was not consulted again", "input": {"plugin": name, "kwargs": kw, "request": i}})
                    break
                if ok is None and h.get("Authorization") != f"Bearer token-{i}":
                    failures.append({"id": f"bounded:repeated-request:{name}", "detail": f"{name}: request {i} carried {h.get('Authorization')!r}", "input": {"plugin": name, "request": i}})
                    break
                if mutate is not None and i == 1:
                    mutate(plugin)
    seen_ids, uniq = set(), []
    for f in failures:
        if f["id"] not in seen_ids:
            seen_ids.add(f["id"])
            uniq.append(f)
    return {"function": "HttpxTransport.request called three times with identical arguments while the credential changes (refresh callback / attribute reassigned)",
            "backend": "bounded", "bound": "4 plugin configurations x 3 request shapes x 3 consecutive requests", "evaluations": n, "distinct_nontrivial": n,
            "exhaustive": False, "failures": uniq}


def bounded_header_text(tier, seed):
    """the transport's rendering of per-request header values against a reference (OpenAPI style `simple`): text is never altered (whitespace, case,
    digits, commas, empty), typed values become text, names are kept"""
    from pyopenapi_gen.core import http_transport as T
    fn_one, fn_map = getattr(T, "_header_text", None), getattr(T, "_header_texts", None)
    if fn_one is None or fn_map is None:
        return {"function": "_header_text / _header_texts", "backend": "bounded", "bound": "helpers absent", "evaluations": 0, "distinct_nontrivial": 0, "failures": []}
    texts = ["", " ", "a", " a", "a ", "A b", "7", "007", "true", "True", "a,b", "a, b", "\tx", "x\n", "é", "0", "None", "[1]", "{}", "Bearer t", "  two  "]
    typed = [0, 1, -1, 7, 10 ** 12, True, False, ["a", "b"], ["a"], [], [1, 2], ["a", 1, True], ("x", "y"), [" a ", "b"]]
    failures, n = [], 0
    for v in texts + typed:
        n += 1
        got, want = fn_one(v), H.header_text_ref(v)
        if got != want or not isinstance(got, str):
            failures.append({"id": f"bounded:header-text:{'text' if isinstance(v, str) else type(v).__name__}", "detail": f"_header_text({v!r}) == {got!r}, reference {want!r}", "input": {"value": v}})
    names = ["X-A", "x-a", "X-Debug", "Authorization", "Content-Type", "", "é", "a b"]
    for i in range(len(names)):
        n += 1
        d = {nm: (texts + typed)[(3 * j + i) % (len(texts) + len(typed))] for j, nm in enumerate(names[: i + 1])}
        got = fn_map(d)
        want = {k: H.header_text_ref(v) for k, v in d.items()}
        if got != want:
            failures.append({"id": "bounded:header-text:map", "detail": f"_header_texts({d!r}) == {got!r}, reference {want!r}", "input": {"headers": {k: v if not isinstance(v, tuple) else list(v) for k, v in d.items()}}})
    return {"function": "_header_text / _header_texts against a reference", "backend": "bounded", "bound": f"{len(texts)} texts, {len(typed)} typed values, {len(names)} maps",
            "evaluations": n, "distinct_nontrivial": n, "exhaustive": False, "failures": failures}


BOUNDED = [bounded_transport, bounded_composition_order, bounded_repeated_requests, bounded_header_text]

MANIFEST = {
    "category": "proof",
    "text": "Every obligation generated from the current source of the four auth plugins, CompositeAuth, HttpxTransport._prepare_headers "
            "and HttpxTransport.request is discharged by z3 for all header maps, tokens, keys, kwargs and plugin compositions (unbounded); "
            "the top-level postcondition of request is the property statement. A change that breaks it fails a named obligation and the "
            "solver's counter-model is replayed on the real transport.",
    "note": "Assumed: httpx passes kwargs through; an arbitrary third-party plugin is a deterministic function of (plugin, args) returning a dict; "
            "OAuth2 refresh callback modelled as an uninterpreted function; await without interleaving (OAuth2Auth shares access_token across "
            "awaits — not modelled). The enumerated native run of the same contracts is a bounded stand-in, reported separately.",
    "technique": "contract-based deductive verification (own VC generator over the real AST + z3/cvc5), counter-model replay",
}
