"""C13/C07: the tag grouping that decides which client class (and which mock class) gets which operation.
The endpoints emitter and the mocks emitter each group the operations in a nested loop.  Both inner-loop bodies carry the SAME statement contract
(one arbitrary (operation, tag) pair): the operation is appended to the bucket of normalize_tag_key(tag), the tag spelling is appended to that key's
candidates, every other bucket is unchanged and nothing already in the bucket is lost.  Two loops that satisfy this contract from empty maps over
the same (operation, tag) sequence build equal maps (induction over the loop; the outer loops are compared syntactically in props/C13.py), so the
endpoint clients, APIClient and the mocks see the same tag -> operations relation."""
from pyvc.contracts import contract
from pyopenapi_gen.core.utils import NameSanitizer

EE = "pyopenapi_gen.emitters.endpoints_emitter:EndpointsEmitter.emit"
ME = "pyopenapi_gen.emitters.mocks_emitter:MocksEmitter._group_operations_by_tag"


def _bucket(d, k):
    return d[k] if k in d else []


def grouped_step(ops, cands, old_ops, old_cands, key, op, tag):
    return ops[key] == _bucket(old_ops, key) + [op] and cands[key] == _bucket(old_cands, key) + [tag]


OPTS = dict(region_body_only=True, types={"tag_key_to_ops": "dict", "tag_key_to_candidates": "dict", "tag": "str", "other": "str"},
            dict_of_lists={"tag_key_to_ops": "defaultdict", "tag_key_to_candidates": "defaultdict"},
            functional_opaque=["NameSanitizer.normalize_tag_key", "normalize_tag_key"], nothrow_calls=["normalize_tag_key"], abstract_unsupported=True)

c = contract(EE + "#group-one-tag", props=["C13", "C07"], region_for_target="tag", **dict(OPTS, types=dict(OPTS["types"], op="any")))


@c.ensures(only_exit="end", note="C13/C07: the (operation, tag) pair lands in the bucket of the normalised tag key, at the end, and nothing else changes")
def ee_grouped(tag_key_to_ops, tag_key_to_candidates, op, tag, old):
    key = NameSanitizer.normalize_tag_key(tag)
    return grouped_step(tag_key_to_ops, tag_key_to_candidates, old.tag_key_to_ops, old.tag_key_to_candidates, key, op, tag)


@c.ensures(only_exit="end")
def ee_other_buckets_unchanged(tag_key_to_ops, tag_key_to_candidates, tag, other, old):
    key = NameSanitizer.normalize_tag_key(tag)
    return other == key or (_bucket(tag_key_to_ops, other) == _bucket(old.tag_key_to_ops, other)
                            and _bucket(tag_key_to_candidates, other) == _bucket(old.tag_key_to_candidates, other))


c = contract(ME + "#group-one-tag", props=["C13", "C07"], region_for_target="tag", **dict(OPTS, types=dict(OPTS["types"], operation="any")))


@c.ensures(only_exit="end", note="same statement contract as the endpoints emitter's grouping loop")
def me_grouped(tag_key_to_ops, tag_key_to_candidates, operation, tag, old):
    key = NameSanitizer.normalize_tag_key(tag)
    return grouped_step(tag_key_to_ops, tag_key_to_candidates, old.tag_key_to_ops, old.tag_key_to_candidates, key, operation, tag)


@c.ensures(only_exit="end")
def me_other_buckets_unchanged(tag_key_to_ops, tag_key_to_candidates, tag, other, old):
    key = NameSanitizer.normalize_tag_key(tag)
    return other == key or (_bucket(tag_key_to_ops, other) == _bucket(old.tag_key_to_ops, other)
                            and _bucket(tag_key_to_candidates, other) == _bucket(old.tag_key_to_candidates, other))
