"""Contracts for the leaf hooks of the bundled converter (C03, C16): each hook is the stated stdlib composition; the round-trip laws
follow from the assumed inverse laws of base64 / isoformat (lemma functions below are verified like any other function)."""
from pyvc.contracts import contract
from pyvc.spec import uf, implies
from pyopenapi_gen.core.cattrs_converter import (structure_date, structure_with_base64_bytes, unstructure_bytes_to_base64, unstructure_date)

CV = "pyopenapi_gen.core.cattrs_converter"


def b64enc_text(b):
    """base64.b64encode(b).decode('utf-8') as one uninterpreted function of b"""
    return uf("call.decode", uf("call.base64.b64encode", b))


c = contract(f"{CV}:unstructure_bytes_to_base64", props=["C03", "C16"], functional_opaque=["base64.b64encode", "base64.b64encode(data).decode"],
             nothrow_calls=["b64encode", "decode"], nothrow=True)

@c.ensures
def ub_post(data, result):
    return result == uf("call.decode", uf("call.base64.b64encode", data), "utf-8")


c = contract(f"{CV}:structure_with_base64_bytes", props=["C03", "C16"], functional_opaque=["base64.b64decode"], nothrow_calls=["b64decode"])

@c.ensures
def sb_post(data, _, result):
    if isinstance(data, str):
        return result == uf("call.base64.b64decode", data)
    return result is data


c = contract(f"{CV}:unstructure_date", props=["C03", "C16"], functional_opaque=["data.isoformat"], nothrow_calls=["isoformat"], nothrow=True)

@c.ensures
def ud_post(data, result):
    return result == uf("call.isoformat", data)


# ---- round-trip lemmas (verified functions of this file: they call the REAL hooks through their contracts) -----------------------
def bytes_roundtrip(b):
    return structure_with_base64_bytes(unstructure_bytes_to_base64(b), bytes)


def _b64_inverse(b):
    """assumed stdlib law: base64.b64decode(base64.b64encode(b).decode('utf-8')) == b, and the encoded text is a str"""
    enc = uf("call.decode", uf("call.base64.b64encode", b), "utf-8")
    return isinstance(enc, str) and uf("call.base64.b64decode", enc) == b


c = contract("contracts.leafhooks:bytes_roundtrip", props=["C03", "C16"])

@c.requires
def br_axiom(b):
    return _b64_inverse(b)

@c.ensures(note="C03/C16: byte values survive encode-then-decode unchanged")
def br_identity(b, result):
    return result == b
