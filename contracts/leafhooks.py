"""Contracts for the leaf hooks of the bundled converter (C03, C16): each hook is the stated stdlib composition; the round-trip laws
follow from the assumed inverse laws of base64 / isoformat (lemma functions below are verified like any other function)."""
from pyvc.contracts import contract
from pyvc.spec import uf, implies
from pyopenapi_gen.core.cattrs_converter import (structure_date, structure_with_base64_bytes, unstructure_bytes_to_base64, unstructure_date)

CV = "pyopenapi_gen.core.cattrs_converter"


def b64enc_text(b):
    """base64.b64encode(b).decode('utf-8') as one uninterpreted function of b"""
    return uf("call.decode", uf("call.base64.b64encode", b))


c = contract(f"{CV}:unstructure_bytes_to_base64", props=["C03", "C16"], functional_opaque=["base64.b64encode", "base64.b64encode(data).decode"],
             nothrow_calls=["b64encode", "decode"], nothrow=True)

@c.ensures
def ub_post(data, result):
    return result == uf("call.decode", uf("call.base64.b64encode", data), "utf-8")


c = contract(f"{CV}:structure_with_base64_bytes", props=["C03", "C16"], functional_opaque=["base64.b64decode"], nothrow_calls=["b64decode"])

@c.ensures
def sb_post(data, _, result):
    if isinstance(data, str):
        return result == uf("call.base64.b64decode", data)
    return result is data


c = contract(f"{CV}:unstructure_date", props=["C03", "C16"], functional_opaque=["data.isoformat"], nothrow_calls=["isoformat"], nothrow=True)

@c.ensures
def ud_post(data, result):
    return result == uf("call.isoformat", data)


# ---- round-trip lemmas (verified functions of this file: they call the REAL hooks through their contracts) -----------------------
def bytes_roundtrip(b):
    return structure_with_base64_bytes(unstructure_bytes_to_base64(b), bytes)


def _b64_inverse(b):
    """assumed stdlib law: base64.b64decode(base64.b64encode(b).decode('utf-8')) == b, and the encoded text is a str"""
    enc = uf("call.decode", uf("call.base64.b64encode", b), "utf-8")
    return isinstance(enc, str) and uf("call.base64.b64decode", enc) == b


c = contract("contracts.leafhooks:bytes_roundtrip", props=["C03", "C16"])

@c.requires
def br_axiom(b):
    return _b64_inverse(b)

@c.ensures(note="C03/C16: byte values survive encode-then-decode unchanged")
def br_identity(b, result):
    return result == b


# ---- date / time / uuid / datetime hooks: each is the stated stdlib composition; round trips follow from the assumed inverse laws --------------
from datetime import date, time  # noqa: E402
from uuid import UUID  # noqa: E402
try:  # these hooks were added by a repair; a tree without them must not crash the checker (their contracts then simply do not apply)
    from pyopenapi_gen.core.cattrs_converter import structure_time, structure_uuid, unstructure_time, unstructure_uuid  # noqa: E402
except ImportError:  # pragma: no cover
    structure_time = structure_uuid = unstructure_time = unstructure_uuid = None

c = contract(f"{CV}:structure_date", props=["C03", "C16"], functional_opaque=["date.fromisoformat", "fromisoformat"])

@c.ensures(note="an ISO date string is parsed by date.fromisoformat, a date passes through")
def sd_post(data, _, result):
    if isinstance(data, date):
        return result is data
    return isinstance(data, str) and result == date.fromisoformat(data)

@c.raises
def sd_raises(data, _, exc):
    return not isinstance(data, date)


c = contract(f"{CV}:unstructure_time", props=["C03", "C16"], functional_opaque=["data.isoformat", "isoformat"], nothrow_calls=["isoformat"], nothrow=True)

@c.ensures
def ut_post(data, result):
    return result == data.isoformat()


c = contract(f"{CV}:structure_time", props=["C03", "C16"], functional_opaque=["time.fromisoformat", "fromisoformat"])

@c.ensures(note="an ISO time string is parsed by time.fromisoformat, a time passes through")
def st_post(data, _, result):
    if isinstance(data, time):
        return result is data
    return isinstance(data, str) and result == time.fromisoformat(data)

@c.raises
def st_raises(data, _, exc):
    return not isinstance(data, time)


c = contract(f"{CV}:unstructure_uuid", props=["C03", "C16"], nothrow=True)

@c.ensures
def uu_post(data, result):
    return result == str(data)


c = contract(f"{CV}:structure_uuid", props=["C03", "C16"], functional_opaque=["UUID", "uuid.UUID"])

@c.ensures(note="a string is parsed by UUID(...), a UUID passes through")
def su_post(data, _, result):
    if isinstance(data, UUID):
        return result is data
    return isinstance(data, str) and result == UUID(data)

@c.raises
def su_raises(data, _, exc):
    return not isinstance(data, UUID)


def date_roundtrip(d):
    return structure_date(unstructure_date(d), date)


c = contract("contracts.leafhooks:date_roundtrip", props=["C03", "C16"], functional_opaque=["date.fromisoformat", "fromisoformat", "d.isoformat", "isoformat"])

@c.requires
def dr_axiom(d):
    """assumed stdlib law: date.fromisoformat(d.isoformat()) == d for a date d, and isoformat() returns a str"""
    return isinstance(d, date) and isinstance(d.isoformat(), str) and date.fromisoformat(d.isoformat()) == d

@c.ensures(note="C03/C16: date values survive unstructure-then-structure unchanged")
def dr_identity(d, result):
    return result == d


def time_roundtrip(t):
    return structure_time(unstructure_time(t), time)


c = contract("contracts.leafhooks:time_roundtrip", props=["C03", "C16"], functional_opaque=["time.fromisoformat", "fromisoformat", "t.isoformat", "isoformat"])

@c.requires
def tr_axiom(t):
    """assumed stdlib law: time.fromisoformat(t.isoformat()) == t, isoformat() returns a str"""
    return isinstance(t, time) and isinstance(t.isoformat(), str) and time.fromisoformat(t.isoformat()) == t

@c.ensures(note="C03/C16: time values survive unstructure-then-structure unchanged")
def tr_identity(t, result):
    return result == t


def uuid_roundtrip(u):
    return structure_uuid(unstructure_uuid(u), UUID)


c = contract("contracts.leafhooks:uuid_roundtrip", props=["C03", "C16"], functional_opaque=["UUID", "uuid.UUID"])

@c.requires
def ur_axiom(u):
    """assumed stdlib law: UUID(str(u)) == u"""
    return isinstance(u, UUID) and UUID(str(u)) == u

@c.ensures(note="C03/C16: UUID values survive unstructure-then-structure unchanged")
def ur_identity(u, result):
    return result == u
