"""Contracts for the parameter processing of endpoint generation (C04) — placeholder module: the C04 obligations are the E obligations
generated per emitted method by props/emitted.py."""
