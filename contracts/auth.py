"""Contracts for core/auth (C17).  Top-level postconditions come from the property statement:
each plugin changes exactly its own entry of its own sub-map (headers / params / cookies) of the request
arguments; every other key and every other entry passes through unchanged (whole-map postcondition)."""
from pyvc.contracts import contract
from pyvc.spec import dict_set, dict_merge, sub_dict, implies, uf, uf_dict, is_str_dict
from pyopenapi_gen.core.auth.plugins import ApiKeyAuth, BearerAuth, HeadersAuth, OAuth2Auth
from pyopenapi_gen.core.auth.base import CompositeAuth

P = "pyopenapi_gen.core.auth.plugins"
B = "pyopenapi_gen.core.auth.base"


# ---- spec functions (pure; written from the statement) ---------------------------------------------------
def put(args, sub, name, value):
    """args with args[sub][name] = value, every other key / entry unchanged."""
    return dict_set(args, sub, dict_set(sub_dict(args, sub), name, value))


def submaps_ok(args):
    return (("headers" not in args or isinstance(args["headers"], dict))
            and ("params" not in args or isinstance(args["params"], dict))
            and ("cookies" not in args or isinstance(args["cookies"], dict)))


def location_sub(location):
    return "headers" if location == "header" else ("params" if location == "query" else "cookies")


def effect_of(p, args):
    """What plugin p contributes to request arguments args (dispatch on the concrete plugin class;
    an unknown BaseAuth implementation is an uninterpreted function of (plugin, args))."""
    if isinstance(p, BearerAuth):
        return put(args, "headers", "Authorization", "Bearer " + p.token)
    if isinstance(p, HeadersAuth):
        return dict_set(args, "headers", dict_merge(sub_dict(args, "headers"), p.headers))
    if isinstance(p, ApiKeyAuth):
        return put(args, location_sub(p.location), p.name, p.key)
    return uf_dict("plugin_effect", p, args)


# ---- BearerAuth ------------------------------------------------------------------------------------
c = contract(f"{P}:BearerAuth.authenticate_request", props=["C17", "C04"], types={"request_args": "dict"}, nothrow=True,
             modifies=["request_args"], returns="param:request_args")

@c.requires
def bearer_pre(self, request_args):
    return isinstance(self.token, str) and submaps_ok(request_args)

@c.ensures
def bearer_post(self, request_args, old, result):
    return result is request_args and request_args == put(old.request_args, "headers", "Authorization", "Bearer " + self.token)


# ---- HeadersAuth -----------------------------------------------------------------------------------
c = contract(f"{P}:HeadersAuth.authenticate_request", props=["C17", "C04"], types={"request_args": "dict"}, nothrow=True,
             modifies=["request_args"], returns="param:request_args")

@c.requires
def hdrs_pre(self, request_args):
    return isinstance(self.headers, dict) and submaps_ok(request_args)

@c.ensures
def hdrs_post(self, request_args, old, result):
    return result is request_args and request_args == dict_set(
        old.request_args, "headers", dict_merge(sub_dict(old.request_args, "headers"), self.headers))


# ---- ApiKeyAuth ------------------------------------------------------------------------------------
c = contract(f"{P}:ApiKeyAuth.authenticate_request", props=["C17", "C04"], types={"request_args": "dict"},
             raises_only=["ValueError"], modifies=["request_args"], returns="param:request_args")

@c.requires
def apikey_pre(self, request_args):
    return (isinstance(self.key, str) and isinstance(self.name, str) and isinstance(self.location, str)
            and submaps_ok(request_args))

@c.ensures
def apikey_post(self, request_args, old, result):
    return (self.location in ("header", "query", "cookie") and result is request_args
            and request_args == put(old.request_args, location_sub(self.location), self.name, self.key))

@c.raises
def apikey_invalid(self, request_args, old, exc):
    return self.location not in ("header", "query", "cookie") and request_args == old.request_args


# ---- OAuth2Auth ------------------------------------------------------------------------------------
# The refresh callback is a caller-supplied coroutine: modelled as an uninterpreted function of its argument
# (assumption: it does not touch request_args or the plugin).
c = contract(f"{P}:OAuth2Auth.authenticate_request", props=["C17", "C04"], types={"request_args": "dict"},
             functional_opaque=["self.refresh_callback"], modifies=["request_args", "self.access_token"],
             returns="param:request_args")

@c.requires
def oauth_pre(self, request_args):
    return (isinstance(self.access_token, str) and submaps_ok(request_args)
            and (self.refresh_callback is None
                 or uf("call.self.refresh_callback", self.access_token) is None
                 or isinstance(uf("call.self.refresh_callback", self.access_token), str)))

@c.ensures
def oauth_token(self, request_args, old, result):
    new = uf("call.self.refresh_callback", old.self.access_token)
    refreshed = old.self.refresh_callback is not None and new is not None and new != "" and new != old.self.access_token
    return self.access_token == (new if refreshed else old.self.access_token)

@c.ensures
def oauth_post(self, request_args, old, result):
    return result is request_args and request_args == put(old.request_args, "headers", "Authorization", "Bearer " + self.access_token)


# ---- BaseAuth (protocol): assumed contract for an arbitrary plugin ------------------------------------------
c = contract(f"{B}:BaseAuth.authenticate_request", props=["C17", "C04"], abstract=True, on_opaque=True,
             assumed="protocol method: an arbitrary plugin is a function of (plugin, request_args); it may mutate "
                     "request_args and returns a dict", modifies=["request_args"], returns="dict")

@c.ensures
def base_effect(self, request_args, old, result):
    return result == effect_of(self, old.request_args)


# ---- CompositeAuth ---------------------------------------------------------------------------------
def fold_effects(plugins: list, n: int, args: dict) -> dict:
    """args after the first n plugins, applied left to right (composition order)."""
    if n <= 0:
        return args
    return effect_of(plugins[n - 1], fold_effects(plugins, n - 1, args))


c = contract(f"{B}:CompositeAuth.authenticate_request", props=["C17", "C04"], types={"request_args": "dict"},
             shape={"self.plugins": "list"}, modifies=["request_args"], returns="dict")

@c.invariant(0)
def composite_inv(self, request_args, old, i):
    return request_args == fold_effects(self.plugins, i, old.request_args)

@c.ensures
def composite_post(self, request_args, old, result):
    return result == fold_effects(self.plugins, len(self.plugins), old.request_args)


# ---- CompositeAuth.__init__: the composition order IS the argument order -------------------------------
c = contract(f"{B}:CompositeAuth.__init__", props=["C17", "C04"], types={"plugins": "list"}, abstract_unsupported=True)

@c.ensures(note="C17 'each plugin's contribution in composition order': the plugin sequence that authenticate_request folds over is the constructor's "
                "argument sequence — same plugins, same order, nothing flattened, dropped or reordered (a nested composite stays one element, applied in place)")
def composite_init_keeps_order(self, plugins):
    return len(self.plugins) == len(plugins) and list(self.plugins) == list(plugins)
