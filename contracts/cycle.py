"""Contracts for the cycle tracker and the recursive parser group (C08; reused by C02/C19).

Abstract tracker state  T = (depth, stack, states)  lives in context.unified_cycle_context.
Property-carrying clauses are taken from the statement of C08; each helper clause says why its negation breaks it."""
from pyvc.contracts import contract
from pyvc.spec import implies, remove_first, distinct, dict_without, env_int, env_is_int
from pyopenapi_gen.core.parsing.unified_cycle_detection import CycleAction, SchemaState

U = "pyopenapi_gen.core.parsing.unified_cycle_detection"
CX = "pyopenapi_gen.core.parsing.context"
SP = "pyopenapi_gen.core.parsing.schema_parser"

UCC_SHAPE = {"context.recursion_depth": "int", "context.schema_stack": "list", "context.schema_states": "dict",
             "context.parsed_schemas": "dict", "context.detected_cycles": "list", "context.depth_exceeded_schemas": "set",
             "context.cycle_detected": "bool", "context.max_depth": "int", "context.allow_self_reference": "bool"}
UCC_MOD = ["context.recursion_depth", "context.schema_stack", "context.schema_states", "context.parsed_schemas",
           "context.detected_cycles", "context.depth_exceeded_schemas", "context.cycle_detected"]


def name_ok(schema_name):
    return schema_name is None or isinstance(schema_name, str)


def max_depth_of(context):
    return env_int("PYOPENAPI_MAX_DEPTH", context.max_depth)


def is_action(a):
    return a in (CycleAction.CONTINUE_PARSING, CycleAction.RETURN_PLACEHOLDER, CycleAction.CREATE_PLACEHOLDER, CycleAction.RETURN_EXISTING)


def terminal(s):
    return s in (SchemaState.COMPLETED, SchemaState.PLACEHOLDER_CYCLE, SchemaState.PLACEHOLDER_DEPTH, SchemaState.PLACEHOLDER_SELF_REF)


def anonymous_action_ok(result, context0):
    """an anonymous schema continues, or is cut by a depth placeholder exactly when the limit is exceeded"""
    if context0.recursion_depth > max_depth_of(context0) + 1:
        return result.action == CycleAction.CREATE_PLACEHOLDER and result.placeholder_schema is not None
    return result.action == CycleAction.CONTINUE_PARSING


# ---- analyze_cycle ------------------------------------------------------------------------------------
c = contract(f"{U}:analyze_cycle", props=["C08"], types={"schema_name": "str", "schema_stack": "list"}, nothrow=True,
             returns="obj:CycleInfo")

@c.ensures
def ac_post(schema_name, schema_stack, old, result):
    return (schema_stack == old.schema_stack and isinstance(result.is_direct_self_reference, bool)
            and isinstance(result.cycle_path, list) and len(result.cycle_path) >= 2)


def _not_none(result):
    """placeholder constructors return an IRSchema"""
    return result is not None


# ---- unified_cycle_check --------------------------------------------------------------------------------
c = contract(f"{U}:unified_cycle_check", props=["C08"], shape=UCC_SHAPE, modifies=UCC_MOD, returns="obj:CycleDetectionResult", nothrow=True,

             nothrow_calls=["create_depth_placeholder", "create_cycle_placeholder", "create_self_ref_placeholder", "join", "IRSchema",
                            "__post_init__"],
             dependency_post={"create_depth_placeholder": _not_none, "create_cycle_placeholder": _not_none, "create_self_ref_placeholder": _not_none},
             abstract_unsupported=True, tracked_names=["recursion_depth", "schema_stack", "schema_states"])

@c.requires
def ucc_pre(schema_name, context):
    return name_ok(schema_name) and context.recursion_depth >= 0 and env_is_int("PYOPENAPI_MAX_DEPTH")

@c.ensures(note="check never moves depth or stack: enter/exit own them (needed for every balance argument)")
def ucc_frame(schema_name, context, old, result):
    return context.recursion_depth == old.context.recursion_depth and context.schema_stack == old.context.schema_stack

@c.ensures(note="only the state of the checked name may change")
def ucc_states_local(schema_name, context, old, result):
    if schema_name is None:
        return context.schema_states == old.context.schema_states
    return dict_without(context.schema_states, schema_name) == dict_without(old.context.schema_states, schema_name)

@c.ensures(note="CONTINUE for a named schema means: not already open (re-entrance is detectable) and now IN_PROGRESS")
def ucc_continue(schema_name, context, old, result):
    if not is_action(result.action):
        return False
    if result.action == CycleAction.CONTINUE_PARSING and schema_name is not None:
        return schema_name not in old.context.schema_stack and context.schema_states.get(schema_name) == SchemaState.IN_PROGRESS
    return True

@c.ensures(note="which action: existing iff COMPLETED before; placeholder iff already a placeholder")
def ucc_cases(schema_name, context, old, result):
    if schema_name is None:
        return anonymous_action_ok(result, old.context)
    s0 = old.context.schema_states.get(schema_name, SchemaState.NOT_STARTED)
    return ((result.action == CycleAction.RETURN_EXISTING) == (s0 == SchemaState.COMPLETED)
            and implies(result.action == CycleAction.CREATE_PLACEHOLDER, result.placeholder_schema is not None))

@c.ensures(note="C08 statement: recursion is cut by placeholders at the configured depth limit — for every name, "
                "including anonymous schemas")
def ucc_depth_cut(schema_name, context, old, result):
    s0 = old.context.schema_states.get(schema_name, SchemaState.NOT_STARTED) if schema_name is not None else SchemaState.NOT_STARTED
    limit = max_depth_of(old.context) if schema_name is not None else max_depth_of(old.context) + 1  # anonymous: one level of slack
    if old.context.recursion_depth > limit and not terminal(s0):
        return result.action != CycleAction.CONTINUE_PARSING
    return True


# ---- unified_enter_schema / unified_exit_schema ---------------------------------------------------------------
c = contract(f"{U}:unified_enter_schema", props=["C08"], shape=UCC_SHAPE, modifies=UCC_MOD, returns="obj:CycleDetectionResult", nothrow=True)

@c.requires
def enter_pre(schema_name, context):
    return name_ok(schema_name) and context.recursion_depth >= 0 and env_is_int("PYOPENAPI_MAX_DEPTH")

@c.ensures(note="every enter counts one level: depth' = depth + 1 (depth bounds the number of open activations)")
def enter_depth(schema_name, context, old, result):
    return context.recursion_depth == old.context.recursion_depth + 1

@c.ensures(note="pushed iff parsing continues for a named schema")
def enter_stack(schema_name, context, old, result):
    if result.action == CycleAction.CONTINUE_PARSING and schema_name:
        return context.schema_stack == old.context.schema_stack + [schema_name] and schema_name not in old.context.schema_stack
    return context.schema_stack == old.context.schema_stack

@c.ensures
def enter_action_none(schema_name, context, old, result):
    if schema_name is None:
        return result.action == CycleAction.CONTINUE_PARSING or result.action == CycleAction.CREATE_PLACEHOLDER
    return True

@c.ensures
def enter_action_existing(schema_name, context, old, result):
    if schema_name is None:
        return True
    s0 = old.context.schema_states.get(schema_name, SchemaState.NOT_STARTED)
    return is_action(result.action) and (result.action == CycleAction.RETURN_EXISTING) == (s0 == SchemaState.COMPLETED)

@c.ensures
def enter_action_placeholder(schema_name, context, old, result):
    return implies(result.action == CycleAction.CREATE_PLACEHOLDER, result.placeholder_schema is not None)

@c.ensures
def enter_action_continue(schema_name, context, old, result):
    if schema_name is not None and result.action == CycleAction.CONTINUE_PARSING:
        return context.schema_states.get(schema_name) == SchemaState.IN_PROGRESS
    return True

@c.ensures
def enter_states_local(schema_name, context, old, result):
    if schema_name is None:
        return context.schema_states == old.context.schema_states
    return dict_without(context.schema_states, schema_name) == dict_without(old.context.schema_states, schema_name)


c = contract(f"{U}:unified_exit_schema", props=["C08"], shape=UCC_SHAPE, nothrow=True,
             modifies=["context.recursion_depth", "context.schema_stack", "context.schema_states"], returns="none")

@c.requires
def exit_pre(schema_name, context):
    return name_ok(schema_name) and context.recursion_depth >= 0

@c.ensures(note="every exit gives one level back and never goes below zero")
def exit_depth(schema_name, context, old):
    return context.recursion_depth == (old.context.recursion_depth - 1 if old.context.recursion_depth > 0 else 0)

@c.ensures(note="removes the first occurrence of the name only")
def exit_stack(schema_name, context, old):
    if schema_name:
        return context.schema_stack == remove_first(old.context.schema_stack, schema_name)
    return context.schema_stack == old.context.schema_stack

@c.ensures(note="IN_PROGRESS -> COMPLETED for the exited name, nothing else changes (placeholders stay placeholders)")
def exit_states(schema_name, context, old):
    if schema_name and old.context.schema_states.get(schema_name) == SchemaState.IN_PROGRESS:
        return context.schema_states == dict_set_(old.context.schema_states, schema_name, SchemaState.COMPLETED)
    return context.schema_states == old.context.schema_states


def dict_set_(d, k, v):
    from pyvc.spec import dict_set
    return dict_set(d, k, v)


# ---- ParsingContext delegations ----------------------------------------------------------------------------
def ctx_shape(root):
    u = root + ".unified_cycle_context"
    return {u: "obj:UnifiedCycleContext", u + ".recursion_depth": "int", u + ".schema_stack": "list", u + ".schema_states": "dict",
            u + ".parsed_schemas": "dict", u + ".detected_cycles": "list", u + ".depth_exceeded_schemas": "set",
            u + ".cycle_detected": "bool", u + ".max_depth": "int", u + ".allow_self_reference": "bool",
            root + ".recursion_depth": "int", root + ".currently_parsing": "list", root + ".cycle_detected": "bool",
            root + ".parsed_schemas": "dict"}


def ctx_mod(root):
    u = root + ".unified_cycle_context"
    return [u + ".recursion_depth", u + ".schema_stack", u + ".schema_states", u + ".parsed_schemas", u + ".detected_cycles",
            u + ".depth_exceeded_schemas", u + ".cycle_detected", root + ".recursion_depth", root + ".currently_parsing",
            root + ".cycle_detected"]


c = contract(f"{CX}:ParsingContext.unified_enter_schema", props=["C08"], shape=ctx_shape("self"), modifies=ctx_mod("self"),
             returns="obj:CycleDetectionResult", nothrow=True)

@c.requires
def cx_enter_pre(self, schema_name):
    return name_ok(schema_name) and self.unified_cycle_context.recursion_depth >= 0 and env_is_int("PYOPENAPI_MAX_DEPTH")

@c.ensures
def cx_enter_depth(self, schema_name, old, result):
    u = self.unified_cycle_context
    return u.recursion_depth == old.self.unified_cycle_context.recursion_depth + 1 and self.recursion_depth == u.recursion_depth

@c.ensures
def cx_enter_stack(self, schema_name, old, result):
    u = self.unified_cycle_context
    if result.action == CycleAction.CONTINUE_PARSING and schema_name:
        return u.schema_stack == old.self.unified_cycle_context.schema_stack + [schema_name]
    return u.schema_stack == old.self.unified_cycle_context.schema_stack

@c.ensures
def cx_enter_action(self, schema_name, old, result):
    if schema_name is None:
        return result.action == CycleAction.CONTINUE_PARSING or result.action == CycleAction.CREATE_PLACEHOLDER
    s0 = old.self.unified_cycle_context.schema_states.get(schema_name, SchemaState.NOT_STARTED)
    return is_action(result.action) and (result.action == CycleAction.RETURN_EXISTING) == (s0 == SchemaState.COMPLETED)

@c.ensures
def cx_enter_placeholder(self, schema_name, old, result):
    if result.action == CycleAction.CREATE_PLACEHOLDER:
        return result.placeholder_schema is not None
    return True


c = contract(f"{CX}:ParsingContext.unified_exit_schema", props=["C08"], shape=ctx_shape("self"), nothrow=True, returns="none",
             modifies=["self.unified_cycle_context.recursion_depth", "self.unified_cycle_context.schema_stack",
                       "self.unified_cycle_context.schema_states", "self.recursion_depth", "self.currently_parsing"])

@c.requires
def cx_exit_pre(self, schema_name):
    return name_ok(schema_name) and self.unified_cycle_context.recursion_depth >= 0

@c.ensures
def cx_exit_depth(self, schema_name, old):
    d0 = old.self.unified_cycle_context.recursion_depth
    return self.unified_cycle_context.recursion_depth == (d0 - 1 if d0 > 0 else 0) and self.recursion_depth == self.unified_cycle_context.recursion_depth

@c.ensures
def cx_exit_stack(self, schema_name, old):
    if schema_name:
        return self.unified_cycle_context.schema_stack == remove_first(old.self.unified_cycle_context.schema_stack, schema_name)
    return self.unified_cycle_context.schema_stack == old.self.unified_cycle_context.schema_stack


# ---- the recursive parser group: depth balance ------------------------------------------------------------------
# Why exactly depth' = depth (C08): depth' <= depth is what makes depth zero at rest after every top-level schema;
# depth' >= depth keeps the invariant  depth >= number of open _parse_schema activations, without which the
# configured limit does not bound the interpreter stack.
TRACKED = ["recursion_depth", "schema_stack", "schema_states", "unified_enter_schema", "unified_exit_schema", "_parse_schema",
           "_resolve_ref", "_parse_properties", "_parse_composition_keywords", "_process_all_of", "_parse_any_of_schemas",
           "_parse_one_of_schemas", "unified_cycle_context", "parse_fn", "enter_schema", "exit_schema", "clear_cycle_state"]


def _is_str(result):
    """NameSanitizer.sanitize_class_name returns a str (C20)"""
    return isinstance(result, str)


def depth_of(context):
    return context.unified_cycle_context.recursion_depth


def group_pre(context):
    return context is not None and depth_of(context) >= 0 and env_is_int("PYOPENAPI_MAX_DEPTH")


c = contract(f"{SP}:_parse_schema", props=["C08"], shape=ctx_shape("context"), modifies=ctx_mod("context"),
             abstract_unsupported=True, abstract_comprehensions=True, abstract_conditions=True,
             tracked_names=TRACKED + ["detection_result", "schema_name", "item_schema_name_for_recursive_parse"],
             nothrow_calls=["sanitize_class_name"], dependency_post={"sanitize_class_name": _is_str})

@c.requires(typing=True)
def ps_types(schema_name, schema_node, context, max_depth_override, allow_self_reference):
    return name_ok(schema_name)

@c.requires
def ps_pre(schema_name, schema_node, context, max_depth_override, allow_self_reference):
    return group_pre(context)

@c.ensures(note="C08: depth is back to its entry value on every normal exit")
def ps_balance(schema_name, schema_node, context, old, result):
    return depth_of(context) == old.context.unified_cycle_context.recursion_depth

@c.raises(note="C08: ... and on every exceptional exit (try/finally)")
def ps_balance_exc(schema_name, schema_node, context, old, exc):
    return depth_of(context) == old.context.unified_cycle_context.recursion_depth


# ---- the other members of the mutually recursive group: same balance contract ------------------------------------
GROUP = {
    f"{SP}:_resolve_ref": "context",
    f"{SP}:_parse_composition_keywords": "context",
    f"{SP}:_parse_properties": "context",
    "pyopenapi_gen.core.parsing.keywords.all_of_parser:_process_all_of": "context",
    "pyopenapi_gen.core.parsing.keywords.any_of_parser:_parse_any_of_schemas": "context",
    "pyopenapi_gen.core.parsing.keywords.one_of_parser:_parse_one_of_schemas": "context",
}


def _mk_group(qual, ctxname):
    g = contract(qual, props=["C08"], shape=ctx_shape(ctxname), modifies=ctx_mod(ctxname), abstract_unsupported=True,
                 abstract_comprehensions=True, abstract_conditions=True, tracked_names=TRACKED, nothrow_calls=["sanitize_class_name"],
                 callee_alias={"parse_fn": f"{SP}:_parse_schema", "_parse_schema_func": f"{SP}:_parse_schema"})

    def pre(context):
        return group_pre(context)

    def bal(context, old):
        return depth_of(context) == old.context.unified_cycle_context.recursion_depth
    for k_ in range(8):
        g.invariant(k_, bal, name="loop_balance")
    g.requires(pre, name="group_pre")
    g.ensures(bal, name="balance", note="C08: callee of the recursive group leaves depth unchanged")
    g.raises(bal, name="balance_exc")
    return g


for _q, _c in GROUP.items():
    _mk_group(_q, _c)


# ---- build_schemas: rest state after every top-level schema ----------------------------------------------------
c = contract("pyopenapi_gen.core.loader.schemas.extractor:build_schemas", props=["C08"], types={"raw_schemas": "dict"},
             inline=["ParsingContext", "__post_init__", "UnifiedCycleContext"], abstract_unsupported=True, abstract_comprehensions=True,
             tracked_names=TRACKED, nothrow_calls=["sanitize_class_name"], returns="obj:ParsingContext")

@c.requires
def bs_pre(raw_schemas, raw_components):
    return env_is_int("PYOPENAPI_MAX_DEPTH")

@c.invariant(0, name="rest_between_schemas")
def bs_inv(context, old, i):
    return context.unified_cycle_context.recursion_depth == 0

@c.invariant(1, name="rest_in_check_loop")
def bs_inv2(context, old, i):
    return context.unified_cycle_context.recursion_depth == 0

@c.ensures(note="C08 statement: after the top-level schemas have been processed the tracker is at depth zero")
def bs_rest(raw_schemas, raw_components, old, result):
    return result.unified_cycle_context.recursion_depth == 0
