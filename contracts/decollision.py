"""Statement contracts for the de-collision loops (C01: one file per model; C20: distinct identifiers per namespace)."""
from pyvc.contracts import contract
from pyopenapi_gen.core.utils import NameSanitizer

ME = "pyopenapi_gen.emitters.models_emitter"


def _fresh_class(arg0, assigned_class_names):
    """the class name about to be recorded is not taken yet"""
    return arg0 not in assigned_class_names


def _fresh_stem(arg0, assigned_module_stems):
    """the module stem about to be recorded is not taken yet (otherwise two models share one file)"""
    return arg0 not in assigned_module_stems


def _is_str(result):
    """the sanitisers return str (C20)"""
    return isinstance(result, str)


c = contract(f"{ME}:ModelsEmitter.emit", props=["C01", "C20"], region_for_target="schema_for_naming",
             types={"schemas_to_name_decollision": "list", "assigned_class_names": "set", "assigned_module_stems": "set"},
             site_asserts={"assigned_class_names.add": _fresh_class, "assigned_module_stems.add": _fresh_stem},
             dependency_post={"sanitize_class_name": _is_str, "sanitize_module_name": _is_str},
             nothrow_calls=["sanitize_class_name", "sanitize_module_name"], abstract_unsupported=True,
             tracked_names=["assigned_class_names", "assigned_module_stems"])




# ---- DataclassGenerator.generate: one field per property, distinct field names ------------------------------------------
DG = "pyopenapi_gen.visit.model.dataclass_generator"


def _fresh_field(arg0, seen_field_names):
    """C20/C03: the Python field name about to be bound to a property is not already bound to another property of the schema
    (otherwise two wire keys map to one field and one of them is silently dropped)"""
    return arg0 not in seen_field_names


c = contract(f"{DG}:DataclassGenerator.generate", props=["C20", "C03", "C02"], region_for_target="(prop_name, prop_schema)",
             types={"sorted_props": "list", "seen_field_names": "dict", "field_mappings": "dict", "fields_data": "list"},
             site_asserts={"seen_field_names[]": _fresh_field}, abstract_unsupported=True,
             tracked_names=["seen_field_names"], dependency_post={"sanitize_method_name": _is_str},
             nothrow_calls=["sanitize_method_name"])


# ---- EndpointsEmitter._deduplicate_operation_ids_globally: method names unique across all operations ------------------------------
EE = "pyopenapi_gen.emitters.endpoints_emitter"


def _fresh_method_or_counter(arg0, seen_methods, method_name):
    """C07/C20: a method name that is recorded for an operation is not the name of an operation recorded before — distinct
    operations never collapse into one method. (The other store into seen_methods only updates the suffix counter of the base name.)"""
    return arg0 not in seen_methods or (arg0 == method_name and method_name in seen_methods)


def _renamed_operation_is_recorded(arg0, seen_methods):
    """C07: the operation id an operation is renamed to is recorded as taken under its method name — together with the freshness of every
    recorded name (assertion above) no two operations end up with the same method name"""
    return NameSanitizer.sanitize_method_name(arg0) in seen_methods


c = contract(f"{EE}:EndpointsEmitter._deduplicate_operation_ids_globally", props=["C07", "C20"], types={"operations": "list"},
             site_asserts={"seen_methods[]": _fresh_method_or_counter, "op.operation_id=": _renamed_operation_is_recorded},
             functional_opaque=["NameSanitizer.sanitize_method_name", "sanitize_method_name"],
             abstract_unsupported=True, tracked_names=["seen_methods"],
             dependency_post={"sanitize_method_name": _is_str}, nothrow_calls=["sanitize_method_name"])


@c.invariant(1)
def dedup_probe_inv(new_method_name, new_op_id):
    """suffix-probing loop: the candidate method name is always the sanitised candidate operation id"""
    return new_method_name == NameSanitizer.sanitize_method_name(new_op_id)


# the same function, one arbitrary iteration of `for op in operations`: the statement of C07 "no two operations share a method name"
c = contract(f"{EE}:EndpointsEmitter._deduplicate_operation_ids_globally#one-operation", props=["C07", "C20"], region_for_target="op", region_body_only=True,
             types={"seen_methods": "dict", "op": "obj", "other": "str"}, shape={"op.operation_id": "str"},
             functional_opaque=["NameSanitizer.sanitize_method_name", "sanitize_method_name"], abstract_unsupported=True,
             dependency_post={"sanitize_method_name": _is_str}, nothrow_calls=["sanitize_method_name"])


@c.invariant(1)
def dedup_probe_inv_region(new_method_name, new_op_id):
    return new_method_name == NameSanitizer.sanitize_method_name(new_op_id)


@c.ensures(only_exit="end", note="C07: the method name this operation ends up with was not taken by any earlier operation, and is taken afterwards; "
                                 "names taken earlier stay taken (so by induction all method names are pairwise distinct)")
def dedup_name_was_free_and_is_taken(seen_methods, op, old):
    name = NameSanitizer.sanitize_method_name(op.operation_id)
    return name not in old.seen_methods and name in seen_methods


@c.ensures(only_exit="end")
def dedup_taken_names_stay_taken(seen_methods, other, old):
    return other not in old.seen_methods or other in seen_methods


# ---- DataclassGenerator.generate, one arbitrary property: the statement of C02 / C03 for the field loop ----------------------------------------
c = contract(f"{DG}:DataclassGenerator.generate#one-property", props=["C02", "C03", "C20", "C01"], region_for_target="(prop_name, prop_schema)", region_body_only=True,
             types={"prop_name": "str", "prop_schema": "any", "seen_field_names": "dict", "field_mappings": "dict", "fields_data": "list", "other": "str",
                    "schema": "any", "base_name": "any", "context": "any"},
             abstract_unsupported=True, dependency_post={"sanitize_method_name": _is_str}, nothrow_calls=["sanitize_method_name"],
             functional_opaque=["NameSanitizer.sanitize_method_name", "sanitize_method_name"])


@c.ensures(only_exit="end", note="C02: every property yields exactly one dataclass field (none dropped, none duplicated)")
def one_field_per_property(fields_data, old):
    return len(fields_data) == len(old.fields_data) + 1


@c.ensures(only_exit="end", note="C03/C20: the field name bound to this wire key was bound to no other wire key before, and the two maps agree: "
                                 "wire key -> field name (field_mappings) and field name -> wire key (seen_field_names) are mutually inverse on this pair")
def wire_key_and_field_name_are_paired(prop_name, field_mappings, seen_field_names, old):
    name = field_mappings[prop_name]
    return isinstance(name, str) and name not in old.seen_field_names and seen_field_names[name] == prop_name


@c.ensures(only_exit="end", note="bindings made for earlier properties are not disturbed")
def earlier_bindings_kept(seen_field_names, other, old):
    return other not in old.seen_field_names or seen_field_names[other] == old.seen_field_names[other]


@c.ensures(only_exit="end", props=["C01"], note="C01: the field is never bound to a name that the class body itself uses — the date / time types of later annotations, and "
                                 "`field`, which later defaults call: a field spelled like one of them would rebind it for the rest of the class body")
def field_name_does_not_shadow_class_body_names(prop_name, field_mappings):
    return field_mappings[prop_name] not in ("date", "datetime", "time", "timedelta", "field")


# (loop numbering follows the source order of the function: the field loop is loop 0, the suffix-probing loop inside it is loop 1)
@c.invariant(1)
def field_probe_inv(field_name, base_field_name):
    """suffix-probing loop: the candidate is the base name, or the base name with `_<n>` appended (it contains an underscore)"""
    return field_name == base_field_name or "_" in field_name
