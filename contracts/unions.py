"""Contract for the discriminator branch of _structure_union (C14) — a statement contract on ONE iteration of the
`for metadata in union_type.__metadata__` loop (the rest of the function is reflection over typing objects, outside the subset)."""
from pyvc.contracts import contract

CV = "pyopenapi_gen.core.cattrs_converter"


def _mapped_variant(arg1, mapping, discriminator_value, variant):
    """C14 statement: the variant that is structured is exactly the one the discriminator value maps to (a forward-reference string
    is first resolved to the union member of that name)"""
    return arg1 is variant and (isinstance(mapping[discriminator_value], str) or variant is mapping[discriminator_value])


def _mapping_type(result):
    """get_mapping() of a generated <Alias>Discriminator returns a dict (value -> variant) or None"""
    return result is None or isinstance(result, dict)


def _applicable(data, metadata, mapping):
    return isinstance(data, dict) and metadata.property_name in data and bool(mapping)


c = contract(f"{CV}:_structure_union", props=["C14"], region_for_target="metadata", region_body_only=True,
             types={"data": "any", "args": "list"}, raises_only=["ValueError"],
             site_asserts={"converter.structure": _mapped_variant},
             nothrow_calls=["hasattr", "get_mapping", "_register_structure_hooks_recursively", "keys", "list"],
             functional_opaque=["metadata.get_mapping"], dependency_post={"metadata.get_mapping": _mapping_type})

@c.requires(typing=True)
def su_types(data, metadata):
    return not hasattr(metadata, "property_name") or isinstance(metadata.property_name, str)

@c.ensures(only_exit="end", note="C14 statement: with a discriminator present in the payload and a mapping, the call never falls through to guessing: a mapped value "
                "is structured as its variant (or reported), an unmapped value is an error")
def su_no_fallthrough(data, metadata, old):
    from pyvc.spec import uf
    if not (hasattr(metadata, "property_name") and hasattr(metadata, "get_mapping")):
        return True
    m = uf("call.get_mapping", metadata)
    return not (isinstance(data, dict) and metadata.property_name in data and m)


# ---- DiscriminatorEnumCollector._process_discriminated_union, one arbitrary mapping entry (C14): every discriminator value that selects a variant is kept
from pyvc.contracts import contract as _contract  # noqa: E402

DEC = "pyopenapi_gen.core.parsing.transformers.discriminator_enum_collector:DiscriminatorEnumCollector._process_discriminated_union"


def _bucket(d, k):
    return d[k] if k in d else []


_c = _contract(DEC + "#one-mapping-entry", props=["C14"], region_for_target="(disc_value, variant_ref)", region_body_only=True,
               types={"discriminator_values_by_variant": "dict", "disc_value": "str", "variant_ref": "str", "other": "str"},
               dict_of_lists={"discriminator_values_by_variant": "setdefault"}, abstract_unsupported=True)


@_c.ensures(only_exit="end", note="C14: the value is appended to the values of the variant it maps to (the last component of the reference) — a second value of the "
                                  "same variant does not replace the first — and the values recorded for every other variant are unchanged")
def dec_value_kept(discriminator_values_by_variant, disc_value, variant_ref, variant_name, other, old):
    return (discriminator_values_by_variant[variant_name] == _bucket(old.discriminator_values_by_variant, variant_name) + [disc_value]
            and (other == variant_name or _bucket(discriminator_values_by_variant, other) == _bucket(old.discriminator_values_by_variant, other)))
