"""Contracts for NameSanitizer (C20).  Top-level postcondition from the statement: the result is a non-empty valid Python
identifier that is not a keyword, for EVERY input string."""
from pyvc.contracts import contract
from pyvc.spec import is_ascii_identifier, is_keyword, implies

U = "pyopenapi_gen.core.utils"

c = contract(f"{U}:NameSanitizer.sanitize_method_name", props=["C20"], types={"name": "str"}, nothrow=True, split=True, functional="sanitize_method_name")

@c.ensures(note="C20 statement: total on str; result is a non-empty ASCII identifier and not a keyword (method, field and parameter names)")
def smn_identifier(name, result):
    return is_ascii_identifier(result) and not is_keyword(result)


@c.ensures(note="C20 / C01: never the name of the receiver of a generated method — a parameter spelled `self` or `cls` gets a trailing underscore")
def smn_not_a_receiver_name(name, result):
    return result != "self" and result != "cls"


# ---- enum member names: never a name that Enum reserves for itself (C20 / C01) -------------------------------------------------------
c = contract("pyopenapi_gen.visit.model.enum_generator:EnumGenerator._generate_member_name_for_string_enum", props=["C20"], abstract_unsupported=True,
             tracked_names=["sanitized_member_name"])

@c.ensures(note="C20: whatever the value, the member name is not a _sunder_ / __dunder__ name (Enum rejects the former when the class is created and does not "
                "turn the latter into members) — for every string the earlier sanitising steps may produce")
def emn_not_reserved(self, value, result):
    return implies(isinstance(result, str), not (result.startswith("_") and result.endswith("_")))
