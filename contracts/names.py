"""Contracts for NameSanitizer (C20).  Top-level postcondition from the statement: the result is a non-empty valid Python
identifier that is not a keyword, for EVERY input string."""
from pyvc.contracts import contract
from pyvc.spec import is_ascii_identifier, is_keyword

U = "pyopenapi_gen.core.utils"

c = contract(f"{U}:NameSanitizer.sanitize_method_name", props=["C20"], types={"name": "str"}, nothrow=True, split=True, functional="sanitize_method_name")

@c.ensures(note="C20 statement: total on str; result is a non-empty ASCII identifier and not a keyword (method, field and parameter names)")
def smn_identifier(name, result):
    return is_ascii_identifier(result) and not is_keyword(result)
