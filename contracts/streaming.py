"""Contracts for core/streaming_helpers.py (C18; C05 for the streaming clause).

Each helper is a function of the COMPLETE line sequence delivered by response.aiter_lines() (ghost input `lines`) — never of how
the bytes were chunked.  That aiter_lines() yields the same lines for every chunking is httpx's contract (assumed, bounded-checked)."""
from pyvc.contracts import contract
from pyvc.spec import uf, implies, is_str_list
from pyopenapi_gen.core.streaming_helpers import SSEEvent

S = "pyopenapi_gen.core.streaming_helpers"


def str_list(xs):
    return is_str_list(xs)


# ---- spec functions, from the statement ---------------------------------------------------------------------
def field_of(line):
    """(field, value) of an SSE line that carries a field, value with leading blanks removed"""
    return line.split(":", 1)[0]


def value_of(line):
    return line.split(":", 1)[1].lstrip()


def carries(line, field):
    return (not line.startswith(":")) and ":" in line and field_of(line) == field


def data_values(lines: list, n: int) -> list:
    """values of the data lines among the first n lines, in order (comments ignored)"""
    if n <= 0:
        return []
    prev = data_values(lines, n - 1)
    if carries(lines[n - 1], "data"):
        return prev + [value_of(lines[n - 1])]
    return prev


def last_value(lines: list, n: int, field: str):
    """last value of `field` among the first n lines (None if absent)"""
    if n <= 0:
        return None
    if carries(lines[n - 1], field):
        return value_of(lines[n - 1])
    return last_value(lines, n - 1, field)


def pending_block(lines: list, n: int) -> list:
    """lines of the block that is still open after the first n lines"""
    if n <= 0:
        return []
    if lines[n - 1] == "":
        return []
    return pending_block(lines, n - 1) + [lines[n - 1]]


def event_of(block):
    return uf("fn.parse_sse_event", block)


def events_of(lines: list, n: int) -> list:
    """one event per non-empty block terminated by a blank line among the first n lines"""
    if n <= 0:
        return []
    prev = events_of(lines, n - 1)
    if lines[n - 1] == "" and pending_block(lines, n - 1) != []:
        return prev + [event_of(pending_block(lines, n - 1))]
    return prev


def all_events(lines):
    """... and a final unterminated block is still delivered"""
    done = events_of(lines, len(lines))
    rest = pending_block(lines, len(lines))
    if rest != []:
        return done + [event_of(rest)]
    return done


def texts_of(events: list, n: int) -> list:
    if n <= 0:
        return []
    prev = texts_of(events, n - 1)
    if events[n - 1].data:
        return prev + [events[n - 1].data]
    return prev


def records_of(lines: list, n: int) -> list:
    if n <= 0:
        return []
    prev = records_of(lines, n - 1)
    if lines[n - 1].strip():
        return prev + [uf("call.json.loads", lines[n - 1].strip())]
    return prev


# ---- _parse_sse_event -------------------------------------------------------------------------------------------
c = contract(f"{S}:_parse_sse_event", props=["C18", "C05"], types={"lines": "list"}, functional="parse_sse_event",
             inline=["SSEEvent"], nothrow_calls=["join"])

@c.requires(typing=True)
def pse_pre(lines):
    return str_list(lines)

@c.invariant(0)
def pse_inv(lines, data, event, id, i):
    return data == data_values(lines, i) and event == last_value(lines, i, "event") and id == last_value(lines, i, "id")

@c.ensures(note="C18: data lines joined by newlines, comments ignored")
def pse_data(lines, result):
    return isinstance(result, SSEEvent) and result.data == "\n".join(data_values(lines, len(lines)))

@c.ensures(note="last event / id wins")
def pse_fields(lines, result):
    return result.event == last_value(lines, len(lines), "event") and result.id == last_value(lines, len(lines), "id")


# ---- iter_sse ------------------------------------------------------------------------------------------------------
c = contract(f"{S}:iter_sse", props=["C18", "C05"], generator=True, iter_source={"response.aiter_lines()": "lines"},
             raises_only=[])

@c.requires
def sse_pre(response, lines):
    return str_list(lines)

@c.invariant(0)
def sse_inv(lines, yielded, event_lines, i):
    return yielded == events_of(lines, i) and event_lines == pending_block(lines, i)

@c.ensures(note="C18: one event per blank-line-terminated block, final unterminated event still delivered — a function of the lines only")
def sse_post(response, lines, yielded):
    return yielded == all_events(lines)


# ---- iter_sse_events_text ----------------------------------------------------------------------------------------------
c = contract(f"{S}:iter_sse_events_text", props=["C18", "C05"], generator=True, iter_source={"response.aiter_lines()": "lines"})

@c.requires
def txt_pre(response, lines):
    return str_list(lines)

@c.invariant(0)
def txt_inv(lines, yielded, i):
    return yielded == texts_of(all_events(lines), i)

@c.ensures
def txt_post(response, lines, yielded):
    return yielded == texts_of(all_events(lines), len(all_events(lines)))


# ---- iter_ndjson ------------------------------------------------------------------------------------------------------
c = contract(f"{S}:iter_ndjson", props=["C18", "C05"], generator=True, iter_source={"response.aiter_lines()": "lines"},
             functional_opaque=["json.loads"])

@c.requires
def nd_pre(response, lines):
    return str_list(lines)

@c.invariant(0)
def nd_inv(lines, yielded, i):
    return yielded == records_of(lines, i)

@c.ensures(note="C18: one record per non-blank line, in order")
def nd_post(response, lines, yielded):
    return yielded == records_of(lines, len(lines))


# ---- iter_bytes --------------------------------------------------------------------------------------------------------
c = contract(f"{S}:iter_bytes", props=["C18", "C05"], generator=True, iter_source={"response.aiter_bytes()": "chunks"})

def prefix_of(xs: list, n: int) -> list:
    if n <= 0:
        return []
    return prefix_of(xs, n - 1) + [xs[n - 1]]


@c.invariant(0)
def by_inv(chunks, yielded, i):
    return yielded == prefix_of(chunks, i)

@c.ensures(note="identity on the chunk sequence, in order")
def by_post(response, chunks, yielded):
    return yielded == prefix_of(chunks, len(chunks))
