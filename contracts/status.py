"""Contracts for core/http_status_codes.py (C06, C01, C11)."""
from pyvc.contracts import contract

M = "pyopenapi_gen.core.http_status_codes"

c = contract(f"{M}:is_error_code", props=["C06"], nothrow=True)
@c.ensures
def error_range(code, result):
    return result == (400 <= code and code < 600)

c = contract(f"{M}:is_client_error", props=["C06"], nothrow=True)
@c.ensures
def client_range(code, result):
    return result == (400 <= code and code < 500)

c = contract(f"{M}:is_server_error", props=["C06"], nothrow=True)
@c.ensures
def server_range(code, result):
    return result == (500 <= code and code < 600)

c = contract(f"{M}:is_success_code", props=["C06"], nothrow=True)
@c.ensures
def success_range(code, result):
    return result == (200 <= code and code < 300)

# get_exception_class_name is a pure function of the code: at call sites its result is an uninterpreted function of the
# argument (callers only need "the same name for the same code"); its own properties (injective on 100..599, valid
# identifier, no builtin shadowed) are a finite exhaustive check over the whole status range (props/C06.py).
c = contract(f"{M}:get_exception_class_name", props=["C06", "C01", "C11"], functional="get_exception_class_name")

c = contract(f"{M}:get_status_name", props=["C06"], functional="get_status_name")
