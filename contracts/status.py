"""Contracts for core/http_status_codes.py (C06, C01, C11)."""
from pyvc.contracts import contract

M = "pyopenapi_gen.core.http_status_codes"

c = contract(f"{M}:is_error_code", props=["C06"], nothrow=True)
@c.ensures
def error_range(code, result):
    return result == (400 <= code and code < 600)

c = contract(f"{M}:is_client_error", props=["C06"], nothrow=True)
@c.ensures
def client_range(code, result):
    return result == (400 <= code and code < 500)

c = contract(f"{M}:is_server_error", props=["C06"], nothrow=True)
@c.ensures
def server_range(code, result):
    return result == (500 <= code and code < 600)

c = contract(f"{M}:is_success_code", props=["C06"], nothrow=True)
@c.ensures
def success_range(code, result):
    return result == (200 <= code and code < 300)
