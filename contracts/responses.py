"""Contracts for the two primary-response selectors (C05, C19): the method signature is built from one, the status dispatch from the
other — both must pick the response with the best status priority, independent of the order of the `responses` entries."""
from pyvc.contracts import contract
from pyvc.spec import best_priority_response, all_objects, codes_are_str, prefix_has_no, prefix_has_no_2xx, has_none_of_preferred, has_no_2xx

RS = "pyopenapi_gen.types.strategies.response_strategy"
EU = "pyopenapi_gen.helpers.endpoint_utils"


def no_match_before(responses, i, code):
    """none of the first i responses has this status code"""
    return all(r.status_code != code for r in responses[:i])


# ---- ResponseStrategyResolver._get_primary_response ----------------------------------------------------------------------
c = contract(f"{RS}:ResponseStrategyResolver._get_primary_response", props=["C05", "C19"], shape={"operation.responses": "list"}, nothrow=True)

@c.requires(typing=True)
def rs_types(self, operation):
    return codes_are_str(operation.responses) and all_objects(operation.responses)

@c.invariant(1)
def rs_inv_code(operation, code, i):
    return prefix_has_no(operation.responses, i, code)

@c.invariant(2)
def rs_inv_2xx(operation, i):
    return prefix_has_no_2xx(operation.responses, i) and has_none_of_preferred(operation.responses)

@c.invariant(3)
def rs_inv_default(operation, i):
    return prefix_has_no(operation.responses, i, "default") and has_no_2xx(operation.responses)

@c.ensures(note="C05/C19: the primary response is the one with the best status priority (200 > 201 > 202 > 204 > other 2xx > default), "
                "whatever the order of the responses entries")
def rs_post(self, operation, result):
    return best_priority_response(operation.responses, result)


# ---- endpoint_utils._get_primary_response ----------------------------------------------------------------------------------
c = contract(f"{EU}:_get_primary_response", props=["C05", "C19"], shape={"op.responses": "list"}, nothrow=True)

@c.requires(typing=True)
def eu_types(op):
    return codes_are_str(op.responses) and all_objects(op.responses)

@c.invariant(1)
def eu_inv_2xx(op, i):
    return prefix_has_no_2xx(op.responses, i) and has_none_of_preferred(op.responses)

@c.ensures
def eu_post(op, result):
    return best_priority_response(op.responses, result)
