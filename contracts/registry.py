"""Contracts for the shared-core exception registry (C11; C09/C10 reuse the write-set part)."""
from pyvc.contracts import contract
from pyvc.spec import implies, call_count, call_arg, call_result, dict_set, is_int_list, forall_key_codes_in, values_prefix_in_set, int_lists_dict, set_from_values_prefix, codes_all_registered

E = "pyopenapi_gen.emitters.exceptions_emitter"


def old_registry():
    """content of the registry file before the call ({} when the file does not exist)"""
    return call_result("json.load", 0) if call_count("json.load") == 1 else {}


def _registry_shape(result):
    """the registry file holds a JSON object mapping client names to lists of integer status codes"""
    return isinstance(result, dict) and int_lists_dict(result)


# ---- _update_registry -------------------------------------------------------------------------------------------
c = contract(f"{E}:ExceptionsEmitter._update_registry", props=["C11", "C06", "C09"], types={"registry_path": "str", "client_name": "str", "status_codes": "list"},
             int_sets=["all_codes"], track_calls=True,
             nothrow_calls=["os.path.exists", "open", "json.load", "json.dump"],
             dependency_post={"json.load": _registry_shape})




@c.requires
def ur_pre(self, registry_path, client_name, status_codes):
    return is_int_list(status_codes)

@c.invariant(0)
def ur_inv(registry, all_codes, i):
    return values_prefix_in_set(registry, i, all_codes)

@c.ensures(note="C11: the registry that is written back keeps every other client's entry and records this client's codes")
def ur_written(self, registry_path, client_name, status_codes, old, result):
    return (call_count("json.dump") == 1
            and call_arg("json.dump", 0, 0) == dict_set(old_registry(), client_name, call_arg("json.dump", 0, 0)[client_name]))

@c.ensures(note="C11 statement: the returned codes cover every code of every client registered so far — generating one client "
                "never removes something another client needs")
def ur_covers(self, registry_path, client_name, status_codes, old, result):
    return call_count("json.dump") == 1 and forall_key_codes_in(call_arg("json.dump", 0, 0), result)


# ---- _update_registry, second contract: exactness (kept apart so that its quantifier alternation does not slow down the refutation of the clauses above)
c = contract(f"{E}:ExceptionsEmitter._update_registry#exact", props=["C11", "C06", "C09"], types={"registry_path": "str", "client_name": "str", "status_codes": "list"},
             int_sets=["all_codes"], track_calls=True,
             nothrow_calls=["os.path.exists", "open", "json.load", "json.dump"],
             dependency_post={"json.load": _registry_shape})


@c.requires
def ur_pre_exact(self, registry_path, client_name, status_codes):
    return is_int_list(status_codes)

@c.invariant(0)
def ur_inv_exact(registry, all_codes, i):
    return set_from_values_prefix(registry, i, all_codes)

@c.ensures(props=["C09", "C11"], note="C09 (independent of prior runs) / C11: nothing stale or invented — every returned code is a code of some client entry of the "
                                       "registry AS WRITTEN BACK (so a code this client used in an earlier generation and no longer uses does not leak into the aliases)")
def ur_exact(self, registry_path, client_name, status_codes, old, result):
    return call_count("json.dump") == 1 and codes_all_registered(call_arg("json.dump", 0, 0), result)

@c.ensures(note="this client's entry in the written registry is exactly its current status codes")
def ur_own_entry(self, registry_path, client_name, status_codes, old, result):
    return call_count("json.dump") == 1 and set(call_arg("json.dump", 0, 0)[client_name]) == set(status_codes)


# ---- _is_shared_core ------------------------------------------------------------------------------------------------
c = contract(f"{E}:ExceptionsEmitter._is_shared_core", props=["C11", "C06", "C09"], types={"core_dir": "str"},
             nothrow_calls=["Path", "resolve"])

@c.requires(typing=True)
def isc_types(self, core_dir, client_package_name):
    return (isinstance(self.core_package_name, str) and (client_package_name is None or isinstance(client_package_name, str))
            and (self.overall_project_root is None or isinstance(self.overall_project_root, str)))

@c.ensures(note="C11 statement: a core package that does not live inside the client's own package is shared — however deep it sits")
def isc_by_names(self, core_dir, client_package_name, result):
    if client_package_name and "." in self.core_package_name:
        inside = self.core_package_name == client_package_name or self.core_package_name.startswith(client_package_name + ".")
        return result == (not inside)
    return True


# ---- emit ----------------------------------------------------------------------------------------------------------------
c = contract(f"{E}:ExceptionsEmitter.emit", props=["C11", "C06", "C09"], types={"output_dir": "str"}, track_calls=True,
             nothrow_calls=["os.path.join", "RenderContext", "set_current_file", "render_imports", "join", "open", "write", "sort"],
             abstract_unsupported=True, tracked_names=["_update_registry", "_generate_for_codes", "_is_shared_core", "all_codes"])

@c.requires(typing=True)
def emit_types(self, spec, output_dir, client_package_name):
    return isinstance(self.core_package_name, str) and (client_package_name is None or isinstance(client_package_name, str))

@c.ensures(note="C11: with a shared core the alias module is regenerated from the UNION of all registered clients' codes "
                "(the list returned by _update_registry), not from this client's codes alone")
def emit_union(self, spec, output_dir, client_package_name, result):
    if client_package_name and call_count("_is_shared_core") == 1 and call_result("_is_shared_core", 0):
        return (call_count("_update_registry") == 1 and call_count("_generate_for_codes") == 1
                and call_arg("_generate_for_codes", 0, 0) == call_result("_update_registry", 0)
                and call_arg("_update_registry", 0, 1) == client_package_name
                and call_arg("_update_registry", 0, 2) == call_result("visit", 0)[2])
    return True
