"""Contract for CoreEmitter.emit (C12: runtime modules are copied verbatim; C10: write set)."""
from pyvc.contracts import contract
from pyvc.spec import call_count, call_arg, call_result
from pyopenapi_gen.emitters.core_emitter import RUNTIME_FILES

CE = "pyopenapi_gen.emitters.core_emitter"
READ = "f.read"
WRITE = "self.file_manager.write_file"
FILES = "importlib.resources.files"
JOIN = "importlib.resources.files(module).joinpath"

c = contract(f"{CE}:CoreEmitter.emit", props=["C12"], types={"package_output_dir": "str"}, track_calls=True, split=True,
             abstract_unsupported=True, tracked_names=["write_file", "f.read", "resources", "joinpath"],
             nothrow_calls=["os.path.join", "os.path.dirname", "os.path.exists", "ensure_dir", "write_file", "files", "joinpath", "open", "read",
                            "replace", "join", "print", "__enter__", "__exit__"])

@c.requires(typing=True)
def ce_types(self, package_output_dir):
    return isinstance(self.core_dir_relative, str)

@c.ensures(note="C12 statement: the runtime modules placed in the core package are the runtime modules shipped with the generator, "
                "byte for byte: for each RUNTIME_FILES entry the text written is exactly the text read from that packaged file")
def ce_verbatim(self, package_output_dir, result):
    n = len(RUNTIME_FILES)
    if call_count("f.read") < n or call_count("self.file_manager.write_file") < n:
        return False
    for k in range(8):
        if call_arg("self.file_manager.write_file", k, 1) != call_result("f.read", k):
            return False
        if call_arg("importlib.resources.files", k, 0) != RUNTIME_FILES[k][0]:
            return False
        if call_arg("importlib.resources.files(module).joinpath", k, 0) != RUNTIME_FILES[k][1]:
            return False
    return True
