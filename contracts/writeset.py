"""C10: the two branches of ClientGenerator.generate().

Non-force branch (`if not force and out_dir.exists():`), as a frame condition stated as NON-INTERFERENCE: nothing that the branch hands to any
callee — emitter constructors, emit() calls, RenderContext, PostprocessManager, path helpers — depends on the real project root, the real output
directory, the real core directory or the render context of the real tree.  The only callees that may see them are the read-only ones listed
in `allowed` (the diff check, existence tests, logging, list bookkeeping).  The obligation per call site is  v == v[src := src']  for every value
passed (valid exactly when v does not vary with the sources); objects are tracked by reference.  So every write the emitters perform is rooted in
the temporary directory, and the branch can create / modify / delete nothing below the project root — assuming the emitters write only below the
directories they are given (bounded: fault-injection snapshots in props/C10.py)."""
from pyvc.contracts import contract

G = "pyopenapi_gen.generator.client_generator:ClientGenerator.generate"

REAL = ["project_root", "out_dir", "core_dir", "main_render_context"]
READ_ONLY = ["self._show_diffs", "_show_diffs", "exists", "self._log_progress", "_log_progress", "append", "print", "relative_to"]

c = contract(G + "#non-force-branch", props=["C10", "C11"], region_if={"test": "not force and out_dir.exists()", "part": "body"},
             types={"project_root": "any", "out_dir": "any", "core_dir": "any", "main_render_context": "any", "output_package": "str",
                    "resolved_core_package_fqn": "str", "core_package": "any", "ir": "any", "no_postprocess": "bool", "generated_files": "list"},
             independent_of={"sources": REAL, "allowed": READ_ONLY}, opaque_truediv=True, abstract_unsupported=True,
             inline=["tmp_pkg_to_path", "ClientGenerator.generate#non-force-branch.<locals>.tmp_pkg_to_path"])


@c.ensures(only_exit="end", note="vacuity guard: the branch has a normal exit")
def nf_reaches_end():
    return True


# ---- the gate of the non-force branch (C09: re-running over unchanged output reports "no differences", and ONLY then) -----------------------------
from pyvc.spec import call_count, call_arg, call_result, implies  # noqa: E402

c = contract(G + "#diff-gate", props=["C09"], region_if={"test": "not force and out_dir.exists()", "part": "body"},
             types={"project_root": "any", "out_dir": "any", "core_dir": "any", "main_render_context": "any", "output_package": "str",
                    "resolved_core_package_fqn": "str", "core_package": "any", "ir": "any", "no_postprocess": "bool", "generated_files": "list"},
             track_calls=True, opaque_truediv=True, abstract_unsupported=True,
             inline=["tmp_pkg_to_path", "ClientGenerator.generate#diff-gate.<locals>.tmp_pkg_to_path"])


@c.ensures(only_exit="end", note="C09, from the statement: the branch ends normally (existing files kept, no error) only if the comparison of the client package "
                                 "directory — and of the core directory when it is a different one — found no difference; the existing directories are the "
                                 "first argument of each comparison")
def gate_no_diff_on_normal_exit(out_dir, core_dir):
    n = call_count("ClientGenerator._show_diffs")
    return (n >= 1 and call_arg("ClientGenerator._show_diffs", 0, 1) == str(out_dir) and not call_result("ClientGenerator._show_diffs", 0)
            and implies(core_dir != out_dir, n == 2 and call_arg("ClientGenerator._show_diffs", 1, 1) == str(core_dir) and not call_result("ClientGenerator._show_diffs", 1)))


# ---- force / first-run branch ----------------------------------------------------------------------------------------------------
def _removes_only_the_output_package(arg0, out_dir):
    return arg0 == str(out_dir)


# (for a method resolved on its class, arg0 is the receiver)
def _into_core_dir(arg2, core_dir):
    return arg2 == str(core_dir)


def _into_out_dir_1(arg2, out_dir):
    return arg2 == str(out_dir)


def _into_out_dir_0(arg1, out_dir):
    return arg1 == str(out_dir)


def _client_init_only(arg0, out_dir):
    return arg0 == out_dir / "__init__.py"


c = contract(G + "#force-branch", props=["C10"], region_if={"test": "not force and out_dir.exists()", "part": "orelse"},
             types={"project_root": "any", "out_dir": "any", "core_dir": "any", "main_render_context": "any", "output_package": "str",
                    "resolved_core_package_fqn": "str", "core_package": "any", "ir": "any", "no_postprocess": "bool", "generated_files": "list"},
             opaque_truediv=True, abstract_unsupported=True,
             site_asserts={"shutil.rmtree": _removes_only_the_output_package, "ExceptionsEmitter.emit": _into_core_dir, "CoreEmitter.emit": _into_out_dir_0,
                           "ModelsEmitter.emit": _into_out_dir_1, "EndpointsEmitter.emit": _into_out_dir_1, "ClientEmitter.emit": _into_out_dir_1,
                           "MocksEmitter.emit": _into_out_dir_1, "open": _client_init_only})


@c.ensures(only_exit="end", note="vacuity guard: the branch has a normal exit")
def fb_reaches_end():
    return True


# ---- PostprocessManager.run: the formatters are pointed at the generated files only -----------------------------------------------------------
# Frame as non-interference: what is handed to the ruff invocations does not depend on the project root (so it can only be derived from `targets`,
# the files the emitters reported); Path(...) construction, existence tests and comparisons may see the root (used to find the mypy package root).
PM = "pyopenapi_gen.core.postprocess_manager:PostprocessManager.run"
c = contract(PM, props=["C10"], types={"targets": "list"}, shape={"self.project_root": "str"}, abstract_unsupported=True, abstract_comprehensions=False,
             independent_of={"sources": ["self.project_root"], "allowed": ["Path", "pathlib.Path", "exists", "is_file", "is_dir", "print", "add"]}, opaque_truediv=True)


@c.ensures(note="vacuity guard")
def pm_returns(result):
    return result is None
