"""C19/C07: one arbitrary iteration of the `for sc, rn_node in responses.items()` loop of parse_operations: whatever the type of the status key
(a YAML document with unquoted codes yields integers), parse_response receives a string code — the callee raises TypeError for anything else, and
parse_operations swallows that exception and silently drops the whole operation."""
from pyvc.contracts import contract

PO = "pyopenapi_gen.core.loader.operations.parser:parse_operations"

def _code_is_a_string(arg0):
    return isinstance(arg0, str)


c = contract(PO + "#response-entry", props=["C19", "C07"], region_for_target="(sc, rn_node)", region_body_only=True,
             types={"sc": "any", "rn_node": "any", "raw_responses": "dict", "resps": "list", "operation_id": "any", "context": "obj"},
             abstract_unsupported=True, nothrow_calls=[],
             site_asserts={"parse_response": _code_is_a_string})


@c.ensures(only_exit="end", note="every entry of `responses` contributes exactly one parsed response (none is skipped)")
def po_one_response_per_entry(resps, old):
    return len(resps) == len(old.resps) + 1
