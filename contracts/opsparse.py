"""C19/C07: one arbitrary iteration of the `for sc, rn_node in responses.items()` loop of parse_operations: whatever the type of the status key
(a YAML document with unquoted codes yields integers), parse_response receives a string code — the callee raises TypeError for anything else, and
parse_operations swallows that exception and silently drops the whole operation."""
from pyvc.contracts import contract

PO = "pyopenapi_gen.core.loader.operations.parser:parse_operations"

def _code_is_a_string(arg0):
    return isinstance(arg0, str)


c = contract(PO + "#response-entry", props=["C19", "C07"], region_for_target="(sc, rn_node)", region_body_only=True,
             types={"sc": "any", "rn_node": "any", "raw_responses": "dict", "resps": "list", "operation_id": "any", "context": "obj"},
             abstract_unsupported=True, nothrow_calls=[],
             site_asserts={"parse_response": _code_is_a_string})


@c.ensures(only_exit="end", note="every entry of `responses` contributes exactly one parsed response (none is skipped)")
def po_one_response_per_entry(resps, old):
    return len(resps) == len(old.resps) + 1


# ---- C07 last clause: "If an operation cannot be represented, generation fails visibly instead of omitting it" ------------------------------
# One arbitrary (method, node) entry of a path item: no exception raised while the operation is being parsed is caught and dropped — every
# normal exit of the iteration is reached without a swallowed exception (ghost flag set when a handler completes without raising).
c = contract(PO + "#operation-entry", props=["C07"], region_for_target="(method, on)", region_body_only=True,
             types={"method": "any", "on": "any", "path": "any", "ops": "list", "base_params_nodes": "any", "raw_responses": "dict", "raw_request_bodies": "any",
                    "context": "obj", "naming_strategy": "any"},
             abstract_unsupported=True, abstract_comprehensions=True, no_swallow=True)


@c.ensures(only_exit="end", note="an iteration ends normally either having skipped a non-operation key or having appended exactly one operation")
def po_at_most_one_operation(ops, old):
    return len(ops) == len(old.ops) or len(ops) == len(old.ops) + 1
