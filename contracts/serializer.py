"""Contracts for DataclassSerializer (C16: terminates on cycles, no null-valued keys)."""
from pyvc.contracts import contract
from pyvc.spec import no_none_values, same_keys_where_not_none, implies

U = "pyopenapi_gen.core.utils"

# ---- _remove_none_values ----------------------------------------------------------------------------------------------
c = contract(f"{U}:DataclassSerializer._remove_none_values", props=["C16", "C04"], nothrow=True, functional="remove_none_values")

@c.ensures(note="a value that is not None stays not None (needed so that filtered dicts contain no None after the recursive calls)")
def rnv_not_none(obj, result):
    return implies(obj is not None, result is not None)

@c.ensures(note="C16 statement: the returned mapping has no null-valued keys, and exactly the keys whose value was not None")
def rnv_dict(obj, result):
    if isinstance(obj, dict):
        return no_none_values(result) and same_keys_where_not_none(result, obj)
    return True


# ---- _serialize_with_tracking: visited-set discipline ---------------------------------------------------------------------
c = contract(f"{U}:DataclassSerializer._serialize_with_tracking", props=["C16", "C04"], types={"visited": "intset"},
             modifies=["visited"], abstract_unsupported=True, abstract_comprehensions=True,
             tracked_names=["visited", "_serialize_with_tracking", "_ensure_all_dicts"])

@c.ensures(note="C16: the set of objects in progress is restored on every exit — an object is 'in progress' exactly while it is being serialised")
def swt_visited_restored(obj, visited, old, result):
    return visited == old.visited

@c.raises(note="... also when serialisation fails part-way (try/finally)")
def swt_visited_restored_exc(obj, visited, old, exc):
    return visited == old.visited

@c.ensures(note="C04 / C16: None and the JSON scalars pass through unchanged (an omitted optional argument serialises to None; a path or header string is "
                "sent as given) — discharges the assumption `serialize(None) is None` the emitted-code contracts of C04 rely on")
def swt_scalars_unchanged(obj, visited, old, result):
    return implies(obj is None or isinstance(obj, (str, int, bool)), result == obj)


c = contract(f"{U}:DataclassSerializer.serialize", props=["C16", "C04"], abstract_unsupported=True)

@c.ensures(note="the public entry point inherits the scalar law from the tracked worker (fresh, empty in-progress set)")
def ser_scalars_unchanged(obj, result):
    return implies(obj is None or isinstance(obj, (str, int, bool)), result == obj)


c = contract(f"{U}:DataclassSerializer._ensure_all_dicts", props=["C16", "C04"], types={"visited": "intset"}, modifies=["visited"],
             abstract_unsupported=True, abstract_comprehensions=True, tracked_names=["visited", "_serialize_with_tracking", "_ensure_all_dicts"])

@c.invariant(0)
def ead_inv(visited, old, i):
    return visited == old.visited

@c.ensures
def ead_visited_restored(obj, visited, old, result):
    return visited == old.visited

@c.raises
def ead_visited_restored_exc(obj, visited, old, exc):
    return visited == old.visited
