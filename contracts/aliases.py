"""Contracts for the exception alias generation (C06: class-correct aliases; C01/C11: every raised alias exists)."""
from pyvc.contracts import contract
from pyvc.spec import uf, implies, is_int_list

V = "pyopenapi_gen.visit.exception_visitor"
E = "pyopenapi_gen.emitters.exceptions_emitter"


def exc_name(code):
    return uf("fn.get_exception_class_name", code)


def render_spec(codes: list, n: int) -> list:
    """the (class name, base class) pairs that must be rendered for the first n codes: one per 4xx/5xx code, 4xx under
    ClientError, 5xx under ServerError (from the statement of C06), in order"""
    if n <= 0:
        return []
    c = codes[n - 1]
    prev = render_spec(codes, n - 1)
    if 400 <= c and c < 500:
        return prev + [{"class_name": exc_name(c), "base_classes": ["ClientError"]}]
    if 500 <= c and c < 600:
        return prev + [{"class_name": exc_name(c), "base_classes": ["ServerError"]}]
    return prev


def names_spec(codes: list, n: int) -> list:
    if n <= 0:
        return []
    c = codes[n - 1]
    prev = names_spec(codes, n - 1)
    if 400 <= c and c < 600:
        return prev + [exc_name(c)]
    return prev


def int_list(xs):
    return is_int_list(xs)


# ---- ExceptionsEmitter._generate_for_codes -------------------------------------------------------------
c = contract(f"{E}:ExceptionsEmitter._generate_for_codes", props=["C06", "C11", "C01"],
             types={"status_codes": "list"}, ghost_calls={"render_class": ("rendered", ["class_name", "base_classes"])},
             nothrow_calls=["PythonConstructRenderer", "join", "render_class"])

@c.requires
def gfc_pre(self, status_codes, context):
    return int_list(status_codes)

@c.invariant(0)
def gfc_inv(self, status_codes, context, generated_alias_names, rendered, i):
    return rendered == render_spec(status_codes, i) and generated_alias_names == names_spec(status_codes, i)

@c.ensures(note="one alias class per 4xx/5xx code, 4xx under ClientError and 5xx under ServerError, named by get_exception_class_name")
def gfc_post(self, status_codes, context, rendered, result):
    return rendered == render_spec(status_codes, len(status_codes)) and result[1] == names_spec(status_codes, len(status_codes))


# ---- ExceptionVisitor.visit (verified from its alias loop on) -----------------------------------------------
c = contract(f"{V}:ExceptionVisitor.visit", props=["C06", "C01", "C11"], start_at_loop=0, on_opaque=True,
             types={"error_codes": "list", "all_exception_code": "list", "generated_alias_names": "list"},
             ghost_calls={"render_class": ("rendered", ["class_name", "base_classes"])},
             nothrow_calls=["join", "render_class"])

@c.requires
def vis_pre(self, spec, context, error_codes, all_exception_code, generated_alias_names):
    return int_list(error_codes) and generated_alias_names == [] and all_exception_code == []

@c.invariant(0)
def vis_inv(self, error_codes, generated_alias_names, rendered, i):
    return rendered == render_spec(error_codes, i) and generated_alias_names == names_spec(error_codes, i)

@c.ensures
def vis_post(self, error_codes, rendered, result):
    return rendered == render_spec(error_codes, len(error_codes)) and result[1] == names_spec(error_codes, len(error_codes))

@c.ensures(note="the third component is the list of this spec's error codes (ints)")
def vis_codes(self, spec, context, result):
    return is_int_list(result[2])
