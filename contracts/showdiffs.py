"""C09/C10: the diff check that decides a run without --force.  Two statement contracts, one per loop of ClientGenerator._show_diffs, each on ONE
arbitrary iteration: a freshly generated file that has no counterpart in the existing output, or whose counterpart's lines differ, sets has_diff;
an existing file that would no longer be generated sets has_diff; has_diff is never cleared.  pathlib and difflib are uninterpreted: Path(), `/`,
relative_to, exists, read_text, splitlines are deterministic functions of their operands within one iteration (assumed: no concurrent writer), and
difflib.unified_diff yields a non-empty sequence exactly when its two line lists differ (assumed dependency contract)."""
from pathlib import Path

from pyvc.contracts import contract
from pyvc.spec import implies

SD = "pyopenapi_gen.generator.client_generator:ClientGenerator._show_diffs"
FO = ["Path", "relative_to", "exists", "read_text", "splitlines", "difflib.unified_diff", "list"]


def _nonempty_iff_lines_differ(result, arg0, arg1):
    """difflib.unified_diff(a, b, ...) yields at least one line iff a != b"""
    return (len(list(result)) > 0) == (arg0 != arg1)


c = contract(SD + "#generated-file", props=["C09", "C10"], region_for_target="new_file", region_body_only=True,
             types={"has_diff": "bool", "old_dir": "str", "new_dir": "str", "new_file": "any"}, functional_opaque=FO, opaque_truediv=True,
             abstract_unsupported=True, dependency_post={"difflib.unified_diff": _nonempty_iff_lines_differ})


@c.ensures(only_exit="end", note="C09 converse: a generated file missing from the existing output, or differing from it, makes the non-force run fail")
def sd_generated_file_accounted(has_diff, old_dir, new_dir, new_file, old):
    counterpart = Path(old_dir) / new_file.relative_to(new_dir)
    return (implies(old.has_diff, has_diff)
            and implies(not counterpart.exists(), has_diff)
            and implies(counterpart.exists() and counterpart.read_text().splitlines() != new_file.read_text().splitlines(), has_diff))


@c.ensures(only_exit="end", note="C09 no-op clause: an up-to-date file does not by itself produce a difference")
def sd_equal_file_is_no_difference(has_diff, old_dir, new_dir, new_file, old):
    counterpart = Path(old_dir) / new_file.relative_to(new_dir)
    return implies(counterpart.exists() and counterpart.read_text().splitlines() == new_file.read_text().splitlines() and not old.has_diff, not has_diff)


c = contract(SD + "#existing-file", props=["C09", "C10"], region_for_target="old_file", region_body_only=True,
             types={"has_diff": "bool", "old_dir": "str", "new_dir": "str", "old_file": "any"}, functional_opaque=FO, opaque_truediv=True,
             abstract_unsupported=True)


@c.ensures(only_exit="end", note="C09 converse: an existing module that the current document no longer produces makes the non-force run fail")
def sd_existing_file_accounted(has_diff, old_dir, new_dir, old_file, old):
    return implies(old.has_diff, has_diff) and implies(not (Path(new_dir) / old_file.relative_to(old_dir)).exists(), has_diff)


@c.ensures(only_exit="end")
def sd_present_file_is_no_difference(has_diff, old_dir, new_dir, old_file, old):
    return implies((Path(new_dir) / old_file.relative_to(old_dir)).exists() and not old.has_diff, not has_diff)
