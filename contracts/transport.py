"""Contracts for core/http_transport.py (C17: what leaves the transport; C06: non-2xx always raises, class-correct)."""
from pyvc.contracts import contract
from pyvc.spec import (dict_set, dict_merge, dict_without, sub_dict, implies, call_count, call_kwargs, call_arg, call_result,
                       is_str_dict, uf, text_image_of)
from contracts.auth import effect_of, put, submaps_ok
from pyopenapi_gen.core.exceptions import ClientError, HTTPError, ServerError
from pyopenapi_gen.core.auth.plugins import ApiKeyAuth, BearerAuth, HeadersAuth, OAuth2Auth
from pyopenapi_gen.core.auth.base import CompositeAuth

T = "pyopenapi_gen.core.http_transport"


# ---- spec functions (from the statement) ---------------------------------------------------------------
def defaults_of(t):
    """transport-level default headers ({} when unset or empty)."""
    return t._default_headers if t._default_headers else {}


def header_text(v):
    """a header value as it leaves: text stays as it is; a typed value (int, bool, list) is rendered as text by a function of the value alone"""
    return v if isinstance(v, str) else uf("fn.header_text", v)


def header_texts(d):
    """a header map as it leaves (the transport's rendering of typed values as text, a function of the map alone; pinned down by the contract of
    `_header_texts`: same names, text values unchanged)"""
    return uf("fn.header_texts", d)


def base_headers(t, kwargs):
    """per-request headers (each value as text) over the defaults (later wins per exact key)."""
    if "headers" in kwargs and isinstance(kwargs["headers"], dict):
        return dict_merge(defaults_of(t), header_texts(kwargs["headers"]))
    return defaults_of(t)


def auth_args(t, kwargs):
    """what a plugin is shown: the caller's arguments with the merged headers"""
    return dict_set(kwargs, "headers", base_headers(t, kwargs))


def headers_after(eff, base):
    return eff["headers"] if ("headers" in eff and isinstance(eff["headers"], dict)) else base


def transport_ok(t):
    return ((t._default_headers is None or isinstance(t._default_headers, dict))
            and (t._bearer_token is None or isinstance(t._bearer_token, str)))


# ---- case split on the configured plugin (variants); each carries the plugin's type invariant ------------
def _bearer_ok(self, current_request_kwargs):
    return isinstance(self._auth.token, str) and submaps_ok(current_request_kwargs)


def _hdrs_ok(self, current_request_kwargs):
    return isinstance(self._auth.headers, dict) and submaps_ok(current_request_kwargs)


def _apikey_ok(self, current_request_kwargs):
    return (isinstance(self._auth.key, str) and isinstance(self._auth.name, str) and isinstance(self._auth.location, str)
            and submaps_ok(current_request_kwargs))


def _apikey_header(self, current_request_kwargs):
    return _apikey_ok(self, current_request_kwargs) and self._auth.location == "header"


def _apikey_query(self, current_request_kwargs):
    return _apikey_ok(self, current_request_kwargs) and self._auth.location == "query"


def _apikey_cookie(self, current_request_kwargs):
    return _apikey_ok(self, current_request_kwargs) and self._auth.location == "cookie"


def _apikey_invalid(self, current_request_kwargs):
    return _apikey_ok(self, current_request_kwargs) and self._auth.location not in ("header", "query", "cookie")


def _abstract_plugin_ph(self, current_request_kwargs):
    return not isinstance(self._auth, (BearerAuth, HeadersAuth, ApiKeyAuth, OAuth2Auth, CompositeAuth))


AUTH_VARIANTS_PH = {
    "no-auth": {"shape": {"self._auth": "none"}},
    "bearer-plugin": {"shape": {"self._auth": "obj:BearerAuth"}, "assume": _bearer_ok},
    "headers-plugin": {"shape": {"self._auth": "obj:HeadersAuth"}, "assume": _hdrs_ok},
    "apikey-header": {"shape": {"self._auth": "obj:ApiKeyAuth"}, "assume": _apikey_header},
    "apikey-query": {"shape": {"self._auth": "obj:ApiKeyAuth"}, "assume": _apikey_query},
    "apikey-cookie": {"shape": {"self._auth": "obj:ApiKeyAuth"}, "assume": _apikey_cookie},
    "apikey-invalid": {"shape": {"self._auth": "obj:ApiKeyAuth"}, "assume": _apikey_invalid},
    "other-plugin": {"shape": {"self._auth": "opaque"}, "assume": _abstract_plugin_ph},
}


def _bearer_ok_rq(self, method, url, kwargs):
    return isinstance(self._auth.token, str) and submaps_ok(kwargs)


def _hdrs_ok_rq(self, method, url, kwargs):
    return isinstance(self._auth.headers, dict) and submaps_ok(kwargs)


def _apikey_ok_rq(self, method, url, kwargs):
    return (isinstance(self._auth.key, str) and isinstance(self._auth.name, str) and isinstance(self._auth.location, str)
            and submaps_ok(kwargs))


def _apikey_header_rq(self, method, url, kwargs):
    return _apikey_ok_rq(self, method, url, kwargs) and self._auth.location == "header"


def _apikey_query_rq(self, method, url, kwargs):
    return _apikey_ok_rq(self, method, url, kwargs) and self._auth.location == "query"


def _apikey_cookie_rq(self, method, url, kwargs):
    return _apikey_ok_rq(self, method, url, kwargs) and self._auth.location == "cookie"


def _apikey_invalid_rq(self, method, url, kwargs):
    return _apikey_ok_rq(self, method, url, kwargs) and self._auth.location not in ("header", "query", "cookie")


def _abstract_plugin(self, method, url, kwargs):
    return not isinstance(self._auth, (BearerAuth, HeadersAuth, ApiKeyAuth, OAuth2Auth, CompositeAuth))


AUTH_VARIANTS = {
    "no-auth": {"shape": {"self._auth": "none"}},
    "bearer-plugin": {"shape": {"self._auth": "obj:BearerAuth"}, "assume": _bearer_ok_rq},
    "headers-plugin": {"shape": {"self._auth": "obj:HeadersAuth"}, "assume": _hdrs_ok_rq},
    "apikey-header": {"shape": {"self._auth": "obj:ApiKeyAuth"}, "assume": _apikey_header_rq},
    "apikey-query": {"shape": {"self._auth": "obj:ApiKeyAuth"}, "assume": _apikey_query_rq},
    "apikey-cookie": {"shape": {"self._auth": "obj:ApiKeyAuth"}, "assume": _apikey_cookie_rq},
    "apikey-invalid": {"shape": {"self._auth": "obj:ApiKeyAuth"}, "assume": _apikey_invalid_rq},
    "other-plugin": {"shape": {"self._auth": "opaque"}, "assume": _abstract_plugin},
}


# ---- _header_text: text in, the same text out; anything else is a function of the value alone ---------------
c = contract(f"{T}:_header_text", props=["C17", "C04"], abstract_unsupported=True, abstract_comprehensions=True, functional="header_text")

@c.ensures(note="a str header value is never altered")
def ht_text_unchanged(value, result):
    return implies(isinstance(value, str), result == value)

@c.ensures(note="OpenAPI 'simple' style for the scalar kinds httpx would refuse: booleans as true / false, integers in decimal")
def ht_scalars(value, result):
    if isinstance(value, bool):
        return result == ("true" if value else "false")
    if isinstance(value, int):
        return result == str(value)
    return True


c = contract(f"{T}:_header_texts", props=["C17", "C04"], types={"headers": "dict"}, functional="header_texts", nothrow=True)

@c.ensures(note="a map again")
def hts_is_map(headers, result):
    return isinstance(result, dict)

@c.ensures(note="same header names; each value is the text of the caller's value (a str is never altered)")
def hts_pointwise(headers, result):
    return text_image_of(result, headers, "fn.header_text")

@c.ensures(note="a map of text values leaves exactly as given")
def hts_text_map_unchanged(headers, result):
    return implies(is_str_dict(headers), result == headers)


# ---- _prepare_headers: helper contract derived from the code, strong enough to carry C17 -----------------
c = contract(f"{T}:HttpxTransport._prepare_headers", props=["C17", "C04"], types={"current_request_kwargs": "dict"}, returns="dict",
             modifies=["current_request_kwargs"], variants=AUTH_VARIANTS_PH, abstract_unsupported=True)

@c.requires
def ph_pre(self, current_request_kwargs):
    return transport_ok(self)

@c.ensures
def ph_post(self, current_request_kwargs, old, result):
    base = base_headers(self, old.current_request_kwargs)
    if self._auth is not None:
        return result == headers_after(effect_of(self._auth, auth_args(self, old.current_request_kwargs)), base)
    if self._bearer_token is not None:
        return result == dict_set(base, "Authorization", "Bearer " + self._bearer_token)
    return result == base

@c.ensures(note="non-header contributions of the plugin (query / cookie API keys) are handed back to the request")
def ph_kwargs(self, current_request_kwargs, old, result):
    if self._auth is not None:
        eff = effect_of(self._auth, auth_args(self, old.current_request_kwargs))
        return current_request_kwargs == dict_merge(old.current_request_kwargs, dict_without(eff, "headers"))
    return current_request_kwargs == old.current_request_kwargs


# ---- request -----------------------------------------------------------------------------------------
def _status_is_int(result):
    """httpx.Response.status_code is an int"""
    return isinstance(result.status_code, int) and not isinstance(result.status_code, bool)


c = contract(f"{T}:HttpxTransport.request", props=["C17", "C06", "C04"], types={"method": "str", "url": "str"},
             inline=["HTTPError"], track_calls=True, dependency_post={"self._client.request": _status_is_int}, variants=AUTH_VARIANTS)

@c.requires
def rq_pre(self, method, url, kwargs):
    return transport_ok(self)

@c.ensures(props=["C17", "C04"], note="C17, from the statement: the request that leaves carries per-request headers over defaults, then each "
                "plugin's contribution (incl. query / cookie API keys); params, body and other arguments unchanged")
def rq_sent(self, method, url, kwargs, old, result):
    base_args = auth_args(self, old.kwargs)
    if self._auth is not None:
        eff = effect_of(self._auth, base_args)
        want = dict_set(dict_merge(base_args, eff), "headers", headers_after(eff, base_args["headers"]))
    elif self._bearer_token is not None:
        want = put(base_args, "headers", "Authorization", "Bearer " + self._bearer_token)
    else:
        want = base_args
    return (call_count("self._client.request") == 1
            and call_arg("self._client.request", 0, 0) == method and call_arg("self._client.request", 0, 1) == url
            and call_kwargs("self._client.request", 0) == want)

@c.ensures(props=["C17", "C04"], note="C17: for the bundled plugin classes the merged form above is exactly the plugin's effect on the "
                "caller's arguments (nothing of the caller's is lost, nothing else is added)")
def rq_sent_exact(self, method, url, kwargs, old, result):
    if isinstance(self._auth, (BearerAuth, HeadersAuth, ApiKeyAuth)):
        return call_count("self._client.request") == 1 and call_kwargs("self._client.request", 0) == effect_of(
            self._auth, auth_args(self, old.kwargs))
    return True

@c.ensures(props=["C06"], aux=True,
           note="auxiliary (never a violation by itself): the bundled transport returns only 2xx. C06's 'never returns a value' is carried by the "
                "emitted handlers, which are proved to raise for every non-2xx status whatever the transport does; this clause is defence in depth")
def rq_returns_2xx(self, method, url, kwargs, old, result):
    return (call_count("self._client.request") == 1 and result is call_result("self._client.request", 0)
            and 200 <= result.status_code and result.status_code < 300)

@c.raises(props=["C06"], note="C06, from the statement: non-2xx raises HTTPError carrying status and response; 4xx is a ClientError, "
               "5xx a ServerError")
def rq_raises_classed(self, method, url, kwargs, old, exc):
    if call_count("self._client.request") == 0:
        return True      # failure before anything was sent (auth plugin raised): not a response
    resp = call_result("self._client.request", 0)
    if not isinstance(exc, HTTPError):
        return False
    sc = resp.status_code
    return (exc.status_code == sc and exc.response is resp and not (200 <= sc and sc < 300)
            and implies(400 <= sc and sc < 500, isinstance(exc, ClientError))
            and implies(500 <= sc and sc < 600, isinstance(exc, ServerError)))


# ---- HTTPError.__init__ (C06: the error a caller catches carries the status code and the response it was built from) -----------------
# (callers inline this constructor; it is ALSO verified on its own so that a change inside it fails a named obligation rather than pushing
#  every caller out of the engine's subset)
c = contract("pyopenapi_gen.core.exceptions:HTTPError.__init__", props=["C06"], nothrow=True, nothrow_calls=["super", "super().__init__", "__init__"],
             modifies=["self"])

@c.ensures(note="C06, from the statement: the raised error carries the response's status code, the message and the response object, for every "
                "status code (not only registered ones) and every message, the empty one included")
def he_carries(self, status_code, message, response):
    return self.status_code == status_code and self.message == message and self.response is response
