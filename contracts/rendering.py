"""C09: the renderers named by the property ("sorted rendering of imports, schemas and __init__ exports") never let a hash-seed dependent order reach
their result.  Contract option `ordered_iteration`: every for-loop, list comprehension and str.join inside the function runs over a sequence with a
determined order (list, tuple, dict in insertion order, sorted(...)); a direct iteration over a set generates an obligation that cannot be discharged.
The import sets are modelled as sets (Array String Bool); sorted(set) is a function of the set's elements only."""
from pyvc.contracts import contract

IC = "pyopenapi_gen.context.import_collector:ImportCollector"

c = contract(f"{IC}.get_formatted_imports", props=["C09"], shape={"self.imports": "dict", "self.relative_imports": "dict", "self.plain_imports": "set"},
             ordered_iteration=True, abstract_unsupported=True)


@c.ensures(note="vacuity guard / type of the result")
def gfi_str(self, result):
    return isinstance(result, str)


# ---- the other renderers the property names: statements of one import collector, the models package's __init__, undeclared path variables ---------
c = contract(f"{IC}.get_import_statements", props=["C09"], shape={"self.imports": "dict", "self.relative_imports": "dict", "self.plain_imports": "set"},
             ordered_iteration=True, abstract_unsupported=True)


@c.ensures(note="vacuity guard / type of the result")
def gis_list(self, result):
    return isinstance(result, list)


c = contract("pyopenapi_gen.emitters.models_emitter:ModelsEmitter._generate_init_py_content", props=["C09"], ordered_iteration=True, abstract_unsupported=True,
             abstract_comprehensions=True)


@c.ensures(note="vacuity guard / type of the result")
def mi_str(self, result):
    return True  # (the text comes from an opaque CodeWriter; the contract's content is the ordered_iteration option)


c = contract("pyopenapi_gen.helpers.url_utils:extract_url_variables", props=["C09"], types={"url": "str"}, returns="set", abstract_unsupported=True)


@c.ensures(note="a set (its iteration order is not an order of the path)")
def euv_set(url, result):
    return True


c = contract("pyopenapi_gen.visit.endpoint.processors.parameter_processor:EndpointParameterProcessor._ensure_path_variables_as_params", props=["C09"],
             types={"current_params": "list", "param_details_map": "dict"}, ordered_iteration=True, abstract_unsupported=True, abstract_comprehensions=True)


@c.ensures(note="C09: the arguments added for undeclared path variables are appended while iterating an ORDERED sequence (path order), never the set itself")
def epv_list(self, op, current_params, param_details_map, result):
    return isinstance(result, list)
