"""C09: the renderers named by the property ("sorted rendering of imports, schemas and __init__ exports") never let a hash-seed dependent order reach
their result.  Contract option `ordered_iteration`: every for-loop, list comprehension and str.join inside the function runs over a sequence with a
determined order (list, tuple, dict in insertion order, sorted(...)); a direct iteration over a set generates an obligation that cannot be discharged.
The import sets are modelled as sets (Array String Bool); sorted(set) is a function of the set's elements only."""
from pyvc.contracts import contract

IC = "pyopenapi_gen.context.import_collector:ImportCollector"

c = contract(f"{IC}.get_formatted_imports", props=["C09"], shape={"self.imports": "dict", "self.relative_imports": "dict", "self.plain_imports": "set"},
             ordered_iteration=True, abstract_unsupported=True)


@c.ensures(note="vacuity guard / type of the result")
def gfi_str(self, result):
    return isinstance(result, str)
