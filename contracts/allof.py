"""C02/C19: the required flags of a composed schema are the union of its own `required` and of EVERY allOf member's.
Statement contract on one arbitrary iteration of the `for sub_node in node["allOf"]` loop of _process_all_of (a second contract on the
function whose depth-balance contract lives in contracts/cycle.py): after the iteration the member's `required` names are in
merged_required and nothing that was in it has been lost (so the final set covers every member, by induction over the loop)."""
from pyvc.contracts import contract
from pyvc.spec import subset_of_list_in_set, set_grows
import contracts.cycle as cy

AO = "pyopenapi_gen.core.parsing.keywords.all_of_parser:_process_all_of"

c = contract(AO + "#allOf-member", props=["C02", "C19"], region_for_target="sub_node", region_body_only=True,
             types={"merged_required": "set", "merged_properties": "dict", "parsed_all_of_components": "list"},
             shape=cy.ctx_shape("context"), callee_alias={"_parse_schema_func": f"{cy.SP}:_parse_schema"},
             abstract_unsupported=True, tracked_names=["required", "merged_required"], nothrow_calls=[])

@c.requires
def ao_pre(context):
    return cy.group_pre(context)

@c.ensures(only_exit="end", note="C02 statement: required exactly when the spec requires it — the `required` of this allOf member (whether or not it "
                                 "declares properties) is merged, and no earlier requirement is dropped")
def ao_member_required_merged(sub_schema_ir, merged_required, old):
    return subset_of_list_in_set(sub_schema_ir.required, merged_required) and set_grows(old.merged_required, merged_required)
