"""C15: the string-literal primitive shared by the splice sites of meaning-carrying text.
Statement contract on ONE arbitrary iteration of the `for ch in value` loop of python_string_literal: exactly one token is appended per input
character (nothing is dropped or duplicated, order is the input order), and the token does not depend on the rest of the string or on the tokens
emitted so far (non-interference from `value` and `parts`): so the interior of the literal is the concatenation h(c1) h(c2) ... of a per-character
map h.  That h(c) is a safe, self-delimiting token that evaluates back to c is then a finite question over the 1,114,112 code points, decided
exhaustively against CPython's lexer in props/C15.py (EXTRA)."""
from pyvc.contracts import contract

PSL = "pyopenapi_gen.core.writers.code_writer:python_string_literal"

c = contract(PSL + "#per-character", props=["C15"], region_for_target="ch", region_body_only=True,
             types={"ch": "str", "parts": "list", "value": "str"}, abstract_unsupported=True,
             independent_of={"sources": ["value"], "allowed": []}, nothrow_calls=["ord", "isprintable", "append"])


@c.ensures(only_exit="end", note="one token per character, appended at the end (the interior of the literal is the in-order concatenation of per-character tokens)")
def psl_one_token_per_character(parts, old):
    return len(parts) == len(old.parts) + 1 and parts[:len(old.parts)] == old.parts
