"""C15: the string-literal primitive shared by the splice sites of meaning-carrying text.
Statement contract on ONE arbitrary iteration of the `for ch in value` loop of python_string_literal: exactly one token is appended per input
character (nothing is dropped or duplicated, order is the input order), and the token does not depend on the rest of the string or on the tokens
emitted so far (non-interference from `value` and `parts`): so the interior of the literal is the concatenation h(c1) h(c2) ... of a per-character
map h.  That h(c) is a safe, self-delimiting token that evaluates back to c is then a finite question over the 1,114,112 code points, decided
exhaustively against CPython's lexer in props/C15.py (EXTRA)."""
from pyvc.contracts import contract

PSL = "pyopenapi_gen.core.writers.code_writer:python_string_literal"

c = contract(PSL + "#per-character", props=["C15"], region_for_target="ch", region_body_only=True,
             types={"ch": "str", "parts": "list", "value": "str"}, abstract_unsupported=True,
             independent_of={"sources": ["value"], "allowed": []}, nothrow_calls=["ord", "isprintable", "append"])


@c.ensures(only_exit="end", note="one token per character, appended at the end (the interior of the literal is the in-order concatenation of per-character tokens)")
def psl_one_token_per_character(parts, old):
    return len(parts) == len(old.parts) + 1 and parts[:len(old.parts)] == old.parts


# ---- splice sites of meaning-carrying text: the emitted line varies with the text ONLY through the escaping primitive -------------------------
# Statement contracts on one arbitrary iteration of each emitting loop.  Obligation per write_line call (non-interference modulo declassification):
#   line == line[text := text']   where every application python_string_literal(.. text ..) is held fixed.
# So whatever the text is, it reaches the generated source only as the output of python_string_literal (whose tokens are checked exhaustively).
R = "pyopenapi_gen.core.writers.python_construct_renderer:PythonConstructRenderer"
U = "pyopenapi_gen.visit.endpoint.generators.url_args_generator:EndpointUrlArgsGenerator"
SPLICE = dict(region_body_only=True, abstract_unsupported=True, functional_opaque=["python_string_literal", "NameSanitizer.sanitize_method_name", "sanitize_method_name"],
              nothrow_calls=["python_string_literal", "write_line"])


def _site(qual, label, target, sources, types, occurrence=0, **extra):
    cc = contract(f"{qual}#{label}", props=["C15"], region_for_target=target, region_occurrence=occurrence, types=types,
                  independent_of={"sources": sources, "allowed": ["python_string_literal", "sanitize_method_name"], "declassify": ["python_string_literal"]},
                  **dict(SPLICE, **extra))

    @cc.ensures(only_exit="end", note="vacuity guard: the iteration has a normal exit")
    def reaches_end():
        return True
    return cc


_enum_site = _site(R + ".render_enum", "enum-member", "(member_name, value)", ["value"], {"member_name": "str", "value": "any", "base_type": "str"}, occurrence=1)


@_enum_site.requires
def string_enum_member(value, base_type):
    """the text case: a string enum. (For an integer enum EnumGenerator hands over int values only — it coerces every declared value with int(),
    falling back to 0 — and an int is rendered by str(int): digits and a sign, not text. That caller guarantee is not part of this contract.)"""
    return base_type == "str" and isinstance(value, str)
_site(R + ".render_dataclass", "meta-load-map", "(api_field, python_field)", ["api_field"], {"api_field": "str", "python_field": "str"}, occurrence=0)
_site(R + ".render_dataclass", "meta-dump-map", "(api_field, python_field)", ["api_field"], {"api_field": "str", "python_field": "str"}, occurrence=1)
_site(R + ".render_alias", "discriminator-tuple", "(disc_value, schema_ref)", ["disc_value"], {"disc_value": "str", "schema_ref": "str"}, occurrence=0)
_site(R + ".render_alias", "discriminator-dict", "(disc_value, schema_ref)", ["disc_value"], {"disc_value": "str", "schema_ref": "str"}, occurrence=2)
_site(U + "._write_query_params", "query-name", "(i, p)", ["p['original_name']"], {"i": "int", "p": "dict"})
_site(U + "._write_header_params", "header-name", "p_info", ["p_info['original_name']"], {"p_info": "dict"})
_site(U + ".generate_url_and_args", "cookie-name", "p_info", ["p_info['original_name']"], {"p_info": "dict"})


# ---- docstrings: the rendered docstring varies with summary / description only through escape_docstring_text ------------------------------
DW = "pyopenapi_gen.core.writers.documentation_writer:DocumentationWriter.render_docstring"
c = contract(DW, props=["C15"], types={"indent": "int"}, shape={"doc.summary": "any", "doc.description": "any", "doc.args": "any", "doc.returns": "any", "doc.raises": "any"},
             abstract_unsupported=True, functional_opaque=["escape_docstring_text", "self.formatter.wrap", "wrap"],
             independent_of={"sources": ["doc.summary", "doc.description"], "allowed": ["wrap", "escape_docstring_text", "render_args", "render_returns", "render_raises", "extend", "append"],
                             "declassify": ["escape_docstring_text"], "result": True})


# ---- string defaults -------------------------------------------------------------------------------------------------------------------------
DG = "pyopenapi_gen.visit.model.dataclass_generator:DataclassGenerator._get_field_default"
c = contract(DG, props=["C15"], shape={"ps.default": "any", "ps.type": "any", "ps.name": "any", "ps.enum": "any"}, abstract_unsupported=True,
             functional_opaque=["python_string_literal"],
             independent_of={"sources": ["ps.default"], "allowed": ["python_string_literal", "get", "add_import", "upper", "replace"], "declassify": ["python_string_literal"], "result": True})


@c.requires
def gfd_string_default(self, ps, context):
    """the text case: a string default of a non-enum property (an enum-typed default is turned into a member access by name, numbers and booleans
    are rendered by str() of a number / bool: not text)"""
    return isinstance(ps.default, str) and ps.name is None


# ---- C04: every query / header / cookie parameter of the operation gets exactly one entry in the emitted dict, keyed by its wire name -----------
from pyvc.spec import call_count, call_arg  # noqa: E402
from pyopenapi_gen.core.utils import NameSanitizer  # noqa: E402
from pyopenapi_gen.core.writers.code_writer import python_string_literal  # noqa: E402


def _returns_str(result):
    """python_string_literal / sanitize_method_name return str (their own contracts: C15 / C20)"""
    return isinstance(result, str)


def _one_entry(label, qual, target, pvar, types):
    cc = contract(f"{qual}#{label}", props=["C04"], region_for_target=target, region_body_only=True, types=types, abstract_unsupported=True, track_calls=True,
                  functional_opaque=["python_string_literal", "NameSanitizer.sanitize_method_name", "sanitize_method_name"],
                  nothrow_calls=["python_string_literal", "write_line", "sanitize_method_name", "get"],
                  dependency_post={"python_string_literal": _returns_str, "sanitize_method_name": _returns_str})

    entry_written = None
    return cc, entry_written


_cq, _fq = _one_entry("query-entry", U + "._write_query_params", "(i, p)", "p", {"i": "int", "p": "dict"})


@_cq.requires(typing=True)
def q_types(p):
    return isinstance(p["name"], str) and isinstance(p["original_name"], str)


@_cq.ensures(only_exit="end", note="C04: one dict entry per query parameter, keyed by the wire name literal, valued by the serialised argument of that parameter")
def q_entry(p):
    if call_count("CodeWriter.write_line") != 1:
        return False
    line = call_arg("CodeWriter.write_line", 0, 1)  # argument 0 is the receiver
    lit = python_string_literal(p["original_name"])
    var = NameSanitizer.sanitize_method_name(p["name"])
    if not (isinstance(line, str) and isinstance(lit, str) and isinstance(var, str)):
        return False
    return str(lit) in str(line) and ("DataclassSerializer.serialize(" + str(var) + ")") in str(line)


_ch, _fh = _one_entry("header-entry", U + "._write_header_params", "p_info", "p_info", {"p_info": "dict"})


@_ch.requires(typing=True)
def h_types(p_info):
    return isinstance(p_info["name"], str) and isinstance(p_info["original_name"], str)


@_ch.ensures(only_exit="end", note="C04: one dict entry per header parameter")
def h_entry(p_info):
    if call_count("CodeWriter.write_line") != 1:
        return False
    line = call_arg("CodeWriter.write_line", 0, 1)  # argument 0 is the receiver
    lit = python_string_literal(p_info["original_name"])
    var = NameSanitizer.sanitize_method_name(p_info["name"])
    if not (isinstance(line, str) and isinstance(lit, str) and isinstance(var, str)):
        return False
    return str(lit) in str(line) and ("DataclassSerializer.serialize(" + str(var) + ")") in str(line)


_cc, _fc = _one_entry("cookie-entry", U + ".generate_url_and_args", "p_info", "p_info", {"p_info": "dict"})


@_cc.requires(typing=True)
def c_types(p_info):
    return isinstance(p_info["name"], str) and isinstance(p_info["original_name"], str)


@_cc.ensures(only_exit="end", note="C04: one dict entry per cookie parameter")
def c_entry(p_info):
    if call_count("CodeWriter.write_line") != 1:
        return False
    line = call_arg("CodeWriter.write_line", 0, 1)  # argument 0 is the receiver
    lit = python_string_literal(p_info["original_name"])
    var = NameSanitizer.sanitize_method_name(p_info["name"])
    if not (isinstance(line, str) and isinstance(lit, str) and isinstance(var, str)):
        return False
    return str(lit) in str(line) and ("DataclassSerializer.serialize(" + str(var) + ")") in str(line)


# ---- discriminated union alias: the variants are imported under the names the model files are emitted with (C14 / C01) ----------------------------
from pyopenapi_gen.core.utils import NameSanitizer  # noqa: E402


def _returns_str(result):
    """NameSanitizer functions return str (their own properties are C20's)"""
    return isinstance(result, str)


c = contract(R + ".render_alias#discriminator-import", props=["C14", "C01"], region_for_target="(disc_value, schema_ref)", region_occurrence=1, region_body_only=True,
             types={"disc_value": "str", "schema_ref": "str"}, abstract_unsupported=True, track_calls=True,
             functional_opaque=["NameSanitizer.sanitize_module_name", "sanitize_module_name", "NameSanitizer.sanitize_class_name", "sanitize_class_name"],
             nothrow_calls=["sanitize_module_name", "sanitize_class_name", "write_line"],
             dependency_post={"sanitize_module_name": _returns_str, "sanitize_class_name": _returns_str})


@c.ensures(only_exit="end", note="C14 / C01: the one line this iteration writes is `from .<module name of the schema> import <class name of the schema>`, both derived by "
                                 "NameSanitizer from the last component of the reference — the same functions that name the model's file and class")
def di_imports_under_emitted_names(schema_ref):
    if call_count("writer.write_line") != 1:
        return False
    name = schema_ref.split("/")[-1]
    return call_arg("writer.write_line", 0, 0) == "        from ." + NameSanitizer.sanitize_module_name(name) + " import " + NameSanitizer.sanitize_class_name(name)


# ---- wrapper classes of map / free-form object schemas: the schema's description reaches the class template only through escape_docstring_text (C15) ----
DGW = "pyopenapi_gen.visit.model.dataclass_generator:DataclassGenerator._generate_json_wrapper_class"
c = contract(DGW, props=["C15"], types={"class_name": "str"}, shape={"schema.description": "any", "schema.additional_properties": "any"}, abstract_unsupported=True,
             functional_opaque=["escape_docstring_text"],
             independent_of={"sources": ["schema.description"], "allowed": ["escape_docstring_text", "add_import", "resolve_schema_type", "isinstance"],
                             "declassify": ["escape_docstring_text"], "result": True})


@c.ensures(note="vacuity guard: the function has a normal exit")
def gjw_returns(self, class_name, schema, context, result):
    return True


# ---- APIClient accessor properties: the tag text reaches the emitted lines only through escape_docstring_text (C15) ------------------------------------
CV = "pyopenapi_gen.visit.client_visitor:ClientVisitor._generate_client_implementation"
c = contract(CV + "#accessor-property", props=["C15"], region_for_target="(tag, class_name, module_name)", region_occurrence=2, region_body_only=True,
             types={"tag": "str", "class_name": "str", "module_name": "str"}, abstract_unsupported=True, functional_opaque=["escape_docstring_text"],
             nothrow_calls=["escape_docstring_text", "write_line", "indent", "dedent"],
             independent_of={"sources": ["tag"], "allowed": ["escape_docstring_text"], "declassify": ["escape_docstring_text"]})


@c.ensures(only_exit="end", note="vacuity guard: the iteration has a normal exit")
def ap_reaches_end():
    return True
