"""C15: the string-literal primitive shared by the splice sites of meaning-carrying text.
Statement contract on ONE arbitrary iteration of the `for ch in value` loop of python_string_literal: exactly one token is appended per input
character (nothing is dropped or duplicated, order is the input order), and the token does not depend on the rest of the string or on the tokens
emitted so far (non-interference from `value` and `parts`): so the interior of the literal is the concatenation h(c1) h(c2) ... of a per-character
map h.  That h(c) is a safe, self-delimiting token that evaluates back to c is then a finite question over the 1,114,112 code points, decided
exhaustively against CPython's lexer in props/C15.py (EXTRA)."""
from pyvc.contracts import contract

PSL = "pyopenapi_gen.core.writers.code_writer:python_string_literal"

c = contract(PSL + "#per-character", props=["C15"], region_for_target="ch", region_body_only=True,
             types={"ch": "str", "parts": "list", "value": "str"}, abstract_unsupported=True,
             independent_of={"sources": ["value"], "allowed": []}, nothrow_calls=["ord", "isprintable", "append"])


@c.ensures(only_exit="end", note="one token per character, appended at the end (the interior of the literal is the in-order concatenation of per-character tokens)")
def psl_one_token_per_character(parts, old):
    return len(parts) == len(old.parts) + 1 and parts[:len(old.parts)] == old.parts


# ---- splice sites of meaning-carrying text: the emitted line varies with the text ONLY through the escaping primitive -------------------------
# Statement contracts on one arbitrary iteration of each emitting loop.  Obligation per write_line call (non-interference modulo declassification):
#   line == line[text := text']   where every application python_string_literal(.. text ..) is held fixed.
# So whatever the text is, it reaches the generated source only as the output of python_string_literal (whose tokens are checked exhaustively).
R = "pyopenapi_gen.core.writers.python_construct_renderer:PythonConstructRenderer"
U = "pyopenapi_gen.visit.endpoint.generators.url_args_generator:EndpointUrlArgsGenerator"
SPLICE = dict(region_body_only=True, abstract_unsupported=True, functional_opaque=["python_string_literal", "NameSanitizer.sanitize_method_name", "sanitize_method_name"],
              nothrow_calls=["python_string_literal", "write_line"])


def _site(qual, label, target, sources, types, occurrence=0, **extra):
    cc = contract(f"{qual}#{label}", props=["C15"], region_for_target=target, region_occurrence=occurrence, types=types,
                  independent_of={"sources": sources, "allowed": ["python_string_literal", "sanitize_method_name"], "declassify": ["python_string_literal"]},
                  **dict(SPLICE, **extra))

    @cc.ensures(only_exit="end", note="vacuity guard: the iteration has a normal exit")
    def reaches_end():
        return True
    return cc


_enum_site = _site(R + ".render_enum", "enum-member", "(member_name, value)", ["value"], {"member_name": "str", "value": "any", "base_type": "str"}, occurrence=1)


@_enum_site.requires
def string_enum_member(value, base_type):
    """the text case: a string enum. (For an integer enum EnumGenerator hands over int values only — it coerces every declared value with int(),
    falling back to 0 — and an int is rendered by str(int): digits and a sign, not text. That caller guarantee is not part of this contract.)"""
    return base_type == "str" and isinstance(value, str)
_site(R + ".render_dataclass", "meta-load-map", "(api_field, python_field)", ["api_field"], {"api_field": "str", "python_field": "str"}, occurrence=0)
_site(R + ".render_dataclass", "meta-dump-map", "(api_field, python_field)", ["api_field"], {"api_field": "str", "python_field": "str"}, occurrence=1)
_site(R + ".render_alias", "discriminator-tuple", "(disc_value, schema_ref)", ["disc_value"], {"disc_value": "str", "schema_ref": "str"}, occurrence=0)
_site(R + ".render_alias", "discriminator-dict", "(disc_value, schema_ref)", ["disc_value"], {"disc_value": "str", "schema_ref": "str"}, occurrence=2)
_site(U + "._write_query_params", "query-name", "(i, p)", ["p['original_name']"], {"i": "int", "p": "dict"})
_site(U + "._write_header_params", "header-name", "p_info", ["p_info['original_name']"], {"p_info": "dict"})
_site(U + ".generate_url_and_args", "cookie-name", "p_info", ["p_info['original_name']"], {"p_info": "dict"})


# ---- docstrings: the rendered docstring varies with summary / description only through escape_docstring_text ------------------------------
DW = "pyopenapi_gen.core.writers.documentation_writer:DocumentationWriter.render_docstring"
c = contract(DW, props=["C15"], types={"indent": "int"}, shape={"doc.summary": "any", "doc.description": "any", "doc.args": "any", "doc.returns": "any", "doc.raises": "any"},
             abstract_unsupported=True, functional_opaque=["escape_docstring_text", "self.formatter.wrap", "wrap"],
             independent_of={"sources": ["doc.summary", "doc.description"], "allowed": ["wrap", "escape_docstring_text", "render_args", "render_returns", "render_raises", "extend", "append"],
                             "declassify": ["escape_docstring_text"], "result": True})


# ---- string defaults -------------------------------------------------------------------------------------------------------------------------
DG = "pyopenapi_gen.visit.model.dataclass_generator:DataclassGenerator._get_field_default"
c = contract(DG, props=["C15"], shape={"ps.default": "any", "ps.type": "any", "ps.name": "any", "ps.enum": "any"}, abstract_unsupported=True,
             functional_opaque=["python_string_literal"],
             independent_of={"sources": ["ps.default"], "allowed": ["python_string_literal", "get", "add_import", "upper", "replace"], "declassify": ["python_string_literal"], "result": True})


@c.requires
def gfd_string_default(self, ps, context):
    """the text case: a string default of a non-enum property (an enum-typed default is turned into a member access by name, numbers and booleans
    are rendered by str() of a number / bool: not text)"""
    return isinstance(ps.default, str) and ps.name is None
