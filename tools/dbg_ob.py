"""debug: print the path condition and goal of the obligations of one contract.  usage: dbg_ob.py <contracts.module> <qual-substring> [ob-substring]"""
import importlib
import sys
sys.path.insert(0, '/verif'); sys.path.insert(0, '/repo/src')
import z3
from pyvc import verify, contracts
importlib.import_module(sys.argv[1])
for q, c in contracts.REGISTRY.items():
    if sys.argv[2] in q:
        rep = verify.verify_function(c)
        for ob in rep.obligations:
            if len(sys.argv) > 3 and sys.argv[3] not in ob.id:
                continue
            print("==", ob.id, ob.kind)
            for a in ob.pc:
                print("  pc:", str(z3.simplify(a) if z3.is_expr(a) else a)[:600])
            print("  goal:", str(z3.simplify(ob.goal))[:1500])
        print("assumptions:", *rep.assumptions, sep="\n  ")
        print("abstracted:", *getattr(rep, "abstracted", []), sep="\n  ")
