#!/bin/bash
# runs every seeded change against the check of the property it breaks (quick tier); one result line per change
cd /verif
src=${1:-seeded}
for d in $src/C*/m*; do
  id=$(basename $(dirname $d)); m=$(basename $d)
  out=$(LINES_MAX=40 tools/try_seeded.sh $d $id quick 2>&1 | grep -v '^WARNING')
  rc=$(echo "$out" | grep -o 'exit=[0-9]*' | tail -1)
  nv=$(echo "$out" | grep -c '^VIOLATION')
  proof=$(echo "$out" | grep 'failed obligation' | grep -vc 'bounded:\|exhaustive:\|exact:\|census:\|structural:\|table:')
  first=$(echo "$out" | grep 'failed obligation' | head -2 | sed 's/.*failed obligation: //' | tr '\n' ';' | cut -c1-260)
  echo "$id/$m $rc violations=$nv by-proof=$proof :: $first"
done
