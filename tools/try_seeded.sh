#!/bin/bash
# usage: try_seeded.sh <dir-with-patch.diff> <Cxx> [tier]  — applies the change to /repo, runs the check, reverts
d=$(cd /verif; realpath $1); p=$2; t=${3:-quick}
cd /repo || exit 9
if ! git diff --quiet; then echo "/repo dirty"; exit 9; fi
if git apply --check $d/patch.diff 2>/dev/null; then git apply $d/patch.diff; else git apply --3way $d/patch.diff 2>/dev/null || { echo "PATCH DOES NOT APPLY"; git reset -q --hard HEAD; exit 8; }; fi
cd /verif; ./check $p --tier $t 2>&1 | grep -v '^WARNING' | grep -E "VIOLATION|failed obligation|^\[C|UNDECIDED|CHECKER-FAULT|KNOWN" | cut -c1-260 | head -${LINES_MAX:-12}
rc=${PIPESTATUS[0]}
cd /repo; git reset -q --hard HEAD; git status --short | grep -v "^??" | head -2
echo "exit=$rc"
