"""Builds /verif/seeded/<id>/<mN>/ (patch.diff, demo_test.py, notes.md, meta.json) and /verif/seeded/RESULTS.md from seeded_incoming/ (the
sub-agents' deliveries, ported to the current /repo HEAD where needed), the confirmation logs (tools/confirm_seeded.sh) and the detection run
(tools/detect_all.sh > file)."""
import json
import os
import re
import shutil
import sys

ROOT = "/verif"
detect_file = sys.argv[1]
det = {}
for line in open(detect_file):
    m = re.match(r"(C\d+)/(m\d+) exit=(\d+) violations=(\d+) by-proof=(\d+) :: (.*)", line.strip())
    if m:
        det[(m.group(1), m.group(2))] = dict(exit=int(m.group(3)), violations=int(m.group(4)), first=[x for x in m.group(6).split(";") if x])
rows = []
for id_ in sorted(os.listdir(f"{ROOT}/seeded_incoming")):
    for mn in sorted(os.listdir(f"{ROOT}/seeded_incoming/{id_}")):
        src = f"{ROOT}/seeded_incoming/{id_}/{mn}"
        if not os.path.exists(f"{src}/patch.diff"):
            continue
        dst = f"{ROOT}/seeded/{id_}/{mn}"
        os.makedirs(dst, exist_ok=True)
        for f in ("patch.diff", "demo_test.py", "notes.md"):
            if os.path.exists(f"{src}/{f}"):
                shutil.copy(f"{src}/{f}", f"{dst}/{f}")
        notes = open(f"{src}/notes.md").read() if os.path.exists(f"{src}/notes.md") else ""
        title = notes.strip().splitlines()[0].lstrip("# ").strip() if notes.strip() else ""
        mm = re.search(r"##[^\n]*(needed|need)[^\n]*\n(.*?)(?=\n## |\Z)", notes, re.S | re.I)
        needs = re.sub(r"\s+", " ", mm.group(2)).strip()[:1200] if mm else ""
        conf = open(f"{src}/confirm.txt").read() if os.path.exists(f"{src}/confirm.txt") else ""
        def after(label):
            m_ = re.search(re.escape(label) + r"\n([^\n]*)", conf)
            return m_.group(1).strip() if m_ else None
        d = det.get((id_, mn), {})
        first = d.get("first", [])
        def kind(x):
            if x.startswith(("bounded:",)):
                return "bounded stand-in"
            if x.startswith(("exhaustive:", "exact:", "census:", "table:", "emitted:", "structural:", "assumption:")):
                return "exact finite check"
            return "discharged obligation (proof)"
        kinds = sorted({kind(x) for x in first})
        ported = os.path.exists(f"{src}/patch_orig_pinned.diff")
        meta = {
            "property": id_, "change": mn, "title": title, "breaks": f"{id_} (see notes.md for the clause)", "needs_to_manifest": needs,
            "patch_against": (re.search(r"head: (\w+)", conf).group(1) if re.search(r"head: (\w+)", conf) else None),
            "ported_from_pinned_commit": ported,
            "confirmed_in_scratch_worktree": {
                "command": f"tools/confirm_seeded.sh {id_} {mn}  (git worktree of /repo HEAD under /tmp, removed afterwards)",
                "demo_without_change": after("== demo on clean tree"), "patch_applies": after("apply:") or (re.search(r"apply: (\w+)", conf).group(1) if re.search(r"apply: (\w+)", conf) else None),
                "demo_with_change": after("== demo with change"), "full_suite_with_change": after("== full suite with change"),
                "failing_set": (re.search(r"failing set: ([^\n]*)", conf).group(1) if re.search(r"failing set: ([^\n]*)", conf) else None)},
            "check_result": {"command": f"git -C /repo apply seeded/{id_}/{mn}/patch.diff; ./check {id_} --tier quick; git -C /repo checkout -- .",
                             "exit": d.get("exit"), "violation_lines": d.get("violations"), "caught_by": kinds, "first_failed_obligations": first},
        }
        json.dump(meta, open(f"{dst}/meta.json", "w"), indent=1)
        rows.append((id_, mn, title[:70], d.get("exit"), ", ".join(kinds) or "-", (first[0] if first else "")[:110]))
with open(f"{ROOT}/seeded/RESULTS.md", "w") as f:
    f.write("# Seeded changes vs. checks (quick tier)\n\nEach change was applied to /repo, the check of the property it breaks was run, and the change was reverted "
            "(`tools/detect_all.sh`). exit 1 = VIOLATION reported.\n\n| change | what | exit | caught by | first failed obligation |\n|---|---|---|---|---|\n")
    for r in rows:
        f.write(f"| {r[0]}/{r[1]} | {r[2]} | {r[3]} | {r[4]} | `{r[5]}` |\n")
    n1 = sum(1 for r in rows if r[3] == 1)
    f.write(f"\n{n1} of {len(rows)} changes reported as VIOLATION by the check of their own property.\n")
print(len(rows), "changes;", sum(1 for r in rows if r[3] == 1), "caught")
