#!/bin/bash
# for every `fix:` commit recorded in known_findings.json: revert that one commit on a dirty /repo tree, run the property's check, restore.
cd /verif
.venv/bin/python - <<'PY' 2>/dev/null > /tmp/fixlist.txt
import json
for x in json.load(open('/verif/known_findings.json')):
    if x['status'] == 'fixed':
        print(x['property'], x['commit'], x['id'])
PY
while read prop commit fid; do
  mkdir -p /tmp/rv; git -C /repo diff $commit $commit~1 > /tmp/rv/patch.diff
  out=$(LINES_MAX=30 tools/try_seeded.sh /tmp/rv $prop quick 2>&1 | grep -v '^WARNING')
  rc=$(echo "$out" | grep -o 'exit=[0-9]*' | tail -1)
  first=$(echo "$out" | grep 'failed obligation\|DOES NOT APPLY' | head -1 | sed 's/.*failed obligation: //' | cut -c1-150)
  echo "$prop $commit $fid $rc :: $first"
done < /tmp/fixlist.txt
rm -rf /tmp/rv
