#!/bin/bash
# usage: confirm_seeded.sh <Cxx> <mN>   — confirms a seeded change in a scratch worktree of /repo HEAD (outside /repo, /verif)
id=$1; m=$2
src=/verif/seeded/$id/$m
wt=/tmp/cf_${id}_${m}
out=$src/confirm.txt
rm -rf $wt; git -C /repo worktree add -q --detach $wt HEAD || exit 1
cd $wt; mkdir -p _tmp
export TMPDIR=$wt/_tmp PYTHONPATH=$wt/src
{
echo "head: $(git rev-parse --short HEAD)"
cp $src/demo_test.py $wt/demo_test_${id}_${m}.py
echo "== demo on clean tree"; /venv/bin/python -m pytest -q -p no:cacheprovider -p no:warnings demo_test_${id}_${m}.py 2>&1 | tail -1
if git apply --check $src/patch.diff 2>/dev/null; then git apply $src/patch.diff; echo "apply: clean"; elif git apply --3way $src/patch.diff 2>/dev/null; then echo "apply: 3way"; else echo "apply: FAILED"; fi
git diff --stat | tail -1
echo "== demo with change"; /venv/bin/python -m pytest -q -p no:cacheprovider -p no:warnings demo_test_${id}_${m}.py 2>&1 | tail -1
rm -f demo_test_${id}_${m}.py
echo "== full suite with change"; /venv/bin/python -m pytest -q -p no:cacheprovider -p no:warnings --timeout=900 --continue-on-collection-errors -rf 2>&1 | grep -E "^FAILED|passed|failed" | sed 's/ - .*//' | sort > _suite.txt; tail -1 _suite.txt; grep -c '^FAILED' _suite.txt
grep '^FAILED' _suite.txt | sort > _f.txt; grep '^FAILED' /verif/tools/baseline_failed.txt | sed 's/ - .*//' | sort > _b.txt; if diff -q _f.txt _b.txt >/dev/null; then echo "failing set: identical to baseline"; else echo "failing set: DIFFERS"; diff _f.txt _b.txt | head -5; fi
} > $out 2>&1
cd /; git -C /repo worktree remove --force $wt
