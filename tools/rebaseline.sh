#!/bin/bash
# regenerates the baseline ledgers (obligation id -> status on the unchanged tree) for all claimed properties, in parallel
cd /verif
ids=${@:-$(ls props | grep -E '^C[0-9]+\.py$' | sed 's/\.py//')}
for p in $ids; do ( ./check $p --update-baseline > .scratch/rebase_$p.log 2>&1; echo "$p exit=$?  $(grep '^\[C' .scratch/rebase_$p.log | cut -c1-200)" ) & done; wait
