#!/bin/bash
# regenerates the baseline ledgers (obligation id -> status on the unchanged tree) for all claimed properties, 5 at a time
cd /verif
mkdir -p .scratch
ids=${@:-$(ls props | grep -E '^C[0-9]+\.py$' | sed 's/\.py//')}
echo $ids | tr ' ' '\n' | xargs -P 5 -I{} sh -c './check {} --update-baseline > .scratch/rebase_{}.log 2>&1; echo "{} exit=$?  $(grep "^\[C" .scratch/rebase_{}.log | cut -c1-200)"'
