#!/bin/bash
# usage: import_round2.sh <Cxx> [mN]  — takes a sub-agent's delivery from its scratch worktree, removes the worktree, confirms the change at /repo HEAD
id=$1; m=${2:-m3}; wt=/tmp/${3:-wt2}_$id
if [ ! -f $wt/_out/$m/patch.diff ]; then echo "$id: no delivery in $wt/_out/$m"; exit 1; fi
for dst in /verif/seeded_incoming/$id/$m /verif/seeded/$id/$m; do mkdir -p $dst; cp $wt/_out/$m/patch.diff $wt/_out/$m/demo_test.py $wt/_out/$m/notes.md $dst/ 2>/dev/null; done
dirty=$(git -C $wt status --short | grep -v '^??' | wc -l)
echo "$id: worktree dirty files: $dirty"
git -C /repo worktree remove --force $wt
/verif/tools/confirm_seeded.sh $id $m
cp /verif/seeded/$id/$m/confirm.txt /verif/seeded_incoming/$id/$m/confirm.txt
grep -A1 "demo on clean\|demo with change" /verif/seeded/$id/$m/confirm.txt | grep -v "^--" | tr '\n' ' '; grep "failing set\|apply:" /verif/seeded/$id/$m/confirm.txt | tr '\n' ' '; echo
