#!/bin/bash
# Regenerates everything that must come from a run on the UNCHANGED tree before a commit: ledgers + evidence (quick tier), MANIFEST; validates both.
cd /verif
if [ -n "$(git -C /repo status --short | grep -v '^??')" ]; then echo "/repo is dirty: refusing"; exit 1; fi
tools/rebaseline.sh 2>&1 | grep -v WARNING | sort | awk '{print $1, $2, $5, $6, $10}' | tr '\n' ';'; echo
.venv/bin/python tools_manifest.py 2>&1 | grep -v WARNING | tail -1 | cut -c1-60
.venv/bin/python - <<'PY' 2>/dev/null
import json, jsonschema, glob
m = json.load(open('/verif/MANIFEST.json')); jsonschema.validate(m, json.load(open('/root/.vp/MANIFEST.schema.json')))
es = json.load(open('/root/.vp/EVIDENCE.schema.json'))
bad = 0
for c in m['checks']:
    e = json.load(open(c['evidence_file']))
    jsonschema.validate(e, es)
    cov = e['coverage']
    if e['level'] != c['level_claimed']['category']:
        print("LEVEL MISMATCH", c['property_id'], e['level'], c['level_claimed']['category']); bad += 1
    if e['level'] == 'proof' and cov.get('obligations') != cov.get('discharged'):
        print("PROOF NOT COMPLETE", c['property_id'], cov.get('obligations'), cov.get('discharged')); bad += 1
    if e.get('violations'):
        print("VIOLATIONS IN EVIDENCE", c['property_id']); bad += 1
print("manifest + evidence consistent" if not bad else f"{bad} problems")
PY
