#!/bin/bash
# Runs every seeded change against the check of the property it breaks, several properties at a time: each worker gets its own clone of /repo HEAD,
# bind-mounted over /repo in a private mount namespace (the checks read /repo), and handles a disjoint set of properties (evidence / replay files are
# per property).  usage: detect_parallel.sh <seeded dir> <workers> > results
src=$(realpath ${1:-/verif/seeded}); w=${2:-4}
cd /verif
ids=$(ls -d $src/C* | xargs -n1 basename)
k=0
for i in $(seq 1 $w); do rm -rf /tmp/rc$i; git clone -q /repo /tmp/rc$i; : > /tmp/detect_worker_$i.txt; done
for id in $ids; do k=$(( k % w + 1 )); echo $id >> /tmp/detect_ids_$k.lst; done
for i in $(seq 1 $w); do
  ( unshare -m bash -c "mount --bind /tmp/rc$i /repo && cd /verif && for id in \$(cat /tmp/detect_ids_$i.lst); do for d in $src/\$id/m*; do m=\$(basename \$d); out=\$(LINES_MAX=40 tools/try_seeded.sh \$d \$id quick 2>&1 | grep -v '^WARNING'); rc=\$(echo \"\$out\" | grep -o 'exit=[0-9]*' | tail -1); nv=\$(echo \"\$out\" | grep -c '^VIOLATION'); proof=\$(echo \"\$out\" | grep 'failed obligation' | grep -vc 'bounded:\|exhaustive:\|exact:\|census:\|structural:\|table:'); first=\$(echo \"\$out\" | grep 'failed obligation' | head -2 | sed 's/.*failed obligation: //' | tr '\n' ';' | cut -c1-260); echo \"\$id/\$m \$rc violations=\$nv by-proof=\$proof :: \$first\"; done; done" > /tmp/detect_worker_$i.txt 2>&1; rm -f /tmp/detect_ids_$i.lst ) &
done
wait
cat /tmp/detect_worker_*.txt | sort
for i in $(seq 1 $w); do rm -rf /tmp/rc$i /tmp/detect_worker_$i.txt; done
