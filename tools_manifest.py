"""Regenerates MANIFEST.json from the property modules under props/ (claimed) and NOT_APPLICABLE below."""
import importlib, json, os, sys
ROOT = os.path.dirname(os.path.abspath(__file__))
sys.path.insert(0, ROOT)
ALL = [f"C{n:02d}" for n in range(1, 21)]
NOT_APPLICABLE = {}
PENDING_REASON = "not claimed yet in this revision: contracts for this property are still being written (see DESIGN.md §9 build order)"
checks, na = [], []
for pid in ALL:
    if os.path.exists(os.path.join(ROOT, "props", f"{pid}.py")):
        pm = importlib.import_module(f"props.{pid}")
        m = pm.MANIFEST
        checks.append({
            "property_id": pid,
            "quick_cmd": f"./check {pid} --tier quick",
            "thorough_cmd": f"./check {pid} --tier thorough",
            "evidence_file": f"/verif/evidence/{pid}.json",
            "replay_cmd_template": f"./check {pid} --replay {{path}}",
            "engine": "pyvc",
            "level_claimed": {"category": m["category"], "text": m["text"], "design_ref": m.get("design_ref", "DESIGN.md §11.3 (as built); §5 " + pid + " (plan)")},
            "level_note": m["note"],
            "technique": m["technique"],
        })
    else:
        na.append({"property_id": pid, "reason": NOT_APPLICABLE.get(pid, PENDING_REASON)})
man = {
    "version": 1,
    "setup_cmd": "./setup.sh",
    "hooks": {"guard": "PYOPENAPI_GEN_VERIF", "enable": "none needed: contracts are sidecar files under /verif/contracts; /repo carries no verification hooks",
              "baseline_off_cmd": "cd /repo && /venv/bin/python -m pytest -ra -q -p no:cacheprovider --timeout=900 --continue-on-collection-errors",
              "source_commits": [], "add_only": True},
    "engines": [{"name": "pyvc", "path": "/verif/pyvc", "serves_properties": [c["property_id"] for c in checks],
                 "kind_free_text": "contract-based deductive verifier for a Python subset built for this task: symbolic execution of the real "
                                   "function ASTs (re-read from /repo on every run) against sidecar contracts, obligations discharged by z3 5.1 / cvc5; "
                                   "native contract monitor for replay and bounded stand-ins"}],
    "checks": checks,
    "not_applicable": na,
    "notes": "exit codes: 0 held, 1 VIOLATION, 2 undecided (never a violation), 3 checker fault. Known findings: /verif/known_findings.json. "
             "Repairs of genuine defects are 'fix:' commits in /repo, listed in known_findings.json as fixed.",
}
json.dump(man, open(os.path.join(ROOT, "MANIFEST.json"), "w"), indent=1)
print("claimed:", [c["property_id"] for c in checks])
